#!/bin/bash
# MANIFEST.setup_cmd: build the framework from files on disk only (offline).
#  - source mirror of /repo + out-of-tree clang ASan/UBSan build of the proxy (used by every engine)
#  - LD_PRELOAD shim and relay helper
set -e
cd "$(dirname "$0")"
python3-vt - <<'PY'
import sys, os
sys.path.insert(0, os.path.join(os.getcwd(), "engine"))
from vlib import build
build.ensure_build()
try:
    from vlib import native
    native.build_all()
except ImportError:
    pass
print("setup ok")
PY
