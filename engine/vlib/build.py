"""Build logic: source mirror of /repo, out-of-tree sanitizer build, unit-harness linking.

Every check calls ensure_build() first, so what runs is always /repo's current working tree:
  * the mirror is an rsync -c (checksum) copy of the tracked files + autotools bootstrap output;
  * if anything changed, `make -j16 all` is re-run in the out-of-tree build directory
    (incremental: edited TUs + relink).
Unit harnesses reuse the objects of that build through the link recipe of one of the
repository's own unit tests (obtained from `make -n`), with the test's own objects replaced
by the harness.
"""
import fcntl
import json
import os
import re
import shlex
import subprocess
import time

from .common import BUILD, MIRROR, OBJ, REPO, ROOT, VERIF, NCPU, log

SAN = "-fsanitize=address,undefined -fno-sanitize=vptr -fsanitize=fuzzer-no-link"
BASEFLAGS = "-O1 -g1 %s -fno-omit-frame-pointer -DSQUID_VERIF" % SAN
CONFIGURE_ARGS = [
    "--prefix=" + ROOT, "--disable-strict-error-checking", "--disable-arch-native", "--disable-shared",
    "CC=clang", "CXX=clang++", "CFLAGS=" + BASEFLAGS, "CXXFLAGS=" + BASEFLAGS, "LDFLAGS=" + SAN,
]
BUILD_ENV = dict(os.environ, ASAN_OPTIONS="detect_leaks=0", UBSAN_OPTIONS="halt_on_error=0")

EXTRA_PATTERNS = ("Makefile.in", "configure", "aclocal.m4", "config.h.in", "autoconf.h.in")
SKIP_RE = re.compile(r"\.(o|lo|la|a|so|trs|log)$|/\.deps/|/\.libs/|/Makefile$|config\.(status|log)$|/autom4te\.cache/")


class Lock:
    def __init__(self, name="build.lock"):
        os.makedirs(BUILD, exist_ok=True)
        self.path = os.path.join(BUILD, name)

    def __enter__(self):
        self.f = open(self.path, "w")
        fcntl.flock(self.f, fcntl.LOCK_EX)
        return self

    def __exit__(self, *a):
        fcntl.flock(self.f, fcntl.LOCK_UN)
        self.f.close()


def _file_list():
    """-> (tracked files, autotools bootstrap output present in REPO)"""
    tracked = subprocess.run(["git", "-C", REPO, "ls-files"], capture_output=True, text=True, check=True).stdout.split("\n")
    files = set(t for t in tracked if t and os.path.exists(os.path.join(REPO, t)))
    extra = set()
    for base, dirs, names in os.walk(REPO):
        rel = os.path.relpath(base, REPO)
        if rel == ".":
            rel = ""
        dirs[:] = [d for d in dirs if d not in (".git", ".deps", ".libs", "autom4te.cache")]
        top = rel.split("/")[0] if rel else ""
        for n in names:
            p = os.path.join(rel, n) if rel else n
            if p in files:
                continue
            if n in EXTRA_PATTERNS or (top in ("cfgaux", "libltdl") and not SKIP_RE.search("/" + p)):
                extra.add(p)
    if os.path.exists(os.path.join(REPO, "SPONSORS")) and "SPONSORS" not in files:
        extra.add("SPONSORS")
    return sorted(files), sorted(extra)


def sync_mirror():
    """-> True when the mirror content changed"""
    os.makedirs(MIRROR, exist_ok=True)
    files, extra = _file_list()
    listing = os.path.join(BUILD, "mirror.tracked")
    old = []
    if os.path.exists(listing):
        with open(listing) as f:
            old = f.read().split("\n")
    changed = False
    # tracked files that disappeared from the tree disappear from the mirror; bootstrap output
    # (configure, Makefile.in, ...) is only ever added, so a scratch worktree without it still builds
    gone = set(old) - set(files) - {""}
    for g in gone:
        p = os.path.join(MIRROR, g)
        if os.path.lexists(p):
            os.unlink(p)
            changed = True
    with open(listing, "w") as f:
        f.write("\n".join(files) + "\n")
    allfiles = os.path.join(BUILD, "mirror.files")
    with open(allfiles, "w") as f:
        f.write("\n".join(files + extra) + "\n")
    r = subprocess.run(["rsync", "-rlpc", "-i", "--files-from=" + allfiles, REPO + "/", MIRROR + "/"],
                       capture_output=True, text=True, check=True)
    touched = [l for l in r.stdout.split("\n") if l and not l.startswith("cd") and not l.startswith(".d")]
    if touched:
        changed = True
        log("[build] mirror updated: %d file(s): %s" % (len(touched), ", ".join(t.split(" ", 1)[-1] for t in touched[:6])))
    return changed


def _run(cmd, cwd, logname, env=BUILD_ENV):
    logpath = os.path.join(BUILD, logname)
    with open(logpath, "w") as lf:
        p = subprocess.run(cmd, cwd=cwd, stdout=lf, stderr=subprocess.STDOUT, env=env)
    if p.returncode != 0:
        tail = subprocess.run(["tail", "-40", logpath], capture_output=True, text=True).stdout
        raise SystemExit("[build] FAILED (%s) -- see %s\n%s" % (" ".join(cmd[:3]), logpath, tail))


def configure_if_needed():
    if os.path.exists(os.path.join(OBJ, "config.status")) and os.path.exists(os.path.join(OBJ, "Makefile")):
        return
    os.makedirs(OBJ, exist_ok=True)
    os.makedirs(os.path.join(ROOT, "var", "run", "squid"), exist_ok=True)
    log("[build] configuring out-of-tree sanitizer build (about 2.5 min)")
    _run([os.path.join(MIRROR, "configure")] + CONFIGURE_ARGS, OBJ, "configure.log")


STAMP = os.path.join(BUILD, "build.stamp")


def _relink_if_stale():
    """automake leaves libraries that reach squid_LDADD through a variable (e.g. $(ADAPTATION_LIBS) =
    adaptation/libadaptation.la) out of squid_DEPENDENCIES, so a change confined to such a library rebuilds the archive
    but not the proxy binary.  Force the link when any convenience archive is newer than the binary."""
    binary = os.path.join(OBJ, "src", "squid")
    try:
        t = os.path.getmtime(binary)
    except OSError:
        return
    newer = None
    for top in (os.path.join(OBJ, "src"), os.path.join(OBJ, "lib"), os.path.join(OBJ, "compat")):
        for d, _dirs, files in os.walk(top):
            if os.path.basename(d) != ".libs":
                continue
            for f in files:
                if f.endswith(".a") and os.path.getmtime(os.path.join(d, f)) > t:
                    newer = os.path.join(d, f)
                    break
            if newer:
                break
        if newer:
            break
    if newer:
        log("[build] %s is newer than the proxy binary: relinking" % os.path.relpath(newer, OBJ))
        os.unlink(binary)
        _run(["make", "-j%d" % NCPU, "all"], OBJ, "make-relink.log")


def ensure_build(need_proxy=True):
    """Sync the mirror and bring the out-of-tree build up to date. Returns the squid binary path."""
    with Lock():
        t0 = time.time()
        changed = sync_mirror()
        configure_if_needed()
        if not need_proxy:
            # standalone harnesses (E-sched) compile their sources straight from the mirror and link
            # nothing from the proxy build: do not pay for `make all`, but invalidate the stamp so
            # that the next check that does need the proxy rebuilds it
            if changed and os.path.exists(STAMP):
                os.unlink(STAMP)
            return os.path.join(OBJ, "src", "squid")
        if changed or not os.path.exists(STAMP):
            log("[build] make -j%d all" % NCPU)
            if os.path.exists(STAMP):
                os.unlink(STAMP)
            _run(["make", "-j%d" % NCPU, "all"], OBJ, "make.log")
            _relink_if_stale()
            with open(STAMP, "w") as f:
                f.write(str(time.time()))
            log("[build] done in %.0f s" % (time.time() - t0))
        os.makedirs(os.path.join(ROOT, "var", "run", "squid"), exist_ok=True)
    return os.path.join(OBJ, "src", "squid")


# ------------------------------------------------------------------ unit recipes

def _link_line(recipe_dir, target):
    """The libtool link command `make` would use for a unit-test program (never built)."""
    cwd = os.path.join(OBJ, recipe_dir)
    binpath = os.path.join(cwd, target)
    if os.path.exists(binpath):
        os.unlink(binpath)
    r = subprocess.run(["make", "-n", target], cwd=cwd, capture_output=True, text=True, env=BUILD_ENV)
    lines = r.stdout.replace("\\\n", " ").split("\n")
    cands = [l for l in lines if "--mode=link" in l and re.search(r"-o\s+%s(\s|$)" % re.escape(target), l)]
    if not cands:
        raise SystemExit("[build] cannot find link line for %s in %s\n%s" % (target, recipe_dir, r.stderr[-2000:]))
    return cands[-1]


def recipe(recipe_spec):
    """recipe_spec 'src:tests/testTokenizer' -> dict(dir, objects, libs, ldflags)"""
    if ":" in recipe_spec:
        rdir, target = recipe_spec.split(":", 1)
    else:
        rdir, target = "src", recipe_spec
    line = _link_line(rdir, target)
    toks = shlex.split(line)
    i = toks.index("--mode=link")
    toks = toks[i + 2:]  # drop compiler name
    objects, libs, other = [], [], []
    skip = False
    tname = os.path.basename(target)
    for j, t in enumerate(toks):
        if skip:
            skip = False
            continue
        if t == "-o":
            skip = True
            continue
        if t.endswith(".o") or t.endswith(".lo"):
            base = os.path.basename(t)
            # the test program's own sources (its main and cppunit fixtures) are replaced by the harness
            if base.startswith("test") or base.startswith(tname):
                continue
            objects.append(t)
        elif t.endswith(".la") or t.endswith(".a"):
            libs.append(t)
        elif t.startswith("-l") or t.startswith("-L") or t.startswith("-Wl") or t in ("-pthread", "-export-dynamic"):
            if t == "-lcppunit":
                continue
            other.append(t)
        elif t.startswith("-fsanitize") or t.startswith("-fno-sanitize"):
            continue
        # compile-only flags are dropped
    return {"dir": rdir, "target": target, "objects": objects, "libs": libs, "ldflags": other}


def _make_targets(rdir, targets):
    local = [t for t in targets if not t.startswith("..")]
    if not local:
        return
    _run(["make", "-j%d" % NCPU] + local, os.path.join(OBJ, rdir), "make-recipe.log")


INCLUDES = ["-I" + MIRROR, "-I" + MIRROR + "/include", "-I" + MIRROR + "/lib", "-I" + MIRROR + "/src",
            "-I" + OBJ + "/include", "-I" + OBJ + "/src", "-I" + OBJ, "-I" + VERIF + "/engine/cxx"]
CXXBASE = ["clang++", "-std=gnu++17", "-DHAVE_CONFIG_H", "-D_REENTRANT", "-O1", "-g1", "-fno-omit-frame-pointer",
           "-fsanitize=address,undefined", "-fno-sanitize=vptr", "-DSQUID_VERIF", "-Wall", "-Wno-unused-function"]


def _needs(target, deps):
    if not os.path.exists(target):
        return True
    mt = os.path.getmtime(target)
    for d in deps:
        if os.path.exists(d) and os.path.getmtime(d) > mt:
            return True
    return False


def _depfile_deps(dpath):
    if not os.path.exists(dpath):
        return None
    with open(dpath) as f:
        txt = f.read().replace("\\\n", " ")
    if ":" not in txt:
        return None
    return [d for d in txt.split(":", 1)[1].split() if d]


def compile_cxx(src, obj, extra_flags=(), fuzz=False):
    """Compile one TU if it (or any header it read last time) changed."""
    dep = obj + ".d"
    deps = _depfile_deps(dep)
    flagsig = " ".join(extra_flags) + (" fuzz" if fuzz else "") + " mirror=" + MIRROR  # dep files hold absolute mirror paths
    sigfile = obj + ".flags"
    oldsig = open(sigfile).read() if os.path.exists(sigfile) else None
    if deps is not None and oldsig == flagsig and not _needs(obj, deps + [src]):
        return False
    os.makedirs(os.path.dirname(obj), exist_ok=True)
    cmd = list(CXXBASE)
    if fuzz:
        cmd += ["-fsanitize=fuzzer-no-link", "-DVP_FUZZ"]
    cmd += INCLUDES + list(extra_flags) + ["-MMD", "-MF", dep, "-c", src, "-o", obj]
    p = subprocess.run(cmd, capture_output=True, text=True)
    if p.returncode != 0:
        raise SystemExit("[build] compile failed: %s\n%s" % (src, p.stderr[-6000:]))
    with open(sigfile, "w") as f:
        f.write(flagsig)
    return True


def build_unit(pid, meta, fuzz=False):
    """Build props/<pid>/harness.cc against the unit-test link recipe named in meta. -> exe path"""
    with Lock("unit-%s.lock" % pid):
        rec = recipe(meta["recipe"])
        rdir = os.path.join(OBJ, rec["dir"])
        extra_objs = meta.get("extra_objects", [])      # more objects from the proxy build, relative to recipe dir
        drop = set(meta.get("drop_objects", []))
        objects = [o for o in rec["objects"] if o not in drop] + extra_objs
        with Lock():
            _make_targets(rec["dir"], objects + [l for l in rec["libs"]])
        outdir = os.path.join(BUILD, "unit", pid)
        os.makedirs(outdir, exist_ok=True)
        src = os.path.join(VERIF, "props", pid, meta.get("harness", "harness.cc"))
        tag = "fuzz" if fuzz else "rc"
        obj = os.path.join(outdir, "harness-%s.o" % tag)
        exe = os.path.join(outdir, "harness-%s" % tag)
        recompiled = compile_cxx(src, obj, meta.get("cxxflags", []), fuzz=fuzz)
        link_inputs = [os.path.join(rdir, o) for o in objects] + [os.path.join(rdir, l) for l in rec["libs"]]
        # .la files: the real archive is in .libs/
        real_inputs = []
        for p in link_inputs:
            if p.endswith(".la"):
                real_inputs.append(os.path.join(os.path.dirname(p), ".libs", os.path.basename(p)[:-3] + ".a"))
            elif p.endswith(".lo"):
                real_inputs.append(p[:-3] + ".o")
            else:
                real_inputs.append(p)
        if recompiled or _needs(exe, real_inputs + [obj]):
            cmd = ["/bin/bash", os.path.join(OBJ, "libtool"), "--quiet", "--tag=CXX", "--mode=link", "clang++", "-std=gnu++17",
                   "-fsanitize=address,undefined", "-fno-sanitize=vptr"]
            cmd += ["-fsanitize=fuzzer"] if fuzz else ["-fsanitize=fuzzer-no-link"]
            cmd += ["-o", exe, obj] + [os.path.join(rdir, o) for o in objects] + [os.path.join(rdir, l) for l in rec["libs"]]
            cmd += rec["ldflags"] + meta.get("ldflags", []) + ["-lrapidcheck"]
            p = subprocess.run(cmd, cwd=rdir, capture_output=True, text=True, env=BUILD_ENV)
            if p.returncode != 0:
                raise SystemExit("[build] link failed for %s\n%s" % (pid, p.stderr[-8000:]))
        return exe


def build_standalone(pid, meta, sources, fuzz=False, name="harness"):
    """Compile harness + explicitly listed repo sources (no recipe): for E-sched and pure-C libraries."""
    outdir = os.path.join(BUILD, "unit", pid)
    os.makedirs(outdir, exist_ok=True)
    tag = "fuzz" if fuzz else "rc"
    objs = []
    relinked = False
    for s in sources:
        srcpath = s if os.path.isabs(s) else os.path.join(MIRROR, s)
        obj = os.path.join(outdir, tag + "-" + s.replace("/", "_") + ".o")
        relinked |= compile_cxx(srcpath, obj, meta.get("cxxflags", []) + (["-x", "c++"] if False else []), fuzz=fuzz)
        objs.append(obj)
    exe = os.path.join(outdir, "%s-%s" % (name, tag))
    if relinked or _needs(exe, objs):
        cmd = ["clang++", "-std=gnu++17", "-fsanitize=address,undefined", "-fno-sanitize=vptr"]
        cmd += ["-fsanitize=fuzzer"] if fuzz else []
        cmd += ["-o", exe] + objs + meta.get("ldflags", []) + ["-lrapidcheck", "-lpthread"]
        p = subprocess.run(cmd, capture_output=True, text=True)
        if p.returncode != 0:
            raise SystemExit("[build] link failed for %s\n%s" % (pid, p.stderr[-8000:]))
    return exe
