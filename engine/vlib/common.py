"""Shared plumbing for every check: paths, metadata, known findings, evidence, reporting."""
import hashlib
import json
import os
import sys
import time

VERIF = os.path.dirname(os.path.dirname(os.path.dirname(os.path.abspath(__file__))))
REPO = os.environ.get("VERIF_REPO", "/repo")
BUILD = os.environ.get("VERIF_BUILD") or os.path.join(VERIF, ".build")
MIRROR = os.path.join(BUILD, "mirror")
OBJ = os.path.join(BUILD, "obj")
ROOT = os.path.join(BUILD, "root")
RUN = os.path.join(BUILD, "run")
OUT = os.environ.get("VERIF_OUT") or os.path.join(VERIF, "out")          # git-ignored: new violations' replay files
EVIDENCE = os.environ.get("VERIF_EVIDENCE") or os.path.join(VERIF, "evidence")
REPLAYS = os.path.join(VERIF, "replays")
NCPU = os.cpu_count() or 4

LEVELS = ("exploration", "fault_enumeration", "model_checking", "proof", "translation_validation", "other")


def log(*a):
    print(*a, file=sys.stderr, flush=True)


def load_meta(pid):
    with open(os.path.join(VERIF, "props", pid, "meta.json")) as f:
        return json.load(f)


def load_known(pid):
    """-> (open: {signature: description}, fixed: {signature: description})"""
    path = os.path.join(VERIF, "known_findings.json")
    open_, fixed = {}, {}
    if os.path.exists(path):
        with open(path) as f:
            data = json.load(f)
        for e in data.get("findings", []):
            if e.get("property") != pid:
                continue
            if e.get("status") == "open":
                open_[e["signature"]] = e.get("what", "")
            else:
                fixed[e["signature"]] = e.get("what", "")
    return open_, fixed


def seed_from_env(default=20260921):
    v = os.environ.get("VERIF_SEED", "")
    try:
        s = int(v)
    except ValueError:
        s = default
    if s == 0:
        s = default
    return s & 0x7FFFFFFFFFFFFFFF


def sha(text):
    if isinstance(text, str):
        text = text.encode("utf-8", "surrogateescape")
    return hashlib.sha256(text).hexdigest()[:16]


def save_violation_case(pid, text, ext=".case"):
    d = os.path.join(OUT, "violations", pid)
    os.makedirs(d, exist_ok=True)
    mode = "wb" if isinstance(text, bytes) else "w"
    p = os.path.join(d, sha(text) + ext)
    with open(p, mode) as f:
        f.write(text)
    return p


class Outcome:
    """What one run of a check found; turned into evidence + stdout lines + exit code."""

    def __init__(self, pid, tier, seed, meta):
        self.pid, self.tier, self.seed, self.meta = pid, tier, seed, meta
        self.t0 = time.time()
        self.evaluations = 0
        self.distinct_nontrivial = 0
        self.samples = []
        self.extra = {}            # extra coverage keys
        self.known_hits = {}       # signature -> count
        self.violations = []       # (signature, detail, replay_path)
        self.notes = []
        self.gates_unmet = []
        self.exhaustive = None

    def add_violation(self, signature, detail, replay_path):
        self.violations.append((signature, detail, replay_path))

    def merge(self, other, part_name):
        """Fold another part's outcome (same property, other engine) into this one."""
        self.evaluations += other.evaluations
        self.distinct_nontrivial += other.distinct_nontrivial
        self.samples = self.samples[:6] + other.samples[:6]
        for k, v in other.known_hits.items():
            self.known_hits[k] = self.known_hits.get(k, 0) + v
        self.violations += other.violations
        self.notes += ["%s: %s" % (part_name, n) for n in other.notes]
        self.gates_unmet += ["%s: %s" % (part_name, g) for g in other.gates_unmet]
        self.extra.setdefault("parts", {})[part_name] = dict(other.extra, evaluations=other.evaluations, distinct_nontrivial=other.distinct_nontrivial, rule=other.meta.get("rule", ""))

    def finish(self):
        pid = self.pid
        open_known, _fixed = load_known(pid)
        wall = time.time() - self.t0
        cov = {
            "evaluations": int(self.evaluations),
            "distinct_nontrivial": int(self.distinct_nontrivial),
            "rule": self.meta.get("rule", ""),
            "samples": self.samples[:12] if self.samples else [],
            "known_finding_hits": self.known_hits,
            "gates_unmet": self.gates_unmet,
            "notes": self.notes,
        }
        if self.exhaustive is not None:
            cov["exhaustive"] = bool(self.exhaustive)
        cov.update(self.extra)
        ev = {
            "property_id": pid,
            "tier": self.tier,
            "seed": int(self.seed),
            "level": self.meta.get("level", "exploration"),
            "coverage": cov,
            "assumptions": self.meta.get("assumptions", []),
            "wall_s": round(wall, 2),
            "violations": len(self.violations),
        }
        os.makedirs(EVIDENCE, exist_ok=True)
        tmp = os.path.join(EVIDENCE, pid + ".json.tmp")
        with open(tmp, "w") as f:
            json.dump(ev, f, indent=1, sort_keys=True, default=str)
            f.write("\n")
        os.replace(tmp, os.path.join(EVIDENCE, pid + ".json"))
        for g in self.gates_unmet:
            print("WARNING: property=%s generator gate unmet: %s" % (pid, g))
        for n in self.notes:
            print("NOTE: property=%s %s" % (pid, n))
        for sig, what in sorted(open_known.items()):
            print("KNOWN-FINDING: property=%s %s -- %s (matching cases this run: %d)" % (pid, sig, what, self.known_hits.get(sig, 0)))
        print("SUMMARY: property=%s tier=%s seed=%d evaluations=%d distinct_nontrivial=%d violations=%d wall_s=%.1f" % (
            pid, self.tier, self.seed, self.evaluations, self.distinct_nontrivial, len(self.violations), wall))
        for sig, detail, path in self.violations:
            print("VIOLATION-DETAIL: property=%s signature=%s %s" % (pid, sig, (detail or "")[:500].replace("\n", " ")))
            print("VIOLATION property=%s replay=%s" % (pid, path))
        sys.stdout.flush()
        return 1 if self.violations else 0


def tier_params(meta, tier):
    """Tier parameters of a meta file.  VERIF_BUDGET_SCALE=f (0 < f < 1; smoke runs of the thorough tier, never used by a
    registered command) scales every time budget and case count; the evidence says so in its notes."""
    tp = dict(meta["tiers"][tier])
    try:
        f = float(os.environ.get("VERIF_BUDGET_SCALE") or 1.0)
    except ValueError:
        f = 1.0
    if 0 < f < 1:
        for k in ("budget_s", "fuzz_s", "cases", "examples"):
            if k in tp:
                tp[k] = max(1, int(tp[k] * f))
        tp["_scaled"] = f
    return tp
