"""Harness side of the helper relay: the harness process plays any Squid helper.

Squid is configured with `<vlib.native.RELAY> <unix socket path>` as the helper program
(auth_param basic program, url_rewrite_program, external_acl_type ...).  Every helper child
connects to the socket and relays its stdin/stdout, so this stub sees every helper request line
and decides what is answered, when, in which order and in which write fragments.

    stub = HelperStub("C47-w0", channels=True)           # creates <RUN>/<name>-hs-<pid>-<n>/h.sock
    conf = "url_rewrite_program %s\nurl_rewrite_children 1 startup=1 concurrency=8\n" % stub.program
    ... start Squid ...
    reqs = stub.wait_requests(3, timeout=10)              # HelperRequest objects (line, channel, payload)
    stub.reply(reqs[1], b"OK rewrite-url=http://...", segments=[1, 5], pause_ms=[3, 3])
    stub.raw(reqs[0].conn, b"77 OK\n")                    # anything, e.g. a reply for an unknown channel
    stub.stop()

Automatic mode: HelperStub(..., handler=f) calls f(request) in the reader thread; a bytes result is
sent as the reply at once, None leaves the request for the harness to answer.

Squid runs as `nobody`: the socket is chmod 0666 inside an own 0777 directory.
"""
import os
import shutil
import socket
import threading
import time

from .. import native
from ..common import RUN

_counter = [0]


class HelperRequest:
    def __init__(self, conn, seq, line, channels):
        self.conn = conn
        self.seq = seq                  # arrival index over all helper children
        self.line = line                # request line without the end-of-line
        self.time = time.monotonic()
        self.channel = None
        self.payload = line
        self.answered = False
        if channels:
            head, _, rest = line.partition(b" ")
            if head.isdigit():
                self.channel = int(head)
                self.payload = rest

    @property
    def tokens(self):
        return self.payload.split(b" ")

    def __repr__(self):
        return "<HelperRequest conn=%d ch=%r %r>" % (self.conn.id, self.channel, self.payload[:80])


class HelperConn:
    """One helper child (one relay process)."""

    def __init__(self, cid, sock):
        self.id = cid
        self.sock = sock
        self.alive = True
        self.requests = []
        self.wlock = threading.Lock()

    def write(self, data, segments=None, pause_ms=None):
        """Write data split at the given segment sizes (rest in one write); pause_ms[i] after segment i
        (default 2 ms between fragments so that they reach Squid as separate reads -- a suggestion, not a guarantee)."""
        segments = list(segments or [])
        pause_ms = list(pause_ms or [])
        pos = 0
        i = 0
        with self.wlock:
            try:
                while pos < len(data):
                    n = segments[i] if i < len(segments) else len(data) - pos
                    n = max(1, min(n, len(data) - pos))
                    self.sock.sendall(data[pos:pos + n])
                    pos += n
                    if pos < len(data):
                        time.sleep((pause_ms[i] if i < len(pause_ms) else 2) / 1000.0)
                    i += 1
            except OSError:
                self.alive = False
                return False
        return True

    def close(self):
        self.alive = False
        try:
            self.sock.shutdown(socket.SHUT_RDWR)
        except OSError:
            pass
        try:
            self.sock.close()
        except OSError:
            pass


class HelperStub:
    def __init__(self, name="hs", channels=False, handler=None):
        native.build_all()
        _counter[0] += 1
        self.dir = os.path.join(RUN, "%s-hs-%d-%d" % (name, os.getpid(), _counter[0]))
        if os.path.exists(self.dir):
            shutil.rmtree(self.dir, ignore_errors=True)
        os.makedirs(self.dir)
        os.chmod(self.dir, 0o777)
        for d in (RUN, os.path.dirname(RUN)):
            try:
                os.chmod(d, 0o755)
            except OSError:
                pass
        self.path = os.path.join(self.dir, "h.sock")
        if len(self.path) > 100:
            raise RuntimeError("unix socket path too long: %s" % self.path)
        self.channels = channels
        self.handler = handler
        self.lsock = socket.socket(socket.AF_UNIX, socket.SOCK_STREAM)
        self.lsock.bind(self.path)
        os.chmod(self.path, 0o666)
        self.lsock.listen(64)
        self.cond = threading.Condition()
        self.requests = []          # every HelperRequest in arrival order
        self._taken = 0
        self.conns = {}
        self.conn_count = 0
        self.stopping = False
        self.errors = []
        self.thread = threading.Thread(target=self._accept_loop, daemon=True)
        self.thread.start()

    # ------------------------------------------------------------------ configuration text
    @property
    def program(self):
        """What goes after `url_rewrite_program` / `auth_param basic program` / external_acl_type ... FORMAT"""
        return "%s %s" % (native.RELAY, self.path)

    # ------------------------------------------------------------------ harness API
    def wait_requests(self, n, timeout=10.0, since=None):
        """Wait until n requests arrived after position `since` (default: after the last take()).
        -> list of the new requests (possibly fewer than n on timeout); advances the take position."""
        start = self._taken if since is None else since
        deadline = time.monotonic() + timeout
        with self.cond:
            while len(self.requests) - start < n:
                left = deadline - time.monotonic()
                if left <= 0:
                    break
                self.cond.wait(left)
            out = self.requests[start:]
            if since is None:
                self._taken = len(self.requests)
        return out

    def take(self):
        """Requests that arrived since the last take()/wait_requests()."""
        with self.cond:
            out = self.requests[self._taken:]
            self._taken = len(self.requests)
        return out

    def position(self):
        with self.cond:
            return len(self.requests)

    def wait_until(self, pred, timeout=10.0):
        """Wait until pred(list of all requests) is true. -> bool"""
        deadline = time.monotonic() + timeout
        with self.cond:
            while not pred(self.requests):
                left = deadline - time.monotonic()
                if left <= 0:
                    return False
                self.cond.wait(left)
        return True

    def reply(self, req, text, eol=b"\n", segments=None, pause_ms=None, channel=None):
        """Answer a request on the connection it came from: `[<channel> ]<text><eol>`.
        channel: override the channel id written (default: the request's own)."""
        ch = req.channel if channel is None else channel
        data = (b"%d " % ch if ch is not None else b"") + text + eol
        req.answered = True
        return req.conn.write(data, segments, pause_ms)

    def raw(self, conn, data, segments=None, pause_ms=None):
        return conn.write(data, segments, pause_ms)

    def live_conns(self):
        with self.cond:
            return [c for c in self.conns.values() if c.alive]

    def close_connections(self):
        """Ends every helper child (the relay exits when its socket closes; Squid starts new children as configured)."""
        with self.cond:
            conns = list(self.conns.values())
        for c in conns:
            c.close()

    def stop(self):
        self.stopping = True
        try:
            self.lsock.close()
        except OSError:
            pass
        self.close_connections()
        shutil.rmtree(self.dir, ignore_errors=True)

    # ------------------------------------------------------------------ socket side
    def _accept_loop(self):
        while not self.stopping:
            try:
                s, _ = self.lsock.accept()
            except OSError:
                return
            with self.cond:
                self.conn_count += 1
                c = HelperConn(self.conn_count, s)
                self.conns[c.id] = c
                self.cond.notify_all()
            threading.Thread(target=self._reader, args=(c,), daemon=True).start()

    def _reader(self, c):
        buf = bytearray()
        try:
            while not self.stopping and c.alive:
                try:
                    d = c.sock.recv(65536)
                except OSError:
                    d = b""
                if not d:
                    break
                buf += d
                while True:
                    i = buf.find(b"\n")
                    if i < 0:
                        break
                    line = bytes(buf[:i])
                    del buf[:i + 1]
                    if line.endswith(b"\r"):
                        line = line[:-1]
                    with self.cond:
                        req = HelperRequest(c, len(self.requests), line, self.channels)
                        self.requests.append(req)
                        c.requests.append(req)
                        self.cond.notify_all()
                    if self.handler is not None:
                        try:
                            ans = self.handler(req)
                        except Exception as e:    # harness bug: keep it visible, never fatal
                            self.errors.append("handler: %r" % e)
                            ans = None
                        if ans is not None:
                            self.reply(req, ans)
        finally:
            c.alive = False
            with self.cond:
                self.cond.notify_all()
            try:
                c.sock.close()
            except OSError:
                pass
