"""Raw-socket HTTP client owned by the harness: generated segmentation, strict response reading."""
import socket
import struct
import time

from . import httpref


class Conn:
    def __init__(self, port, host="127.0.0.1", src=None, timeout=10.0, rcvbuf=None):
        self.s = socket.socket(socket.AF_INET, socket.SOCK_STREAM)
        if rcvbuf:      # a small receive window (set before connect): the peer cannot push much ahead of what is read
            self.s.setsockopt(socket.SOL_SOCKET, socket.SO_RCVBUF, rcvbuf)
        self.s.setsockopt(socket.IPPROTO_TCP, socket.TCP_NODELAY, 1)
        if src:
            self.s.bind((src, 0))
        self.s.settimeout(timeout)
        self.s.connect((host, port))
        self.timeout = timeout
        self.rbuf = bytearray()
        self.eof = False
        self.reset = False
        self.sent = 0

    def send(self, data, segments=None, pause_ms=None):
        """Write data split at the given segment sizes (rest in one write). Returns bytes written (may stop on error)."""
        pos = 0
        i = 0
        segments = segments or []
        pause_ms = pause_ms or []
        try:
            while pos < len(data):
                n = segments[i] if i < len(segments) else len(data) - pos
                n = max(1, min(n, len(data) - pos))
                self.s.sendall(data[pos:pos + n])
                pos += n
                self.sent += n
                if i < len(pause_ms) and pause_ms[i]:
                    time.sleep(pause_ms[i] / 1000.0)
                elif i < len(segments):
                    time.sleep(0.0005)  # let the segment leave on its own
                i += 1
        except OSError:
            self.reset = True
        return pos

    def _fill(self, deadline):
        if self.eof:
            return False
        left = deadline - time.time()
        if left <= 0:
            return False
        self.s.settimeout(left)
        try:
            d = self.s.recv(262144)
        except socket.timeout:
            return False
        except OSError:
            self.eof = True
            self.reset = True
            return False
        if not d:
            self.eof = True
            return False
        self.rbuf += d
        return True

    def read_response(self, request_method=b"GET", timeout=None, skip_interim=True):
        """Read one final response. -> httpref.Message (complete or truncated) or None on timeout with nothing parsed.
        msg.timed_out is set when the deadline passed before the message ended (inconclusive, not truncated)."""
        deadline = time.time() + (timeout if timeout is not None else self.timeout)
        while True:
            try:
                m, end = httpref.parse_message(bytes(self.rbuf), "response", self.eof, request_method)
            except httpref.NeedMore:
                if not self._fill(deadline):
                    if self.eof:
                        continue
                    # timeout
                    try:
                        m, end = httpref.parse_message(bytes(self.rbuf), "response", True, request_method)
                    except httpref.BadMessage as e:
                        m = httpref.Message()
                        m.kind = "response"
                        m.anomalies.append("bad-message: %s" % e)
                    m.complete = False
                    m.truncated = False
                    m.timed_out = True
                    return m
                continue
            except httpref.BadMessage as e:
                m = httpref.Message()
                m.kind = "response"
                m.raw_head = bytes(self.rbuf)
                m.anomalies.append("bad-message: %s" % e)
                m.bad = True
                m.timed_out = False
                return m
            m.timed_out = False
            m.bad = False
            if m.complete:
                del self.rbuf[:end]
                if skip_interim and m.status is not None and m.status // 100 == 1 and m.status != 101:
                    continue
                return m
            # truncated (eof reached)
            del self.rbuf[:end]
            return m

    def read_until_eof(self, timeout=None):
        deadline = time.time() + (timeout if timeout is not None else self.timeout)
        while self._fill(deadline):
            pass
        return bytes(self.rbuf)

    def wait_closed(self, timeout=5.0):
        deadline = time.time() + timeout
        while not self.eof and time.time() < deadline:
            self._fill(deadline)
        return self.eof

    def half_close(self):
        try:
            self.s.shutdown(socket.SHUT_WR)
        except OSError:
            pass

    def rst(self):
        try:
            self.s.setsockopt(socket.SOL_SOCKET, socket.SO_LINGER, struct.pack("ii", 1, 0))
        except OSError:
            pass
        self.close()

    def close(self):
        try:
            self.s.close()
        except OSError:
            pass


def simple_get(port, url, headers=None, method="GET", timeout=10.0, version="HTTP/1.1", body=None):
    """One request on a fresh connection (Connection: close). -> Message"""
    c = Conn(port, timeout=timeout)
    try:
        lines = ["%s %s %s" % (method, url, version)]
        hs = list(headers or [])
        if not any(h[0].lower() == "host" for h in hs):
            hostport = url.split("://", 1)[1].split("/", 1)[0] if "://" in url else "localhost"
            hs.insert(0, ("Host", hostport))
        if not any(h[0].lower() == "connection" for h in hs):
            hs.append(("Connection", "close"))
        if body is not None and not any(h[0].lower() in ("content-length", "transfer-encoding") for h in hs):
            hs.append(("Content-Length", str(len(body))))
        for k, v in hs:
            lines.append("%s: %s" % (k, v))
        data = ("\r\n".join(lines) + "\r\n\r\n").encode("latin-1") + (body or b"")
        c.send(data)
        return c.read_response(method.encode(), timeout=timeout)
    finally:
        c.close()
