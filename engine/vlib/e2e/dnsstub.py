"""Tiny authoritative DNS stub (UDP) for e2e checks: names -> several loopback addresses, NXDOMAIN otherwise.
Squid's resolver port is fixed at 53, so each stub binds its own loopback address (127.0.53.N:53)."""
import socket
import struct
import threading


def _qname(data, pos):
    labels = []
    while True:
        n = data[pos]
        if n == 0:
            return ".".join(labels), pos + 1
        labels.append(data[pos + 1:pos + 1 + n].decode("latin-1"))
        pos += 1 + n


class DnsStub:
    def __init__(self, addr):
        self.addr = addr
        self.table = {}      # lower-case name -> list of IPv4 strings
        self.queries = []    # (name, qtype)
        self.lock = threading.Lock()
        self.sock = socket.socket(socket.AF_INET, socket.SOCK_DGRAM)
        self.sock.bind((addr, 53))
        self.stopping = False
        self.thread = threading.Thread(target=self._loop, daemon=True)
        self.thread.start()

    def set(self, name, addrs):
        with self.lock:
            self.table[name.lower().rstrip(".")] = list(addrs)

    def stop(self):
        self.stopping = True
        try:
            self.sock.close()
        except OSError:
            pass

    def _loop(self):
        while not self.stopping:
            try:
                data, peer = self.sock.recvfrom(4096)
            except OSError:
                return
            try:
                self.sock.sendto(self._answer(data), peer)
            except Exception:
                pass

    def _answer(self, data):
        qid, flags, qd = struct.unpack(">HHH", data[:6])
        name, pos = _qname(data, 12)
        qtype, qclass = struct.unpack(">HH", data[pos:pos + 4])
        question = data[12:pos + 4]
        with self.lock:
            self.queries.append((name, qtype))
            addrs = self.table.get(name.lower().rstrip("."))
        if addrs is None:
            return struct.pack(">HHHHHH", qid, 0x8583, 1, 0, 0, 0) + question   # NXDOMAIN, authoritative
        answers = b""
        n = 0
        if qtype == 1:
            for a in addrs:
                answers += b"\xc0\x0c" + struct.pack(">HHIH", 1, 1, 60, 4) + socket.inet_aton(a)
                n += 1
        return struct.pack(">HHHHHH", qid, 0x8580, 1, n, 0, 0) + question + answers
