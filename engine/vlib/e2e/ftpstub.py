"""Harness-owned FTP server (control + passive data connections) with scripted behaviour per session.

    stub = FtpServer()                                   # 127.0.0.1, free port
    stub.script("c40-w0-r0-7", {"listing": b"-rw-r--r-- 1 u g 5 Jan  1  2020 a\\r\\n"})   # key = substring of any path argument
    GET ftp://127.0.0.1:<stub.port>/c40-w0-r0-7/ through the proxy
    stub.sessions_for("c40-w0-r0-7") -> [Session]         # commands seen, bytes of listing written, ...

Behaviour dict (all optional):
  listing         bytes sent on the data connection for LIST/NLST (default: empty listing)
  nlst            bytes for NLST when different from `listing`
  file            bytes sent for RETR (default: RETR answers 550, so that the proxy falls back to a directory listing)
  greeting / login_msg / cwd_msg   list of text lines sent as a multi-line 220 / 230 / 250 reply (server messages end up in
                  the pages Squid builds)
  cwd_code        reply code for CWD (default 250), list_code: reply to LIST (default 150; >= 300 refuses LIST only, NLST still works),
  done_code       completion reply after the transfer (default 226), pass_code (default 230), user_code (default 331)
  epsv            True (default): answer EPSV with 229; False: 500 (the client falls back to PASV)
  pasv_reply / epsv_reply   literal reply lines instead of the generated ones (address-parsing experiments)
  syst            reply text for SYST (default "215 UNIX Type: L8")
  data_segments / data_pause_ms   write sizes and pauses for the data connection
  data_abort_after  write only this many bytes of the data, then close (data_rst: with RST)
  no_done         do not send the completion reply (the control connection just stays idle)
  close_ctrl_after_list   close the control connection instead of sending the completion reply
The key is looked up in the arguments of CWD/LIST/NLST/RETR/SIZE/MDTM; until a key matched, defaults apply (login works).
"""
import socket
import struct
import threading
import time


class Session:
    def __init__(self, cid):
        self.id = cid
        self.commands = []           # (verb, argument) in order
        self.key = None
        self.behaviour = {}
        self.data_sent = 0
        self.data_len = 0
        self.data_connected = False
        self.listed = False
        self.done = False
        self.error = None
        self.time = time.time()

    def __repr__(self):
        return "<FtpSession %d key=%s cmds=%s data=%d/%d listed=%s err=%s>" % (
            self.id, self.key, [c[0] for c in self.commands], self.data_sent, self.data_len, self.listed, self.error)


class FtpServer:
    def __init__(self, host="127.0.0.1", port=0):
        self.host = host
        self.lsock = socket.socket(socket.AF_INET, socket.SOCK_STREAM)
        self.lsock.setsockopt(socket.SOL_SOCKET, socket.SO_REUSEADDR, 1)
        self.lsock.bind((host, port))
        self.lsock.listen(128)
        self.port = self.lsock.getsockname()[1]
        self.lock = threading.Lock()
        self.behaviours = {}
        self.default_behaviour = {}
        self.sessions = []
        self.conn_count = 0
        self.conns = {}
        self.errors = []
        self.stopping = False
        self.thread = threading.Thread(target=self._accept_loop, daemon=True)
        self.thread.start()

    # ---------------------------------------------------------------- harness API
    def script(self, key, behaviour):
        if isinstance(key, str):
            key = key.encode()
        with self.lock:
            self.behaviours[key] = behaviour

    def forget(self, key):
        if isinstance(key, str):
            key = key.encode()
        with self.lock:
            self.behaviours.pop(key, None)
            self.sessions = [s for s in self.sessions if s.key != key]

    def sessions_for(self, key):
        if isinstance(key, str):
            key = key.encode()
        with self.lock:
            return [s for s in self.sessions if s.key == key]

    def stop(self):
        self.stopping = True
        try:
            self.lsock.close()
        except OSError:
            pass
        with self.lock:
            conns = list(self.conns.values())
        for c in conns:
            try:
                c.close()
            except OSError:
                pass

    # ---------------------------------------------------------------- server side
    def _accept_loop(self):
        while not self.stopping:
            try:
                c, _ = self.lsock.accept()
            except OSError:
                return
            with self.lock:
                self.conn_count += 1
                cid = self.conn_count
                self.conns[cid] = c
            c.setsockopt(socket.IPPROTO_TCP, socket.TCP_NODELAY, 1)
            threading.Thread(target=self._serve, args=(c, cid), daemon=True).start()

    def _match(self, sess, arg):
        if sess.key is not None:
            return
        with self.lock:
            items = list(self.behaviours.items())
        for k, b in items:
            if k in arg:
                sess.key = k
                sess.behaviour = b
                return

    @staticmethod
    def _reply(c, code, lines):
        if isinstance(lines, (str, bytes)):
            lines = [lines]
        lines = [l.encode("latin-1") if isinstance(l, str) else l for l in lines] or [b""]
        out = b""
        for l in lines[:-1]:
            out += b"%d-%s\r\n" % (code, l)
        out += b"%d %s\r\n" % (code, lines[-1])
        c.sendall(out)

    def _serve(self, c, cid):
        sess = Session(cid)
        sess.behaviour = dict(self.default_behaviour)
        with self.lock:
            self.sessions.append(sess)
        pasv = None
        try:
            c.settimeout(60)
            b = sess.behaviour
            self._reply(c, 220, b.get("greeting") or ["verif FTP stub ready"])
            buf = bytearray()
            while not self.stopping:
                while b"\n" not in buf:
                    d = c.recv(4096)
                    if not d:
                        return
                    buf += d
                line, _, rest = bytes(buf).partition(b"\n")
                buf = bytearray(rest)
                line = line.rstrip(b"\r")
                verb, _, arg = line.partition(b" ")
                verb = verb.upper().decode("latin-1")
                sess.commands.append((verb, arg))
                if verb in ("CWD", "LIST", "NLST", "RETR", "SIZE", "MDTM", "MKD", "STOR"):
                    self._match(sess, arg)
                b = sess.behaviour
                if verb == "USER":
                    self._reply(c, int(b.get("user_code", 331)), "password please")
                elif verb == "PASS":
                    self._reply(c, int(b.get("pass_code", 230)), b.get("login_msg") or ["logged in"])
                elif verb == "SYST":
                    c.sendall((b.get("syst", "215 UNIX Type: L8") + "\r\n").encode("latin-1"))
                elif verb == "FEAT":
                    self._reply(c, 211, ["Features:", " EPSV", " SIZE", " MDTM", "End"])
                elif verb in ("TYPE", "MODE", "STRU", "NOOP", "ALLO", "OPTS"):
                    self._reply(c, 200, "ok")
                elif verb == "PWD":
                    self._reply(c, 257, "\"/\" is current directory")
                elif verb in ("CWD", "CDUP"):
                    self._reply(c, int(b.get("cwd_code", 250)), b.get("cwd_msg") or ["directory changed"])
                elif verb in ("MDTM", "SIZE"):
                    if "file" in b and verb == "SIZE":
                        self._reply(c, 213, str(len(b["file"])))
                    else:
                        self._reply(c, 550, "not a plain file")
                elif verb == "REST":
                    self._reply(c, 350, "restarting")
                elif verb == "EPSV":
                    if arg.strip().upper() == b"ALL":
                        self._reply(c, 200, "ok")
                        continue
                    if not b.get("epsv", True):
                        self._reply(c, 500, "EPSV not understood")
                        continue
                    pasv = self._open_pasv(pasv)
                    if b.get("epsv_reply"):
                        c.sendall(b["epsv_reply"].encode("latin-1") + b"\r\n")
                    else:
                        self._reply(c, 229, "Entering Extended Passive Mode (|||%d|)" % pasv.getsockname()[1])
                elif verb == "PASV":
                    pasv = self._open_pasv(pasv)
                    p = pasv.getsockname()[1]
                    if b.get("pasv_reply"):
                        c.sendall(b["pasv_reply"].encode("latin-1") + b"\r\n")
                    else:
                        self._reply(c, 227, "Entering Passive Mode (%s,%d,%d)" % (self.host.replace(".", ","), p >> 8, p & 255))
                elif verb in ("LIST", "NLST", "RETR"):
                    if verb == "RETR" and "file" not in b:
                        self._reply(c, 550, "not a plain file")
                        continue
                    if pasv is None:
                        self._reply(c, 425, "use PASV first")
                        continue
                    data = b.get("file", b"") if verb == "RETR" else (b.get("nlst", b.get("listing", b"")) if verb == "NLST" else b.get("listing", b""))
                    code = int(b.get("list_code", 150)) if verb == "LIST" else 150
                    if code >= 300:
                        # refused before the transfer: the passive listener (and a data connection the client may already
                        # have opened to it) stays usable for the next attempt (e.g. NLST after LIST)
                        self._reply(c, code, "refused")
                        continue
                    if not self._transfer(c, sess, pasv, data, b):
                        return
                    pasv = None
                elif verb == "QUIT":
                    self._reply(c, 221, "bye")
                    return
                elif verb in ("PORT", "EPRT"):
                    self._reply(c, 500, "active mode not supported")
                else:
                    self._reply(c, 502, "not implemented")
        except (OSError, socket.timeout):
            pass
        except Exception as e:     # harness bug: visible, never fatal
            if not self.stopping:
                self.errors.append("conn %d: %r" % (cid, e))
                sess.error = repr(e)
        finally:
            sess.done = True
            for s in (c, pasv):
                try:
                    if s is not None:
                        s.close()
                except OSError:
                    pass
            with self.lock:
                self.conns.pop(cid, None)

    def _open_pasv(self, old):
        if old is not None:
            try:
                old.close()
            except OSError:
                pass
        s = socket.socket(socket.AF_INET, socket.SOCK_STREAM)
        s.bind((self.host, 0))
        s.listen(1)
        s.settimeout(15)
        return s

    def _transfer(self, c, sess, pasv, data, b):
        """-> False when the control connection must end"""
        self._reply(c, 150, "opening data connection")
        try:
            d, _ = pasv.accept()
        except (OSError, socket.timeout):
            pasv.close()
            self._reply(c, 425, "no data connection")
            return True
        pasv.close()
        sess.data_connected = True
        sess.data_len = len(data)
        abort_after = b.get("data_abort_after")
        if abort_after is not None:
            data = data[:max(0, int(abort_after))]
        segs = list(b.get("data_segments") or [])
        pauses = list(b.get("data_pause_ms") or [])
        pos = 0
        i = 0
        try:
            while pos < len(data):
                n = segs[i] if i < len(segs) else len(data) - pos
                n = max(1, min(n, len(data) - pos))
                d.sendall(data[pos:pos + n])
                pos += n
                sess.data_sent = pos
                if i < len(pauses) and pauses[i]:
                    time.sleep(pauses[i] / 1000.0)
                i += 1
            if abort_after is not None and b.get("data_rst"):
                d.setsockopt(socket.SOL_SOCKET, socket.SO_LINGER, struct.pack("ii", 1, 0))
        except OSError:
            sess.error = "data write failed after %d bytes" % pos
        finally:
            try:
                d.close()
            except OSError:
                pass
        sess.listed = True
        if b.get("close_ctrl_after_list"):
            return False
        if not b.get("no_done"):
            self._reply(c, int(b.get("done_code", 226)), "transfer complete")
        return True
