"""Common environment for e2e checks: one proxy instance + one origin stub + shared clock."""
import itertools
import os
import time

from .. import native
from ..e2e_runner import Result
from . import client, httpref, origin, squidproc


class ProxyEnv:
    def __init__(self, ctx, conf="", **squid_kw):
        native.build_all()
        self.ctx = ctx
        self.clock = origin.Clock()
        self.origin = origin.Origin(self.clock)
        self.conf = conf
        self.squid_kw = squid_kw
        self.squid = None
        self._ns = itertools.count(1)
        self.restarts = 0
        self.start()

    def start(self):
        self.squid = squidproc.Squid("%s-w%d" % (self.ctx.pid, self.ctx.worker), conf=self.conf, clock=self.clock, **self.squid_kw)
        self.squid.start()

    @property
    def port(self):
        return self.squid.ports[0]

    def ns(self):
        """A fresh URL namespace so cache state cannot leak between examples."""
        return "%s-w%d-r%d-%d" % (self.ctx.pid.lower(), self.ctx.worker, self.restarts, next(self._ns))

    def url(self, path):
        return "http://127.0.0.1:%d%s" % (self.origin.port, path)

    def health(self, result):
        """ASan/liveness oracle under every e2e property. Restarts the proxy when it died."""
        probs = self.squid.health_problems()
        for sig, detail in probs:
            result.fail("memory-safety/liveness:" + sig, detail)
        if probs:
            self.restart()
        return not probs

    def restart(self):
        try:
            self.squid.destroy()
        except Exception:
            pass
        self.restarts += 1
        self.start()

    def close(self):
        try:
            if self.squid:
                self.squid.stop()
                self.squid.destroy()
        finally:
            self.origin.stop()


def fetch(env, path, headers=(), method="GET", body=None, timeout=10.0, version="HTTP/1.1", port=None):
    """One request through the proxy on a fresh connection (Connection: close). -> httpref.Message"""
    c = client.Conn(port or env.port, timeout=timeout)
    try:
        lines = ["%s %s %s" % (method, env.url(path), version), "Host: 127.0.0.1:%d" % env.origin.port]
        for k, v in headers:
            lines.append("%s: %s" % (k, v))
        if body is not None and not any(k.lower() in ("content-length", "transfer-encoding") for k, _ in headers):
            lines.append("Content-Length: %d" % len(body))
        lines.append("Connection: close")
        c.send(("\r\n".join(lines) + "\r\n\r\n").encode("latin-1") + (body or b""))
        return c.read_response(method.encode(), timeout=timeout)
    finally:
        c.close()


def usable(m, r):
    """False (and r.inconclusive set) when a response cannot be judged."""
    if m is None or getattr(m, "timed_out", False):
        r.inconclusive = "client timed out"
        return False
    if getattr(m, "bad", False) or m.status is None:
        r.inconclusive = "no parsable response"
        return False
    return True
