"""Harness-owned origin server: per-path scripted behaviour, arrival log, generated write segmentation and aborts."""
import base64
import email.utils
import socket
import struct
import threading
import time

from . import httpref


def http_date(t):
    return email.utils.formatdate(t, usegmt=True)


class Clock:
    """The proxy's (shimmed) time as seen by the harness."""

    def __init__(self):
        self.offset = 0.0

    def now(self):
        return time.time() + self.offset


class Arrival:
    def __init__(self, conn_id, msg, t):
        self.conn_id = conn_id
        self.msg = msg          # httpref.Message (request); body filled in as it arrives
        self.time = t
        self.index = None       # per-path arrival index
        self.body_done = False  # request message completely received
        self.responded = False
        self.raw = b""          # raw bytes of this request as received (head + encoded body)

    @property
    def path(self):
        return self.msg.target


def build_body(beh):
    if "body_b64" in beh:
        return base64.b64decode(beh["body_b64"])
    if "body_tag" in beh:
        return httpref.keyed_stream(beh["body_tag"], int(beh.get("body_len", 0)))
    return b""


def chunk_encode(body, sizes, exts=None, trailers=None):
    out = bytearray()
    pos = 0
    i = 0
    sizes = [s for s in (sizes or []) if s > 0]
    while pos < len(body):
        sz = sizes[i % len(sizes)] if sizes else len(body) - pos
        sz = min(sz, len(body) - pos)
        ext = (exts[i % len(exts)] if exts else "")
        out += ("%x%s\r\n" % (sz, ext)).encode("latin-1")
        out += body[pos:pos + sz] + b"\r\n"
        pos += sz
        i += 1
    out += b"0\r\n"
    for k, v in (trailers or []):
        out += ("%s: %s\r\n" % (k, v)).encode("latin-1")
    out += b"\r\n"
    return bytes(out)


def serialize_response(beh, clock, body=None):
    """-> (head bytes, encoded body bytes)"""
    if body is None:
        body = build_body(beh)
    status = int(beh.get("status", 200))
    version = beh.get("version", "HTTP/1.1")
    reason = beh.get("reason", "OK")
    lines = ["%s %d %s" % (version, status, reason)]
    framing = beh.get("framing", "length")
    hdrs = [list(h) for h in beh.get("headers", [])]
    if beh.get("date", True) and not any(h[0].lower() == "date" for h in hdrs):
        hdrs.insert(0, ["Date", http_date(clock.now() + beh.get("date_skew", 0))])
    if framing == "length":
        hdrs.append(["Content-Length", str(beh.get("declared_length", len(body)))])
        enc = body
    elif framing == "chunked":
        hdrs.append(["Transfer-Encoding", "chunked"])
        enc = chunk_encode(body, beh.get("chunks"), beh.get("chunk_ext"), beh.get("trailers"))
    elif framing == "close":
        enc = body
    else:
        enc = b""
    if beh.get("close") or framing == "close":
        if version != "HTTP/1.0" or beh.get("close"):
            hdrs.append(["Connection", "close"])
    for k, v in hdrs:
        lines.append("%s: %s" % (k, v))
    head = ("\r\n".join(lines) + "\r\n\r\n").encode("latin-1")
    if "raw_head_b64" in beh:
        head = base64.b64decode(beh["raw_head_b64"])
    return head, enc


class Origin:
    def __init__(self, clock=None, host="127.0.0.1", port=0, rcvbuf=None):
        self.clock = clock or Clock()
        self.lsock = socket.socket(socket.AF_INET, socket.SOCK_STREAM)
        self.lsock.setsockopt(socket.SOL_SOCKET, socket.SO_REUSEADDR, 1)
        if rcvbuf:
            # a small receive buffer must be set before the connection exists (it bounds the advertised window),
            # so that a slow-reading stub really pushes back on the sender
            self.lsock.setsockopt(socket.SOL_SOCKET, socket.SO_RCVBUF, int(rcvbuf))
        self.lsock.bind((host, port))
        self.lsock.listen(512)
        self.host = host
        self.port = self.lsock.getsockname()[1]
        self.lock = threading.Lock()
        self.behaviours = {}     # target(bytes) -> behaviour dict or callable(arrival)->behaviour
        self.default_behaviour = {"status": 404, "reason": "Not Found", "body_b64": "", "framing": "length"}
        self.arrivals = []       # all Arrival objects in order
        self.by_path = {}
        self.events = {}         # name -> threading.Event
        self.conn_count = 0
        self.conns = {}
        self.connections_accepted = 0
        self.stopping = False
        self.errors = []
        self.accept_hook = None  # callable(conn_index) -> None | 'close' | 'rst' (connection-level faults)
        self.thread = threading.Thread(target=self._accept_loop, daemon=True)
        self.thread.start()

    # ---- harness API
    def script(self, target, behaviour):
        if isinstance(target, str):
            target = target.encode()
        with self.lock:
            self.behaviours[target] = behaviour

    def event(self, name):
        with self.lock:
            if name not in self.events:
                self.events[name] = threading.Event()
            return self.events[name]

    def arrivals_for(self, target):
        if isinstance(target, str):
            target = target.encode()
        with self.lock:
            return list(self.by_path.get(target, []))

    def arrival_count(self, target):
        return len(self.arrivals_for(target))

    def all_arrivals(self):
        with self.lock:
            return list(self.arrivals)

    def close_conns(self):
        """Release every held response and close every accepted connection (end of a history)."""
        with self.lock:
            conns = list(self.conns.values())
            evs = list(self.events.values())
        for e in evs:
            e.set()
        for c in conns:
            try:
                c.shutdown(socket.SHUT_RDWR)
            except OSError:
                pass
            try:
                c.close()
            except OSError:
                pass

    def stop(self):
        self.stopping = True
        try:
            self.lsock.close()
        except OSError:
            pass
        with self.lock:
            conns = list(self.conns.values())
            evs = list(self.events.values())
        for e in evs:
            e.set()
        for c in conns:
            try:
                c.close()
            except OSError:
                pass

    # ---- server side
    def _accept_loop(self):
        while not self.stopping:
            try:
                c, _ = self.lsock.accept()
            except OSError:
                return
            with self.lock:
                self.conn_count += 1
                cid = self.conn_count
                self.conns[cid] = c
            c.setsockopt(socket.IPPROTO_TCP, socket.TCP_NODELAY, 1)
            threading.Thread(target=self._serve, args=(c, cid), daemon=True).start()

    def _behaviour_for(self, arr):
        with self.lock:
            b = self.behaviours.get(arr.msg.target)
        if b is None:
            return dict(self.default_behaviour)
        if callable(b):
            return b(arr)
        if isinstance(b, list):
            return b[min(arr.index, len(b) - 1)]
        return b

    def _serve(self, c, cid):
        try:
            if self.accept_hook:
                act = self.accept_hook(cid)
                if act == "close":
                    c.close()
                    return
                if act == "rst":
                    c.setsockopt(socket.SOL_SOCKET, socket.SO_LINGER, struct.pack("ii", 1, 0))
                    c.close()
                    return
            self._serve_loop(c, cid)
        except Exception as e:  # harness bug or socket error: keep it visible, never fatal
            if not self.stopping:
                self.errors.append("conn %d: %r" % (cid, e))
        finally:
            try:
                c.close()
            except OSError:
                pass
            with self.lock:
                self.conns.pop(cid, None)

    def _serve_loop(self, c, cid):
        buf = bytearray()
        eof = False
        c.settimeout(60)
        while not self.stopping:
            # ---- read one request head
            while True:
                sh = httpref.split_head(bytes(buf))
                if sh is not None or eof:
                    break
                try:
                    d = c.recv(65536)
                except (socket.timeout, OSError):
                    d = b""
                if not d:
                    eof = True
                else:
                    buf += d
            if sh is None:
                if buf.strip():
                    # bytes that never formed a head: log as a partial arrival for smuggling oracles
                    m = httpref.Message()
                    m.kind = "request"
                    m.raw_head = bytes(buf)
                    m.truncated = True
                    m.target = b"<partial>"
                    a = Arrival(cid, m, self.clock.now())
                    a.raw = bytes(buf)
                    with self.lock:
                        a.index = len(self.by_path.setdefault(m.target, []))
                        self.by_path[m.target].append(a)
                        self.arrivals.append(a)
                return
            head, pos = sh
            try:
                m = httpref.parse_head(head, "request")
                httpref.decide_framing(m)
            except httpref.BadMessage as e:
                m = httpref.Message()
                m.kind = "request"
                m.raw_head = head
                m.target = b"<bad>"
                m.anomalies.append("bad-message: %s" % e)
                m.framing = "none"
            arr = Arrival(cid, m, self.clock.now())
            with self.lock:
                arr.index = len(self.by_path.setdefault(m.target, []))
                self.by_path[m.target].append(arr)
                self.arrivals.append(arr)
            beh = self._behaviour_for(arr)
            # ---- optionally respond before reading the body ("early response")
            early = beh.get("respond_before_body", False)
            if early:
                if not self._respond(c, arr, beh):
                    return
            # ---- read the body
            if beh.get("read_body", True):
                slow = beh.get("slow_read")      # {"bytes": n, "pause_ms": t}: a consumer slower than the producer
                if slow:
                    try:
                        c.setsockopt(socket.SOL_SOCKET, socket.SO_RCVBUF, 4096)
                    except OSError:
                        pass
                    if slow.get("initial_stall_ms"):
                        time.sleep(slow["initial_stall_ms"] / 1000.0)
                while True:
                    try:
                        mm, end = httpref.parse_message(bytes(buf), "request", eof)
                        break
                    except httpref.NeedMore:
                        try:
                            if slow:
                                time.sleep(slow.get("pause_ms", 2) / 1000.0)
                            d = c.recv(int(slow["bytes"]) if slow else 65536)
                        except (socket.timeout, OSError):
                            d = b""
                        if not d:
                            eof = True
                        else:
                            buf += d
                    except httpref.BadMessage as e:
                        arr.msg.anomalies.append("bad-body: %s" % e)
                        mm, end = None, len(buf)
                        break
                if mm is not None:
                    arr.msg.body = mm.body
                    arr.msg.complete = mm.complete
                    arr.msg.truncated = mm.truncated
                    arr.msg.chunk_sizes = mm.chunk_sizes
                    arr.msg.trailers = mm.trailers
                    arr.msg.anomalies = list(set(arr.msg.anomalies + mm.anomalies))
                arr.raw = bytes(buf[:end])
                arr.body_done = True
                del buf[:end]
                if mm is None or mm.truncated:
                    return
            else:
                arr.raw = bytes(buf[:pos])
                del buf[:pos]
            if not early:
                if not self._respond(c, arr, beh):
                    return
            if beh.get("close") or beh.get("framing") == "close" or beh.get("version") == "HTTP/1.0":
                return

    def _respond(self, c, arr, beh):
        """-> False when the connection must end"""
        if beh.get("hold"):
            self.event(beh["hold"]).wait(beh.get("hold_timeout", 20))
        if beh.get("delay_ms"):
            time.sleep(beh["delay_ms"] / 1000.0)
        if beh.get("no_response"):
            if beh.get("no_response") == "rst":
                c.setsockopt(socket.SOL_SOCKET, socket.SO_LINGER, struct.pack("ii", 1, 0))
            return False
        body = None
        if arr.msg.method == b"HEAD":
            body = build_body(beh)
            head, enc = serialize_response(beh, self.clock, body)
            enc = b""
        else:
            head, enc = serialize_response(beh, self.clock)
        data = head + enc
        abort_after = beh.get("abort_after")
        if abort_after is not None:
            data = data[:max(0, int(abort_after))]
        segs = list(beh.get("segments") or [])
        pauses = list(beh.get("pause_ms") or [])
        pos = 0
        i = 0
        try:
            if beh.get("head_hold"):
                # send the head (or part of it), then wait for a harness event before the rest
                k = min(len(data), int(beh.get("head_hold_bytes", len(head))))
                c.sendall(data[:k])
                pos = k
                self.event(beh["head_hold"]).wait(beh.get("hold_timeout", 20))
            while pos < len(data):
                n = segs[i] if i < len(segs) else len(data) - pos
                n = max(1, min(n, len(data) - pos))
                c.sendall(data[pos:pos + n])
                pos += n
                if i < len(pauses) and pauses[i]:
                    time.sleep(pauses[i] / 1000.0)
                i += 1
        except OSError:
            return False
        arr.responded = True
        if abort_after is not None:
            if beh.get("abort_rst"):
                c.setsockopt(socket.SOL_SOCKET, socket.SO_LINGER, struct.pack("ii", 1, 0))
            return False
        return True
