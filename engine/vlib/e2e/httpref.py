"""Strict reference HTTP/1.x message reader used by the harness-owned client and origin stubs.

It is written from RFC 9112, not from Squid: it delimits messages, says whether a message is
*complete* or *truncated* (the distinction C01/C02/C10/C18 are about) and reports framing
anomalies instead of guessing.
"""
import hashlib
import re

TCHAR = set(b"!#$%&'*+-.^_`|~0123456789abcdefghijklmnopqrstuvwxyzABCDEFGHIJKLMNOPQRSTUVWXYZ")


def keyed_stream(tag, n, offset=0):
    """Deterministic pseudo-random body: n bytes starting at offset of the stream named tag.
    Never stored by the harness, exact to compare, and any splice of another stream is detected."""
    if n <= 0:
        return b""
    if isinstance(tag, str):
        tag = tag.encode()
    out = bytearray()
    blk = offset // 64
    skip = offset % 64
    while len(out) < n + skip:
        out += hashlib.blake2b(tag + b"#" + str(blk).encode(), digest_size=64).digest()
        blk += 1
    return bytes(out[skip:skip + n])


class Message:
    def __init__(self):
        self.kind = None            # 'request' | 'response'
        self.start_line = b""
        self.method = None
        self.target = None
        self.version = None
        self.status = None
        self.reason = None
        self.headers = []           # list of (name bytes, value bytes) in order, obs-fold unfolded
        self.raw_head = b""
        self.body = b""             # decoded body bytes received so far
        self.framing = None         # 'none' | 'length' | 'chunked' | 'close'
        self.declared_length = None
        self.complete = False       # the whole message was received according to its framing
        self.truncated = False      # connection ended before the framing was satisfied
        self.anomalies = []         # framing anomalies noticed by the strict reader
        self.trailers = []
        self.consumed = 0           # bytes of the stream this message occupies (when complete)
        self.chunk_sizes = []

    def get_all(self, name):
        n = name.lower().encode() if isinstance(name, str) else name.lower()
        return [v for (k, v) in self.headers if k.lower() == n]

    def get(self, name, default=None):
        vs = self.get_all(name)
        return vs[0] if vs else default

    def has(self, name):
        return bool(self.get_all(name))

    def __repr__(self):
        return "<Message %s %r complete=%s truncated=%s body=%d anomalies=%s>" % (
            self.kind, self.start_line[:60], self.complete, self.truncated, len(self.body), self.anomalies)


class NeedMore(Exception):
    pass


class BadMessage(Exception):
    pass


def split_head(buf, start=0):
    """-> (head bytes incl. terminating blank line, end index) or None if incomplete. Accepts CRLF or bare LF line ends."""
    i = start
    n = len(buf)
    while True:
        j = buf.find(b"\n", i)
        if j < 0:
            return None
        # blank line?
        line = buf[i:j]
        if line in (b"", b"\r") and i != start:
            return buf[start:j + 1], j + 1
        if line in (b"", b"\r") and i == start:
            # leading empty line before start line: skip (robustness), but keep scanning
            start = j + 1
        i = j + 1
        if i >= n:
            return None


def parse_head(head, kind):
    m = Message()
    m.kind = kind
    m.raw_head = head
    lines = re.split(b"\r?\n", head)
    while lines and lines[-1] == b"":
        lines.pop()
    if not lines:
        raise BadMessage("empty head")
    m.start_line = lines[0]
    if kind == "request":
        parts = lines[0].split(b" ")
        if len(parts) != 3:
            raise BadMessage("request line does not have three parts: %r" % lines[0][:80])
        m.method, m.target, m.version = parts
    else:
        mm = re.match(rb"^(HTTP/\d\.\d) (\d{3})(?: (.*))?$", lines[0])
        if not mm:
            raise BadMessage("bad status line: %r" % lines[0][:80])
        m.version, m.status, m.reason = mm.group(1), int(mm.group(2)), mm.group(3) or b""
    cur = None
    for ln in lines[1:]:
        if ln[:1] in (b" ", b"\t") and cur is not None:
            cur[1] = cur[1] + b" " + ln.strip(b" \t")
            m.anomalies.append("obs-fold")
            continue
        if b":" not in ln:
            m.anomalies.append("field-line-without-colon")
            cur = None
            continue
        k, v = ln.split(b":", 1)
        if k != k.rstrip(b" \t"):
            m.anomalies.append("whitespace-before-colon")
        if not k or any(c not in TCHAR for c in k.rstrip(b" \t")):
            m.anomalies.append("bad-field-name")
        cur = [k.rstrip(b" \t"), v.strip(b" \t")]
        m.headers.append(cur)
    m.headers = [(k, v) for k, v in m.headers]
    return m


def decide_framing(m, request_method=None):
    """Sets m.framing / m.declared_length per RFC 9112 section 6.3; records anomalies."""
    te = m.get_all("transfer-encoding")
    cl = m.get_all("content-length")
    if m.kind == "response":
        if request_method == b"HEAD" or m.status // 100 == 1 or m.status in (204, 304):
            m.framing = "none"
            return
        if request_method == b"CONNECT" and 200 <= m.status < 300:
            m.framing = "none"
            return
    if te and cl:
        m.anomalies.append("both-CL-and-TE")
    if len(cl) > 1:
        m.anomalies.append("multiple-CL-fields")
    if te:
        codings = [c.strip().lower() for v in te for c in v.split(b",")]
        if codings and codings[-1] == b"chunked":
            if codings != [b"chunked"]:
                m.anomalies.append("TE-not-exactly-chunked")
            m.framing = "chunked"
            return
        m.anomalies.append("TE-without-final-chunked")
        m.framing = "close" if m.kind == "response" else "none"
        return
    if cl:
        vals = set()
        for v in cl:
            for part in v.split(b","):
                vals.add(part.strip())
        if len(vals) != 1 or not re.match(rb"^\d+$", next(iter(vals))):
            m.anomalies.append("invalid-CL")
            raise BadMessage("invalid Content-Length %r" % cl)
        if any(b"," in v for v in cl):
            m.anomalies.append("CL-list")
        m.framing = "length"
        m.declared_length = int(next(iter(vals)))
        return
    m.framing = "close" if m.kind == "response" else "none"


def read_chunked(buf, pos, m, eof):
    """Decode chunked body from buf[pos:]. Returns end index when complete; raises NeedMore."""
    body = bytearray()
    sizes = []
    n = len(buf)
    while True:
        j = buf.find(b"\n", pos)
        if j < 0:
            m.body = bytes(body)
            m.chunk_sizes = sizes
            raise NeedMore()
        line = buf[pos:j]
        if not line.endswith(b"\r"):
            m.anomalies.append("chunk-size-line-without-CR")
        else:
            line = line[:-1]
        szpart = line.split(b";", 1)[0].strip(b" \t")
        if not re.match(rb"^[0-9A-Fa-f]+$", szpart):
            m.body = bytes(body)
            raise BadMessage("bad chunk size line %r" % line[:60])
        size = int(szpart, 16)
        pos = j + 1
        if size == 0:
            # trailers until blank line
            while True:
                j = buf.find(b"\n", pos)
                if j < 0:
                    m.body = bytes(body)
                    m.chunk_sizes = sizes
                    raise NeedMore()
                tl = buf[pos:j].rstrip(b"\r")
                pos = j + 1
                if tl == b"":
                    m.body = bytes(body)
                    m.chunk_sizes = sizes
                    return pos
                m.trailers.append(tl)
        if n - pos < size + 2:
            body += buf[pos:min(n, pos + size)]
            m.body = bytes(body)
            m.chunk_sizes = sizes
            raise NeedMore()
        body += buf[pos:pos + size]
        sizes.append(size)
        if buf[pos + size:pos + size + 2] != b"\r\n":
            if buf[pos + size:pos + size + 1] == b"\n":
                m.anomalies.append("chunk-data-LF-only")
                pos = pos + size + 1
                continue
            m.body = bytes(body)
            raise BadMessage("chunk data not followed by CRLF")
        pos = pos + size + 2


def parse_message(buf, kind, eof, request_method=None, start=0):
    """Parse one message from buf[start:].

    Returns (Message, end_index) -- message.complete/truncated say what happened -- or raises
    NeedMore when not eof and more bytes are needed, or BadMessage for a malformed head/framing.
    With eof=True an incomplete message is returned with truncated=True (body = what arrived)."""
    sh = split_head(buf, start)
    if sh is None:
        if eof:
            m = Message()
            m.kind = kind
            m.truncated = True
            m.raw_head = buf[start:]
            m.anomalies.append("eof-in-head")
            return m, len(buf)
        raise NeedMore()
    head, pos = sh
    m = parse_head(head, kind)
    decide_framing(m, request_method)
    if m.framing == "none":
        m.complete = True
        m.consumed = pos - start
        return m, pos
    if m.framing == "length":
        avail = len(buf) - pos
        if avail >= m.declared_length:
            m.body = bytes(buf[pos:pos + m.declared_length])
            m.complete = True
            m.consumed = pos + m.declared_length - start
            return m, pos + m.declared_length
        m.body = bytes(buf[pos:])
        if eof:
            m.truncated = True
            return m, len(buf)
        raise NeedMore()
    if m.framing == "chunked":
        try:
            end = read_chunked(buf, pos, m, eof)
        except NeedMore:
            if eof:
                m.truncated = True
                return m, len(buf)
            raise
        m.complete = True
        m.consumed = end - start
        return m, end
    # close-delimited
    m.body = bytes(buf[pos:])
    if eof:
        m.complete = True   # for everybody a closed connection ends a close-delimited message
        m.consumed = len(buf) - start
        return m, len(buf)
    raise NeedMore()


def parse_stream(buf, kind, eof, methods=None):
    """Parse as many messages as possible. methods: list of request methods for responses (in order).
    -> (messages, rest_index, error or None)"""
    msgs = []
    pos = 0
    idx = 0
    err = None
    while pos < len(buf):
        rm = methods[idx] if (methods and idx < len(methods)) else None
        try:
            m, end = parse_message(buf, kind, eof, rm, pos)
        except NeedMore:
            break
        except BadMessage as e:
            err = str(e)
            break
        if m.kind == "response" and m.status is not None and m.status // 100 == 1 and m.status != 101:
            m.interim = True
        else:
            m.interim = False
            idx += 1
        msgs.append(m)
        pos = end
        if m.truncated:
            break
    return msgs, pos, err
