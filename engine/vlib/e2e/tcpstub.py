"""Raw TCP peers owned by the harness: a scripted full-duplex endpoint (Peer) and a listening target stub (TcpStub).

Used for CONNECT tunnels (C06): the target of the tunnel is a TcpStub session, the client end of the tunnel is a Peer
wrapped around the client socket once the proxy's 200 has been read.  Both ends run the same kind of script, so the
close orderings (who sends what, who closes first, FIN / close / RST) are generated symmetrically.

Script (dict, all keys optional):
  data               bytes to send
  segments           write sizes (rest in one write), pause_ms: sleeps after the i-th write
  start_delay_ms     do nothing (neither read nor write) for this long after the peer starts ("late" target)
  send_after_received  start sending only once this many bytes were received (or wait_timeout passed)
  wait_timeout       seconds for the two waits above/below (default 0.3 for send_after_received, `deadline` for the rest)
  send_limit         send only data[:send_limit] (a sender that stops early)
  close_when         'sent'               act as soon as the data has been written
                     'sent-and-received'  ... and expect_len bytes have been received (or the peer's EOF was seen)
                     'peer-eof'           ... and the peer's EOF/reset was seen
                     'never'              leave the socket open until Peer.finish()
  close_how          'fin' (shutdown(SHUT_WR), keep reading until EOF, then close) | 'close' | 'rst'
  expect_len         see close_when
  deadline           overall seconds budget for this peer (default 20); waits that run out set .timed_out
Results: .received (bytearray), .eof (orderly EOF seen), .reset (connection error seen), .sent (bytes written),
.send_failed, .timed_out, .closed_at / .eof_at (time.time() stamps, informational).
"""
import socket
import struct
import threading
import time


class Peer:
    def __init__(self, sock, script, prefill=b""):
        self.s = sock
        self.script = dict(script or {})
        self.received = bytearray(prefill)
        self.eof = False
        self.reset = False
        self.sent = 0
        self.send_failed = False
        self.timed_out = False
        self.closed = False
        self.closed_at = None
        self.eof_at = None
        self.cv = threading.Condition()
        self.deadline = time.time() + float(self.script.get("deadline", 20.0))
        self._stop = False
        self.rt = threading.Thread(target=self._reader, daemon=True)
        self.wt = threading.Thread(target=self._writer, daemon=True)

    def start(self):
        delay = self.script.get("start_delay_ms", 0)
        if delay:
            threading.Timer(delay / 1000.0, self._start_threads).start()
        else:
            self._start_threads()
        return self

    def _start_threads(self):
        self.rt.start()
        self.wt.start()

    # ---- reader
    def _reader(self):
        s = self.s
        while not self._stop and not self.closed:
            left = self.deadline - time.time()
            if left <= 0:
                break
            try:
                s.settimeout(min(left, 0.05))   # short polls: a close() from the writer thread does not wake a blocked recv()
                d = s.recv(262144)
            except socket.timeout:
                continue
            except OSError:
                with self.cv:
                    if not self.closed:
                        self.reset = True
                        self.eof_at = time.time()
                    self.cv.notify_all()
                return
            with self.cv:
                if not d:
                    self.eof = True
                    self.eof_at = time.time()
                    self.cv.notify_all()
                    return
                self.received += d
                self.cv.notify_all()

    def _wait(self, pred, timeout):
        end = min(self.deadline, time.time() + timeout)
        with self.cv:
            while not pred():
                left = end - time.time()
                if left <= 0:
                    return False
                self.cv.wait(min(left, 0.5))
            return True

    # ---- writer
    def _writer(self):
        sc = self.script
        data = sc.get("data", b"")
        if sc.get("send_limit") is not None:
            data = data[:max(0, int(sc["send_limit"]))]
        k = sc.get("send_after_received", 0)
        if k:
            self._wait(lambda: len(self.received) >= k or self.eof or self.reset, float(sc.get("wait_timeout", 0.3)))
        segs = list(sc.get("segments") or [])
        pauses = list(sc.get("pause_ms") or [])
        pos = 0
        i = 0
        try:
            while pos < len(data) and not self._stop:
                n = segs[i] if i < len(segs) else len(data) - pos
                n = max(1, min(n, len(data) - pos))
                chunk = memoryview(data)[pos:pos + n]
                while len(chunk):
                    left = self.deadline - time.time()
                    if left <= 0:
                        raise socket.timeout()
                    try:
                        w = self.s.send(chunk)
                    except BlockingIOError:
                        w = 0
                    except socket.timeout:
                        w = 0
                    chunk = chunk[w:]
                    pos += w
                    self.sent = pos
                if i < len(pauses) and pauses[i]:
                    time.sleep(pauses[i] / 1000.0)
                i += 1
        except socket.timeout:
            self.timed_out = True
            return
        except OSError:
            self.send_failed = True
        when = sc.get("close_when", "peer-eof")
        how = sc.get("close_how", "close")
        big = float(sc.get("deadline", 20.0))
        if when == "never":
            return
        if when == "sent-and-received":
            n = int(sc.get("expect_len", 0))
            if not self._wait(lambda: len(self.received) >= n or self.eof or self.reset, big):
                self.timed_out = True
        elif when == "peer-eof":
            if not self._wait(lambda: self.eof or self.reset, big):
                self.timed_out = True
        self._close(how)

    def _close(self, how):
        try:
            if how == "rst":
                self.s.setsockopt(socket.SOL_SOCKET, socket.SO_LINGER, struct.pack("ii", 1, 0))
                with self.cv:
                    self.closed = True
                    self.closed_at = time.time()
                self.s.close()
            elif how == "fin":
                self.closed_at = time.time()
                self.s.shutdown(socket.SHUT_WR)
                if not self._wait(lambda: self.eof or self.reset, float(self.script.get("deadline", 20.0))):
                    self.timed_out = True
                with self.cv:
                    self.closed = True
                self.s.close()
            else:
                with self.cv:
                    self.closed = True
                    self.closed_at = time.time()
                self.s.close()
        except OSError:
            pass

    def finish(self, timeout=None):
        """Wait for the script to end (bounded by the peer's deadline), then release the socket. -> True when both threads ended."""
        end = self.deadline + 1.0 if timeout is None else time.time() + timeout
        done = False
        while time.time() < end:
            if self.wt.ident and self.rt.ident and not self.wt.is_alive() and not self.rt.is_alive():
                done = True
                break
            time.sleep(0.002)
        self._stop = True
        with self.cv:
            self.closed = True
            self.cv.notify_all()
        try:
            self.s.close()
        except OSError:
            pass
        return done


class TcpStub:
    """Listening raw TCP target.  expect(script) registers the script for the next accepted connection."""

    def __init__(self, host="127.0.0.1", port=0):
        self.lsock = socket.socket(socket.AF_INET, socket.SOCK_STREAM)
        self.lsock.setsockopt(socket.SOL_SOCKET, socket.SO_REUSEADDR, 1)
        self.lsock.bind((host, port))
        self.lsock.listen(128)
        self.host = host
        self.port = self.lsock.getsockname()[1]
        self.lock = threading.Lock()
        self.pending = []       # [(script, holder)]
        self.stopping = False
        self.unexpected = 0
        self.thread = threading.Thread(target=self._accept_loop, daemon=True)
        self.thread.start()

    class Holder:
        def __init__(self):
            self.peer = None
            self.accepted = threading.Event()
            self.accepted_at = None

        def wait_accepted(self, timeout):
            return self.accepted.wait(timeout)

    def expect(self, script):
        h = TcpStub.Holder()
        with self.lock:
            self.pending.append((script, h))
        return h

    def cancel(self, holder):
        with self.lock:
            self.pending = [(s, h) for (s, h) in self.pending if h is not holder]

    def _accept_loop(self):
        while not self.stopping:
            try:
                c, _ = self.lsock.accept()
            except OSError:
                return
            c.setsockopt(socket.IPPROTO_TCP, socket.TCP_NODELAY, 1)
            with self.lock:
                item = self.pending.pop(0) if self.pending else None
            if item is None:
                self.unexpected += 1
                try:
                    c.close()
                except OSError:
                    pass
                continue
            script, h = item
            h.peer = Peer(c, script)
            h.accepted_at = time.time()
            h.peer.start()
            h.accepted.set()

    def stop(self):
        self.stopping = True
        try:
            self.lsock.close()
        except OSError:
            pass
