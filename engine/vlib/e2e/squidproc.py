"""Start/stop/inspect a real Squid instance (the sanitizer build) with a generated squid.conf."""
import glob
import os
import re
import shutil
import signal
import socket
import struct
import subprocess
import time

from ..common import MIRROR, OBJ, ROOT, RUN, log
from .. import native

_counter = [0]


def free_port(host="127.0.0.1", udp=False):
    s = socket.socket(socket.AF_INET, socket.SOCK_DGRAM if udp else socket.SOCK_STREAM)
    s.bind((host, 0))
    p = s.getsockname()[1]
    s.close()
    return p


BASE_CONF = """\
cache_effective_user nobody
pid_filename {run}/squid.pid
cache_log {run}/cache.log
coredump_dir {run}
mime_table {mirror}/src/mime.conf.default
icon_directory {mirror}/icons
error_directory {mirror}/errors/templates
err_page_stylesheet {mirror}/errors/errorpage.css
unlinkd_program {obj}/src/unlinkd
diskd_program {obj}/src/DiskIO/DiskDaemon/diskd
logfile_daemon {obj}/src/log/file/log_file_daemon
pinger_enable off
visible_hostname verifproxy
hosts_file {run}/hosts
dns_nameservers {dns}
dns_timeout 2 seconds
shutdown_lifetime 0 seconds
logformat verif %ts.%03tu %6tr %>a %Ss/%03>Hs %<st %rm %ru %[un %Sh/%<a %mt
access_log stdio:{run}/access.log verif
netdb_filename none
"""


class Squid:
    def __init__(self, name, conf="", workers=0, ports=1, cache_mem="16 MB", cache_dirs=(), clock=None,
                 extra_env=None, access="http_access allow all", debug="ALL,1", hosts=None, port_opts="", dns="127.0.0.1"):
        self.dns = dns
        _counter[0] += 1
        self.name = name
        self.run = os.path.join(RUN, "%s-%d-%d" % (name, os.getpid(), _counter[0]))
        self.conf_extra = conf
        self.workers = workers
        self.nports = ports
        self.cache_mem = cache_mem
        self.cache_dirs = list(cache_dirs)
        self.clock = clock
        self.extra_env = extra_env or {}
        self.access = access
        self.debug = debug
        self.hosts = hosts or {}
        self.port_opts = port_opts
        self.ports = []
        self.proc = None
        self.service = "v%d%s" % (os.getpid() % 100000, format(_counter[0], "x"))
        self.binary = os.path.join(OBJ, "src", "squid")
        self.starts = 0
        self.clock_file = None
        self._clock_map = None

    # ------------------------------------------------------------------ files
    def prepare(self):
        if os.path.exists(self.run):
            shutil.rmtree(self.run, ignore_errors=True)
        os.makedirs(self.run)
        os.chmod(self.run, 0o777)
        for d in (RUN, os.path.dirname(RUN)):
            try:
                os.chmod(d, 0o755)
            except OSError:
                pass
        if self.workers:
            # SMP kids bind their UDS sockets in the compile-time IPC directory after dropping privileges to nobody
            ipc = os.path.join(ROOT, "var", "run", "squid")
            try:
                os.makedirs(ipc, exist_ok=True)
                if (os.stat(ipc).st_mode & 0o7777) != 0o1777:
                    os.chmod(ipc, 0o1777)
            except OSError:
                pass
        if not self.ports:
            self.ports = [free_port() for _ in range(max(1, self.nports))]
        with open(os.path.join(self.run, "hosts"), "w") as f:
            f.write("127.0.0.1 localhost\n")
            for n, a in self.hosts.items():
                f.write("%s %s\n" % (a, n))
        self.clock_file = os.path.join(self.run, "clock")
        with open(self.clock_file, "wb") as f:
            f.write(struct.pack("q", int(self.clock.offset) if self.clock else 0) + b"\0" * 4088)
        os.chmod(self.clock_file, 0o666)
        self.write_conf()

    def write_conf(self):
        c = BASE_CONF.format(run=self.run, mirror=MIRROR, obj=OBJ, dns=self.dns)
        lines = [c]
        if self.workers:
            lines.append("workers %d" % self.workers)
            if self.nports >= self.workers and self.nports > 1:
                for i in range(self.workers):
                    lines.append("if ${process_number} = %d\nhttp_port 127.0.0.1:%d %s\nendif" % (i + 1, self.ports[i], self.port_opts))
            else:
                lines.append("http_port 127.0.0.1:%d %s" % (self.ports[0], self.port_opts))
        else:
            for p in self.ports:
                lines.append("http_port 127.0.0.1:%d %s" % (p, self.port_opts))
        lines.append("cache_mem %s" % self.cache_mem)
        for d in self.cache_dirs:
            lines.append("cache_dir " + d.format(run=self.run))
        lines.append("debug_options %s" % self.debug)
        lines.append(self.conf_extra.format(run=self.run, obj=OBJ, mirror=MIRROR, relay=native.RELAY) if self.conf_extra else "")
        lines.append(self.access)
        self.conf_path = os.path.join(self.run, "squid.conf")
        with open(self.conf_path, "w") as f:
            f.write("\n".join(lines) + "\n")

    # ------------------------------------------------------------------ process
    def env(self):
        e = dict(os.environ)
        e["ASAN_OPTIONS"] = "detect_leaks=0:log_path=%s/asan:exitcode=88:handle_abort=0:allocator_may_return_null=1" % self.run
        e["UBSAN_OPTIONS"] = "halt_on_error=0:log_path=%s/ubsan:print_stacktrace=1" % self.run
        e["LD_PRELOAD"] = native.SHIM
        e["VERIF_CLOCK_FILE"] = self.clock_file
        e.update(self.extra_env)
        return e

    def create_dirs(self):
        if not self.cache_dirs:
            return
        r = subprocess.run([self.binary, "-f", self.conf_path, "-n", self.service, "-N", "-z"], env=self.env(),
                           stdout=subprocess.PIPE, stderr=subprocess.STDOUT, cwd=self.run, timeout=120)
        if r.returncode != 0:
            raise RuntimeError("squid -z failed: %s\n%s" % (r.stdout.decode(errors="replace")[-2000:], self.cache_log_tail()))

    def start(self, wait=True, fresh=True, timeout=180):
        if fresh and self.starts == 0:
            self.prepare()
            self.create_dirs()
        self.starts += 1
        try:  # cache.log is appended to across restarts: wait_rebuilt() only looks at what this start logged
            self._log_mark = os.path.getsize(os.path.join(self.run, "cache.log"))
        except OSError:
            self._log_mark = 0
        args = [self.binary, "-f", self.conf_path, "-n", self.service]
        args += ["--foreground"] if self.workers else ["-N"]
        self.stdout = open(os.path.join(self.run, "stdout.%d" % self.starts), "wb")
        self.proc = subprocess.Popen(args, env=self.env(), stdout=self.stdout, stderr=subprocess.STDOUT,
                                     cwd=self.run, start_new_session=True)
        if wait:
            self.wait_ready(timeout)
        return self

    def wait_ready(self, timeout=180):
        deadline = time.time() + timeout
        pending = list(self.ports if (self.workers and self.nports >= self.workers) or not self.workers else self.ports[:1])
        while pending and time.time() < deadline:
            if self.proc.poll() is not None:
                raise RuntimeError("squid exited during startup rc=%s\n%s" % (self.proc.returncode, self.cache_log_tail()))
            p = pending[0]
            try:
                s = socket.create_connection(("127.0.0.1", p), timeout=0.5)
                s.close()
                pending.pop(0)
            except OSError:
                time.sleep(0.02)
        if pending:
            raise RuntimeError("squid did not open port(s) %s in %ds\n%s" % (pending, timeout, self.cache_log_tail()))

    def wait_rebuilt(self, timeout=60):
        """Wait until every cache_dir finished rebuilding (cache.log says so)."""
        if not self.cache_dirs:
            return True
        deadline = time.time() + timeout
        need = len(self.cache_dirs)
        while time.time() < deadline:
            txt = self.cache_log_since_start()
            n = len(re.findall(r"Finished rebuilding storage from disk|Done reading .* swaplog|Indexing cache entries: .*done", txt))
            if "Finished rebuilding storage from disk" in txt or n >= need:
                return True
            if self.proc.poll() is not None:
                return False
            time.sleep(0.05)
        return False

    def alive(self):
        return self.proc is not None and self.proc.poll() is None

    def set_clock(self, offset_seconds):
        if self.clock:
            self.clock.offset = float(offset_seconds)
        with open(self.clock_file, "r+b") as f:
            f.write(struct.pack("q", int(offset_seconds)))

    def stop(self, timeout=20):
        """Clean shutdown (SIGTERM). -> exit code or None when it had to be killed."""
        if not self.proc:
            return None
        rc = self.proc.poll()
        if rc is None:
            try:
                self.proc.send_signal(signal.SIGTERM)
            except OSError:
                pass
            try:
                rc = self.proc.wait(timeout)
            except subprocess.TimeoutExpired:
                rc = None
                self.kill()
        self._reap_group()
        try:
            self.stdout.close()
        except Exception:
            pass
        return rc

    def kill(self):
        if self.proc:
            try:
                os.killpg(self.proc.pid, signal.SIGKILL)
            except OSError:
                pass
            try:
                self.proc.wait(10)
            except Exception:
                pass
        self.clean_shm()

    def _reap_group(self):
        if self.proc:
            try:
                os.killpg(self.proc.pid, signal.SIGKILL)
            except OSError:
                pass
        self.clean_shm()

    def clean_shm(self):
        for p in glob.glob("/dev/shm/%s-*" % self.service):
            try:
                os.unlink(p)
            except OSError:
                pass

    def destroy(self):
        self.kill()
        shutil.rmtree(self.run, ignore_errors=True)

    # ------------------------------------------------------------------ inspection
    def cache_log(self):
        try:
            with open(os.path.join(self.run, "cache.log"), errors="replace") as f:
                return f.read()
        except OSError:
            return ""

    def cache_log_since_start(self):
        """cache.log text written since the latest start() (the file is appended to across restarts)."""
        try:
            with open(os.path.join(self.run, "cache.log"), "rb") as f:
                f.seek(getattr(self, "_log_mark", 0))
                return f.read().decode("utf-8", "replace")
        except OSError:
            return ""

    def cache_log_tail(self, n=3000):
        return self.cache_log()[-n:]

    def access_log(self):
        try:
            with open(os.path.join(self.run, "access.log"), errors="replace") as f:
                return f.read()
        except OSError:
            return ""

    def sanitizer_reports(self):
        """-> (asan reports, ubsan reports) as lists of text"""
        asan, ubsan = [], []
        for p in glob.glob(os.path.join(self.run, "asan.*")):
            with open(p, errors="replace") as f:
                asan.append(f.read())
        for p in glob.glob(os.path.join(self.run, "ubsan.*")):
            with open(p, errors="replace") as f:
                ubsan.append(f.read())
        return asan, ubsan

    def health_problems(self, expect_alive=True):
        """The memory-safety/liveness oracle that runs under every e2e check.
        -> list of (signature, detail)"""
        from ..unit import crash_signature
        probs = []
        asan, _ub = self.sanitizer_reports()
        for rep in asan:
            probs.append((crash_signature(rep), rep[:3000]))
        logtxt = self.cache_log()
        m = re.search(r"assertion failed: ([^\n]*)", logtxt)
        if m:
            mm = re.match(r"([^:]+):\d+: *(.*)", m.group(1))
            where = (os.path.basename(mm.group(1)) + ":" + mm.group(2)) if mm else m.group(1)
            probs.append(("assert:" + where[:80].replace(" ", "_"), m.group(0)))
        m = re.search(r"FATAL: (?!Received Segment Violation)([^\n]*)", logtxt)
        # "kidN registration timed out" is Squid's own start-up watchdog firing on a CPU-starved machine: environment, not a verdict
        if m and "dying" not in m.group(1) and "registration timed out" not in m.group(1) and not m.group(1).startswith("assertion failed"):
            probs.append(("fatal:" + m.group(1)[:60].replace(" ", "_"), m.group(0)))
        if "Segment Violation" in logtxt or "Bus Error" in logtxt:
            probs.append(("crash:segv", "segment violation in cache.log"))
        if expect_alive and not self.alive() and not probs:
            probs.append(("crash:exited", "squid exited rc=%s\n%s" % (self.proc.returncode if self.proc else None, self.cache_log_tail(800))))
        return probs
