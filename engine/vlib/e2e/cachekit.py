"""Small helpers shared by the caching checks (C10, C13, C14, C15, C20): request on an arbitrary absolute URL,
raw field lines (repeated names, latin-1 bytes), judging helpers.  New file; nothing else depends on it."""
from . import client, httpref

DEADLINE = 25.0     # generous client deadline: the machine is shared; a missed deadline is inconclusive, never a violation


def fetch_url(env, url, headers=(), method="GET", body=None, timeout=DEADLINE, version="HTTP/1.1", host=None, port=None):
    """One request through the proxy on a fresh connection (Connection: close). headers: list of (name, value) str pairs
    sent as given, in order (repeats allowed, latin-1). -> httpref.Message"""
    c = client.Conn(port or env.port, timeout=timeout)
    try:
        if host is None:
            host = url.split("://", 1)[1].split("/", 1)[0]
        lines = ["%s %s %s" % (method, url, version), "Host: %s" % host]
        for k, v in headers:
            lines.append("%s: %s" % (k, v))
        if body is not None and not any(k.lower() in ("content-length", "transfer-encoding") for k, _ in headers):
            lines.append("Content-Length: %d" % len(body))
        lines.append("Connection: close")
        c.send(("\r\n".join(lines) + "\r\n\r\n").encode("latin-1") + (body or b""))
        return c.read_response(method.encode(), timeout=timeout)
    finally:
        c.close()


def usable(m, r):
    """False (and r.inconclusive set) when a response cannot be judged."""
    if m is None or getattr(m, "timed_out", False):
        r.inconclusive = "client timed out"
        return False
    if getattr(m, "bad", False) or m.status is None:
        r.inconclusive = "no parsable response"
        return False
    return True


def squid_generated(m):
    """The response is an error page made by the proxy itself (not an origin message)."""
    return m.has("x-squid-error")


def hdr(m, name):
    v = m.get(name)
    return None if v is None else v.decode("latin-1")
