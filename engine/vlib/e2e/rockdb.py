"""Struct-aware reader/writer of a rock cache_dir db file (src/fs/rock/RockDbCell.h, RockSwapDir.h).

Layout: 16 KB db header, then slots of slot-size bytes; every slot starts with
    uint64 key[2]; uint64 entrySize; uint32 payloadSize; uint32 version; int32 firstSlot; int32 nextSlot;
(40 bytes, host byte order) followed by payloadSize payload bytes.
Used by C57 (image mutation) and by C17/C16 to classify what a db contains.
"""
import hashlib
import struct

DB_HEADER = 16 * 1024
CELL = struct.Struct("<16sQIIii")
CELL_SIZE = CELL.size  # 40
METHOD_GET = 1


def store_key(url, method_id=METHOD_GET):
    """Squid's public store key of a request without Vary: MD5(method id byte + URL)."""
    if isinstance(url, str):
        url = url.encode()
    return hashlib.md5(bytes([method_id]) + url).digest()


class Slot:
    __slots__ = ("key", "entry_size", "payload_size", "version", "first", "next", "payload")

    def __init__(self, raw, slot_size):
        self.key, self.entry_size, self.payload_size, self.version, self.first, self.next = CELL.unpack_from(raw, 0)
        self.payload = raw[CELL_SIZE:slot_size]

    def empty(self):
        return not self.first and not self.next and not self.payload_size

    def header(self):
        return CELL.pack(self.key, self.entry_size & 0xFFFFFFFFFFFFFFFF, self.payload_size & 0xFFFFFFFF, self.version & 0xFFFFFFFF,
                         _i32(self.first), _i32(self.next))

    def fields(self):
        return {"key": self.key.hex(), "entrySize": self.entry_size, "payloadSize": self.payload_size, "version": self.version,
                "firstSlot": self.first, "nextSlot": self.next}


def _i32(v):
    v &= 0xFFFFFFFF
    return v - (1 << 32) if v & 0x80000000 else v


class RockDb:
    def __init__(self, path, slot_size=4096):
        self.path = path
        self.slot_size = slot_size
        with open(path, "rb") as f:
            self.data = bytearray(f.read())
        self.nslots = max(0, (len(self.data) - DB_HEADER) // slot_size)

    def offset(self, i):
        return DB_HEADER + i * self.slot_size

    def raw(self, i):
        o = self.offset(i)
        return bytes(self.data[o:o + self.slot_size])

    def slot(self, i):
        return Slot(self.raw(i).ljust(self.slot_size, b"\0"), self.slot_size)

    def used(self):
        """-> [(index, Slot)] of the non-empty slots"""
        out = []
        z = b"\0" * CELL_SIZE
        for i in range(self.nslots):
            o = self.offset(i)
            if self.data[o:o + CELL_SIZE] == z:
                continue
            s = self.slot(i)
            if not s.empty():
                out.append((i, s))
        return out

    def by_key(self):
        g = {}
        for i, s in self.used():
            g.setdefault(s.key, []).append((i, s))
        return g

    def set_header(self, i, **kw):
        s = self.slot(i)
        for k, v in kw.items():
            setattr(s, k, v)
        o = self.offset(i)
        self.data[o:o + CELL_SIZE] = s.header()

    def set_raw(self, i, raw):
        o = self.offset(i)
        self.data[o:o + self.slot_size] = raw.ljust(self.slot_size, b"\0")[:self.slot_size]

    def save(self, path=None):
        with open(path or self.path, "r+b" if path is None else "wb") as f:
            f.write(self.data)
            f.truncate(len(self.data))


def chains_of(db, url):
    """What the db holds under url's store key.
    -> {"slots": [all slot indices with that key], "complete": [[slot indices] per complete chain], "extra": [slots outside
        the first complete chain]}
    A chain is complete when it starts at an inode (firstSlot == own index), every member names that inode and the key,
    it ends with nextSlot -1 without a cycle and the payload sizes add up to the (single) non-zero entrySize recorded in it."""
    g = db.by_key().get(store_key(url), [])
    d = dict(g)
    complete = []
    for i, s in g:
        if s.first != i:
            continue
        seen = []
        cur = i
        ok = True
        while cur != -1:
            if cur not in d or cur in seen or d[cur].first != i:
                ok = False
                break
            seen.append(cur)
            cur = d[cur].next
        if not ok:
            continue
        sizes = set(d[k].entry_size for k in seen if d[k].entry_size)
        if len(sizes) == 1 and sum(d[k].payload_size for k in seen) == list(sizes)[0]:
            complete.append(seen)
    idx = [i for i, _ in g]
    extra = [i for i in idx if not complete or i not in complete[0]]
    return {"slots": idx, "complete": complete, "extra": extra}
