"""Helpers for the disk-cache checks (C16, C17, C19, C57): per-scenario Squid instances with a cache_dir,
versioned origin content, only-if-cached probes, store.log reading.

Every scenario of those checks needs its own proxy instance (it is restarted, crashed or its db file is
rewritten), so the environment only owns the origin stub, the shared clock and a cache of freshly
created (``squid -z``) cache_dir templates that are copied instead of running ``squid -z`` again.
"""
import fcntl
import itertools
import os
import re
import shutil
import subprocess
import time

from .. import native
from ..common import BUILD, RUN, sha
from . import client, httpref, origin, squidproc

# cache_dir lines; {run} is the instance directory
STORE_DIRS = {
    "rock": "rock {run}/rock 8 slot-size=4096 max-size=1048576",
    "ufs": "ufs {run}/ufs 64 4 4",
    "aufs": "aufs {run}/aufs 64 4 4",
    "diskd": "diskd {run}/diskd 64 4 4",
}

BASE_DISK_CONF = """\
maximum_object_size 4 MB
acl purge method PURGE
http_access allow purge
cache_store_log stdio:{run}/store.log
"""

MAX_AGE = 10000000


class DiskEnv:
    """Origin stub + clock + cache_dir templates.  Squid instances are made per scenario by new_squid()."""

    def __init__(self, ctx):
        native.build_all()
        self.ctx = ctx
        self.clock = origin.Clock()
        self.origin = origin.Origin(self.clock)
        self._ns = itertools.count(1)
        self.tmpl_root = os.path.join(RUN, "%s-tmpl-%d" % (ctx.pid, os.getpid()))
        self.templates = {}
        self.live = []

    def ns(self):
        return "%s-w%d-%d" % (self.ctx.pid.lower(), self.ctx.worker, next(self._ns))

    def duplicate_minimal_example(self):
        """Hypothesis starts every worker with the same minimal example; with seconds per scenario that is worth
        skipping on all workers but the first.  True exactly for the first execute() call of workers > 0
        (committed replays and --replay run on worker 0 only)."""
        first = not getattr(self, "_called", False)
        self._called = True
        return first and self.ctx.worker > 0

    def url(self, path):
        return "http://127.0.0.1:%d%s" % (self.origin.port, path)

    # ---- instances
    def new_squid(self, cache_dir, conf="", cache_mem="0", workers=0, ports=1, extra_env=None, debug="ALL,1", started=True, timeout=90,
                  create=True):
        """A prepared instance whose cache_dir exists (copied from a template made by `squid -z` once).
        Returned started (waits for the listening ports) unless started=False.
        create=False: the caller provides the cache directory itself (sq.cache_sub) before starting."""
        self.clock.offset = 0.0
        sq = squidproc.Squid("%s-w%d" % (self.ctx.pid, self.ctx.worker), conf=BASE_DISK_CONF + conf, cache_mem=cache_mem,
                             cache_dirs=[cache_dir], clock=self.clock, workers=workers, ports=ports, debug=debug)
        self.live.append(sq)
        sq.prepare()
        sub = cache_dir.split()[1].format(run="").lstrip("/")      # directory name below {run}
        if create:
            tmpl = self._template(sq, cache_dir, sub)
            if tmpl is not None:
                subprocess.run(["cp", "-a", "--sparse=always", tmpl, os.path.join(sq.run, sub)], check=True)
        sq.cache_sub = os.path.join(sq.run, sub)
        if extra_env:
            sq.extra_env = dict(extra_env)   # only for the serving process, never for squid -z
        if started:
            sq.start(fresh=False, timeout=timeout)
        return sq

    def _template(self, sq, cache_dir, sub):
        """A freshly created (`squid -z`) cache directory for this cache_dir line, shared by all workers and runs that use
        the same squid binary (kept under BUILD/tmpl-cache, made once under a file lock).  -> template path, or None when
        this call has just created the directory inside sq.run itself."""
        tmpl = self.templates.get(cache_dir)
        if tmpl is not None and os.path.isdir(tmpl):
            return tmpl
        try:
            st = os.stat(sq.binary)
            stamp = "%d-%d" % (st.st_mtime_ns, st.st_size)
        except OSError:
            stamp = "nobin"
        root = os.path.join(BUILD, "tmpl-cache")
        os.makedirs(root, exist_ok=True)
        name = "%s-%s" % (sha(cache_dir + "|" + stamp), sub.replace("/", "_"))
        tmpl = os.path.join(root, name)
        with open(os.path.join(root, "lock"), "a") as lk:
            fcntl.flock(lk, fcntl.LOCK_EX)
            if not os.path.isdir(tmpl):
                sq.create_dirs()
                tmp = tmpl + ".tmp%d" % os.getpid()
                subprocess.run(["rm", "-rf", tmp])
                subprocess.run(["cp", "-a", "--sparse=always", os.path.join(sq.run, sub), tmp], check=True)
                os.rename(tmp, tmpl)
                with open(tmpl + ".stamp", "w") as f:
                    f.write(stamp)
                # templates of older binaries are of no use any more
                for other in os.listdir(root):
                    if other.endswith(".stamp") and other != name + ".stamp":
                        try:
                            with open(os.path.join(root, other)) as f:
                                if f.read() != stamp:
                                    subprocess.run(["rm", "-rf", os.path.join(root, other[:-6]), os.path.join(root, other)])
                        except OSError:
                            pass
                self.templates[cache_dir] = tmpl
                return None
        self.templates[cache_dir] = tmpl
        return tmpl

    def discard(self, sq):
        try:
            sq.destroy()
        except Exception:
            pass
        if sq in self.live:
            self.live.remove(sq)

    def close(self):
        for sq in list(self.live):
            self.discard(sq)
        shutil.rmtree(self.tmpl_root, ignore_errors=True)
        self.origin.stop()


# ---------------------------------------------------------------------- requests
def get(env, port, path, headers=(), method="GET", timeout=20.0, url=None):
    try:
        return client.simple_get(port, url or env.url(path), headers=list(headers), method=method, timeout=timeout)
    except OSError:
        return None


def oic(env, port, path, timeout=20.0, url=None):
    """only-if-cached probe: 200 = hit, 504 = miss.  -> Message or None"""
    return get(env, port, path, [("Cache-Control", "only-if-cached")], timeout=timeout, url=url)


def judged(m):
    """A response the oracle may look at: fully received, parsable."""
    return m is not None and not getattr(m, "timed_out", False) and not getattr(m, "bad", False) and m.status is not None


# ---------------------------------------------------------------------- versioned content
class Content:
    """Origin content of one scenario: every arrival for a path gets a new version (distinct keyed body, the
    size announced last by set_next()).  Versions are numbered by arrival index."""

    def __init__(self, env, prefix):
        self.env = env
        self.prefix = prefix
        self.next_size = {}
        self.served = {}     # path -> {arrival index: body size}

    def path(self, u):
        return "/%s/u%d" % (self.prefix, u)

    def set_next(self, u, size, extra=None):
        """The next arrival for URL u is answered with a new version of `size` body bytes; `extra` adds origin
        behaviour keys (segments, pause_ms, ...) to that and later answers."""
        p = self.path(u)
        first = p not in self.next_size
        self.next_size[p] = int(size)
        if not hasattr(self, "next_extra"):
            self.next_extra = {}
        self.next_extra[p] = dict(extra or {})
        if first:
            self.served[p] = {}

            def beh(arr, p=p):
                n = self.next_size[p]
                self.served[p][arr.index] = n
                b = {"status": 200, "headers": [["Cache-Control", "max-age=%d" % MAX_AGE], ["X-Version", str(arr.index)]],
                     "body_tag": "%s#%d" % (p, arr.index), "body_len": n}
                b.update(self.next_extra.get(p, {}))
                return b
            self.env.origin.script(p, beh)

    def all_versions(self, u):
        """Indices of all versions the origin started to send (complete or still in progress)."""
        return sorted(self.served.get(self.path(u), {}))

    def arrivals(self, u):
        return self.env.origin.arrival_count(self.path(u))

    def body(self, u, version):
        p = self.path(u)
        return httpref.keyed_stream("%s#%d" % (p, version), self.served[p][version])

    def served_versions(self, u):
        """Indices of versions the origin sent completely."""
        p = self.path(u)
        return [a.index for a in self.env.origin.arrivals_for(p) if a.responded and a.index in self.served.get(p, {})]

    def match_version(self, u, body):
        """-> index of the completely served origin version whose bytes equal body, or None"""
        for k in self.served_versions(u):
            if self.body(u, k) == body:
                return k
        return None


# ---------------------------------------------------------------------- store.log
_SL = re.compile(r"^\s*\d+\.\d+\s+(\S+)\s+(-?\d+)\s+([0-9A-Fa-f]{8})\s+(\S+)\s.*\s(\S+)$")


def store_log_state(sq):
    """Replays store.log.  -> {url: {"swapouts": n, "released": bool}} where released tells whether the
    latest swapped-out entry of that URL was RELEASEd afterwards."""
    try:
        with open(os.path.join(sq.run, "store.log"), errors="replace") as f:
            lines = f.read().splitlines()
    except OSError:
        return {}
    st = {}
    slot_url = {}
    for ln in lines:
        m = _SL.match(ln)
        if not m:
            continue
        tag, dirn, filen, _key, url = m.groups()
        slot = (dirn, filen)
        if tag == "SWAPOUT":
            e = st.setdefault(url, {"swapouts": 0, "released": False})
            e["swapouts"] += 1
            e["released"] = False
            e["slot"] = slot
            slot_url[slot] = url
        elif tag == "RELEASE":
            u = slot_url.get(slot)
            if u is not None and st[u].get("slot") == slot:
                st[u]["released"] = True
    return st


def wait_swapout(sq, url, more_than, timeout=5.0):
    """Wait until store.log shows more than `more_than` SWAPOUT records for url."""
    deadline = time.time() + timeout
    while True:
        s = store_log_state(sq).get(url)
        if s and s["swapouts"] > more_than:
            return True
        if time.time() > deadline:
            return False
        time.sleep(0.03)


def wait_finished_rebuilding(sq, timeout=90, count=1):
    """Strict variant of Squid.wait_rebuilt(): `count` "Finished rebuilding storage from disk" lines since the latest start."""
    deadline = time.time() + timeout
    while time.time() < deadline:
        if sq.cache_log_since_start().count("Finished rebuilding storage from disk") >= count:
            return True
        if sq.proc.poll() is not None:
            return False
        time.sleep(0.05)
    return False


def health(sq, r, expect_alive=True, prefix="memory-safety/liveness:"):
    probs = sq.health_problems(expect_alive=expect_alive)
    for sig, detail in probs:
        r.fail(prefix + sig, detail)
    return not probs


def trace(msg):
    """Harness progress line in the worker log (stderr); not part of any verdict."""
    import sys
    print("[%s] %s" % (time.strftime("%H:%M:%S"), msg), file=sys.stderr, flush=True)
