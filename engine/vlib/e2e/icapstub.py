"""Harness-owned ICAP server (RFC 3507): OPTIONS, REQMOD, RESPMOD with scripted per-transaction behaviour.

    stub = IcapServer()                                   # 127.0.0.1, free port
    stub.options["/respmod-x"] = {"methods": "RESPMOD", "preview": 16, "allow204": True}     # per service path
    stub.script("c60-w0-r0-7", {...behaviour...})           # key = substring of the encapsulated HTTP request line
    ... run transactions through the proxy ...
    stub.transactions_for("c60-w0-r0-7") -> [Txn]          # what the stub saw and what it sent

squid.conf:  icap_service NAME respmod_precache icap://127.0.0.1:<stub.port>/respmod-x bypass=on

Behaviour dict (all keys optional; default = 204 when the client allows it, else echo is impossible -> 200 with the
scripted adapted message is required, so the default is {"mode": "204"}):
  mode            '200' | '204' | 'echo' | 'error' | 'garbage' | 'close'   ('echo' = 200 carrying the virgin message back)
  strict204       with mode '204': answer 204 only where RFC 3507 permits it (inside a preview, or when the client sent
                  Allow: 204); otherwise read the whole virgin message and echo it back in a 200 reply
  status          ICAP status for mode 'error' (default 500)
  http_head       bytes (or latin-1 str) of the adapted HTTP request/response head incl. the final CRLFCRLF (mode 200)
  http_body       bytes of the adapted body, None = null-body (mode 200);  body_tag/body_len -> httpref.keyed_stream
  satisfy         REQMOD only: the encapsulated message of the 200 reply is an HTTP *response* (request satisfaction)
  chunks          chunk sizes used to encode the adapted body (cycled)
  in_preview      answer right after the preview without 100 Continue (when the message did not end inside the preview)
  early           no preview: answer before reading the virgin body (the rest is drained afterwards)
  abort_after     send only this many bytes of the ICAP reply, then close (abort_rst: with RST)
  abort_region    ("icap-head"|"http-head"|"body"|"last-chunk", permille): abort_after computed from the real reply layout
  segments / pause_ms   write sizes of the reply and sleeps between them
  garbage_b64     reply bytes for mode 'garbage'
  close           close the connection after the reply (no persistent connection)
  delay_ms        wait before replying
Every transaction is logged as a Txn (method, ICAP headers, encapsulated heads, virgin body bytes received, preview info,
bytes of the reply written and the offset in the reply at which adapted HTTP content starts).
"""
import base64
import socket
import struct
import threading
import time

from . import httpref


class Txn:
    def __init__(self):
        self.method = None
        self.uri = b""
        self.service = ""            # path of the ICAP URI
        self.headers = {}            # lower-case name -> value (str)
        self.req_hdr = b""           # encapsulated HTTP request head
        self.res_hdr = b""           # encapsulated HTTP response head (RESPMOD)
        self.has_body = False
        self.preview = None          # bytes received as preview (None = no Preview header)
        self.ieof = False            # the preview carried the whole body
        self.body = bytearray()      # virgin body bytes received (preview + rest)
        self.body_complete = False   # the terminating zero chunk of the virgin body was received
        self.continued = False       # the stub sent 100 Continue
        self.allow204 = False        # the client's Allow header includes 204
        self.behaviour = None
        self.reply_len = 0           # size of the scripted reply
        self.reply_sent = 0          # bytes of it written
        self.adapted_offset = None   # offset in the reply where encapsulated (adapted) HTTP bytes start; None = no adapted content
        self.done = False
        self.error = None
        self.key = None
        self.echoed = False          # the reply was a 200 echoing the virgin message (strict204 fallback or mode 'echo')
        self.time = time.time()

    @property
    def adapted_bytes_sent(self):
        return self.adapted_offset is not None and self.reply_sent > self.adapted_offset

    def __repr__(self):
        return "<Txn %s %s key=%s preview=%s ieof=%s body=%d complete=%s continued=%s sent=%d/%d adapted_at=%s err=%s>" % (
            self.method, self.service, self.key, None if self.preview is None else len(self.preview), self.ieof, len(self.body),
            self.body_complete, self.continued, self.reply_sent, self.reply_len, self.adapted_offset, self.error)


class _Closed(Exception):
    pass


class _Reader:
    def __init__(self, sock):
        self.s = sock
        self.buf = bytearray()

    def fill(self):
        try:
            d = self.s.recv(65536)
        except (socket.timeout, OSError):
            d = b""
        if not d:
            raise _Closed()
        self.buf += d

    def until(self, marker, limit=1 << 20):
        while True:
            i = self.buf.find(marker)
            if i >= 0:
                out = bytes(self.buf[:i + len(marker)])
                del self.buf[:i + len(marker)]
                return out
            if len(self.buf) > limit:
                raise _Closed()
            self.fill()

    def exactly(self, n):
        while len(self.buf) < n:
            self.fill()
        out = bytes(self.buf[:n])
        del self.buf[:n]
        return out

    def chunks_until_zero(self, sink):
        """Read chunked data up to and including a zero chunk (with optional trailers). -> True when the zero chunk had ';ieof'"""
        while True:
            line = self.until(b"\r\n", 4096)
            head = line[:-2]
            size_txt, _, ext = head.partition(b";")
            size = int(size_txt.strip() or b"0", 16)
            if size == 0:
                # trailers (none expected) until the empty line
                while True:
                    t = self.until(b"\r\n", 8192)
                    if t == b"\r\n":
                        break
                return b"ieof" in ext
            sink += self.exactly(size)
            if self.exactly(2) != b"\r\n":
                raise _Closed()


def chunked(body, sizes=None):
    out = bytearray()
    pos = 0
    i = 0
    sizes = [s for s in (sizes or []) if s > 0]
    while pos < len(body):
        sz = sizes[i % len(sizes)] if sizes else len(body) - pos
        sz = min(sz, len(body) - pos)
        out += b"%x\r\n" % sz + body[pos:pos + sz] + b"\r\n"
        pos += sz
        i += 1
    out += b"0\r\n\r\n"
    return bytes(out)


class IcapServer:
    def __init__(self, host="127.0.0.1", port=0, istag="verif-1"):
        self.lsock = socket.socket(socket.AF_INET, socket.SOCK_STREAM)
        self.lsock.setsockopt(socket.SOL_SOCKET, socket.SO_REUSEADDR, 1)
        self.lsock.bind((host, port))
        self.lsock.listen(256)
        self.host = host
        self.port = self.lsock.getsockname()[1]
        self.istag = istag
        self.lock = threading.Lock()
        self.options = {}            # service path -> {"methods": "RESPMOD", "preview": int|None, "allow204": bool, "ttl": int, "transfer_preview": "*"}
        self.default_options = {"methods": "REQMOD, RESPMOD", "preview": None, "allow204": True}
        self.behaviours = {}         # key (bytes) -> behaviour dict | list (one per arrival) | callable(txn)
        self.default_behaviour = {"mode": "204"}
        self.txns = []
        self.options_seen = []
        self.conns = {}
        self.conn_count = 0
        self.errors = []
        self.stopping = False
        self.thread = threading.Thread(target=self._accept_loop, daemon=True)
        self.thread.start()

    # ---------------------------------------------------------------- harness API
    def script(self, key, behaviour):
        if isinstance(key, str):
            key = key.encode()
        with self.lock:
            self.behaviours[key] = behaviour

    def unscript(self, key):
        if isinstance(key, str):
            key = key.encode()
        with self.lock:
            self.behaviours.pop(key, None)

    def transactions_for(self, key):
        if isinstance(key, str):
            key = key.encode()
        with self.lock:
            return [t for t in self.txns if t.key == key]

    def forget(self, key):
        if isinstance(key, str):
            key = key.encode()
        with self.lock:
            self.txns = [t for t in self.txns if t.key != key]
            self.behaviours.pop(key, None)

    def stop(self):
        self.stopping = True
        try:
            self.lsock.close()
        except OSError:
            pass
        with self.lock:
            conns = list(self.conns.values())
        for c in conns:
            try:
                c.close()
            except OSError:
                pass

    # ---------------------------------------------------------------- server side
    def _accept_loop(self):
        while not self.stopping:
            try:
                c, _ = self.lsock.accept()
            except OSError:
                return
            with self.lock:
                self.conn_count += 1
                cid = self.conn_count
                self.conns[cid] = c
            c.setsockopt(socket.IPPROTO_TCP, socket.TCP_NODELAY, 1)
            threading.Thread(target=self._serve, args=(c, cid), daemon=True).start()

    def _serve(self, c, cid):
        c.settimeout(60)
        rd = _Reader(c)
        try:
            while not self.stopping:
                if not self._one(c, rd):
                    break
        except _Closed:
            pass
        except Exception as e:     # harness bug or malformed peer data: visible, never fatal
            if not self.stopping:
                self.errors.append("conn %d: %r" % (cid, e))
        finally:
            try:
                c.close()
            except OSError:
                pass
            with self.lock:
                self.conns.pop(cid, None)

    def _behaviour_for(self, txn):
        with self.lock:
            items = list(self.behaviours.items())
        line = txn.req_hdr.split(b"\r\n", 1)[0]
        for k, b in items:
            if k in line:
                txn.key = k
                if callable(b):
                    return b(txn)
                if isinstance(b, list):
                    with self.lock:
                        idx = len([t for t in self.txns if t.key == k])
                    return b[min(idx, len(b) - 1)]
                return b
        return dict(self.default_behaviour)

    def _one(self, c, rd):
        """Serve one ICAP request. -> False when the connection must end"""
        head = rd.until(b"\r\n\r\n", 65536)
        lines = head[:-4].split(b"\r\n")
        parts = lines[0].split(b" ")
        txn = Txn()
        txn.method = parts[0].decode("latin-1")
        txn.uri = parts[1] if len(parts) > 1 else b""
        u = txn.uri.decode("latin-1")
        txn.service = "/" + u.split("://", 1)[-1].split("/", 1)[-1] if "/" in u.split("://", 1)[-1] else "/"
        for l in lines[1:]:
            k, _, v = l.partition(b":")
            txn.headers[k.strip().lower().decode("latin-1")] = v.strip().decode("latin-1")
        if txn.method == "OPTIONS":
            with self.lock:
                self.options_seen.append(txn.service)
                o = dict(self.default_options)
                o.update(self.options.get(txn.service.split("?")[0], {}))
            out = ["ICAP/1.0 200 OK", "Methods: %s" % o.get("methods", "REQMOD, RESPMOD"), "Service: verif-icap", "ISTag: \"%s\"" % self.istag,
                   "Max-Connections: 1000", "Options-TTL: %d" % o.get("ttl", 3600)]
            if o.get("allow204", True):
                out.append("Allow: 204")
            if o.get("preview") is not None:
                out.append("Preview: %d" % o["preview"])
            if o.get("transfer_preview"):
                out.append("Transfer-Preview: %s" % o["transfer_preview"])
            out.append("Encapsulated: null-body=0")
            c.sendall(("\r\n".join(out) + "\r\n\r\n").encode())
            return True
        # ---- encapsulated heads
        enc = []
        for item in txn.headers.get("encapsulated", "").split(","):
            n, _, off = item.strip().partition("=")
            if n:
                enc.append((n.strip().lower(), int(off)))
        if not enc:
            raise _Closed()
        hdr_total = enc[-1][1]
        blob = rd.exactly(hdr_total)
        for i, (n, off) in enumerate(enc[:-1]):
            part = blob[off:enc[i + 1][1]]
            if n == "req-hdr":
                txn.req_hdr = part
            elif n == "res-hdr":
                txn.res_hdr = part
        txn.has_body = enc[-1][0] in ("req-body", "res-body")
        txn.allow204 = "204" in [x.strip() for x in txn.headers.get("allow", "").split(",")]
        beh = self._behaviour_for(txn)
        txn.behaviour = beh
        with self.lock:
            self.txns.append(txn)
        drain_after = False
        if beh.get("mode", "204") == "204" and beh.get("strict204") and not txn.allow204 and "preview" not in txn.headers:
            beh = dict(beh)
            beh["early"] = False        # the echo needs the whole body
        try:
            if txn.has_body:
                if "preview" in txn.headers:
                    pv = bytearray()
                    txn.ieof = rd.chunks_until_zero(pv)
                    txn.preview = bytes(pv)
                    txn.body += pv
                    if txn.ieof:
                        txn.body_complete = True
                    elif beh.get("in_preview"):
                        pass        # answer now; the client will not send the rest (RFC 3507 4.5)
                    else:
                        c.sendall(b"ICAP/1.0 100 Continue\r\n\r\n")
                        txn.continued = True
                        rd.chunks_until_zero(txn.body)
                        txn.body_complete = True
                elif beh.get("early"):
                    drain_after = True
                else:
                    rd.chunks_until_zero(txn.body)
                    txn.body_complete = True
            else:
                txn.body_complete = True
        except _Closed:
            txn.error = "client closed while sending the virgin message"
            txn.done = True
            return False
        keep = self._respond(c, txn, beh)
        if drain_after and keep:
            try:
                rd.chunks_until_zero(txn.body)
                txn.body_complete = True
            except _Closed:
                keep = False
        txn.done = True
        return keep and not beh.get("close")

    def _respond(self, c, txn, beh):
        if beh.get("delay_ms"):
            time.sleep(beh["delay_ms"] / 1000.0)
        mode = beh.get("mode", "204")
        data = b""
        regions = None
        if mode == "close":
            return False
        if mode == "204" and beh.get("strict204") and not (txn.allow204 or (txn.preview is not None and not txn.continued)):
            mode = "echo"
        if mode == "echo":
            beh = dict(beh)
            beh["http_head"] = txn.res_hdr if txn.method == "RESPMOD" else txn.req_hdr
            beh["http_body"] = bytes(txn.body) if txn.has_body else None
            beh.pop("body_tag", None)
            beh["satisfy"] = False
            mode = "200"
            txn.echoed = True
        if mode == "garbage":
            data = base64.b64decode(beh.get("garbage_b64", ""))
        elif mode == "204":
            data = ("ICAP/1.0 204 No Content\r\nISTag: \"%s\"\r\nEncapsulated: null-body=0\r\n\r\n" % self.istag).encode()
        elif mode == "error":
            data = ("ICAP/1.0 %d Scripted\r\nISTag: \"%s\"\r\nEncapsulated: null-body=0\r\n\r\n" % (int(beh.get("status", 500)), self.istag)).encode()
        elif mode == "200":
            hh = beh.get("http_head", b"")
            if isinstance(hh, str):
                hh = hh.encode("latin-1")
            body = beh.get("http_body")
            if body is None and "body_tag" in beh:
                body = httpref.keyed_stream(beh["body_tag"], int(beh.get("body_len", 0)))
            is_resp = txn.method == "RESPMOD" or beh.get("satisfy")
            hname = "res-hdr" if is_resp else "req-hdr"
            bname = "res-body" if is_resp else "req-body"
            if body is None:
                encap = "%s=0, null-body=%d" % (hname, len(hh))
                enc_body = b""
            else:
                encap = "%s=0, %s=%d" % (hname, bname, len(hh))
                enc_body = chunked(body, beh.get("chunks"))
            icap_head = ("ICAP/1.0 200 OK\r\nISTag: \"%s\"\r\nEncapsulated: %s\r\n\r\n" % (self.istag, encap)).encode()
            txn.adapted_offset = len(icap_head)
            data = icap_head + hh + enc_body
            a, b_, e = len(icap_head), len(icap_head) + len(hh), len(icap_head) + len(hh) + len(enc_body)
            regions = {"icap-head": (0, a), "http-head": (a, b_), "body": (b_, max(b_, e - 5)), "last-chunk": (max(b_, e - 5), e)}
        if regions is None:
            regions = {"icap-head": (0, len(data))}
        txn.reply_len = len(data)
        abort_after = beh.get("abort_after")
        if beh.get("abort_region"):
            lo, hi = regions.get(beh["abort_region"][0], regions["icap-head"])
            abort_after = lo + (hi - lo) * int(beh["abort_region"][1]) // 1000
        if abort_after is not None:
            data = data[:max(0, int(abort_after))]
        segs = list(beh.get("segments") or [])
        pauses = list(beh.get("pause_ms") or [])
        pos = 0
        i = 0
        try:
            while pos < len(data):
                n = segs[i] if i < len(segs) else len(data) - pos
                n = max(1, min(n, len(data) - pos))
                c.sendall(data[pos:pos + n])
                pos += n
                txn.reply_sent = pos
                if i < len(pauses) and pauses[i]:
                    time.sleep(pauses[i] / 1000.0)
                i += 1
        except OSError:
            txn.error = "write failed after %d bytes" % pos
            return False
        if abort_after is not None:
            if beh.get("abort_rst"):
                try:
                    c.setsockopt(socket.SOL_SOCKET, socket.SO_LINGER, struct.pack("ii", 1, 0))
                except OSError:
                    pass
            return False
        return mode in ("200", "204", "error")
