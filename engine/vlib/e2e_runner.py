"""Runner for end-to-end checks: Hypothesis-generated scenarios against the real proxy.

props/Cnn/check.py provides
    strategy(params)            -> hypothesis strategy of JSON-serialisable scenarios
    setup(ctx)                  -> env   (starts proxy/stubs; ctx has .params .tier .seed .worker .pid)
    execute(env, scenario)      -> Result (see class Result)
    teardown(env)
The parent process spawns `workers` worker processes (own proxy instance each); every worker runs
Hypothesis with its own derived seed; results are merged into one evidence file.
"""
import glob
import importlib.util
import json
import os
import subprocess
import sys
import time
import traceback

if __name__ == "__main__":
    sys.path.insert(0, os.path.dirname(os.path.dirname(os.path.abspath(__file__))))

from vlib import build, native
from vlib.common import NCPU, REPLAYS, RUN, VERIF, Outcome, load_known, load_meta, log, save_violation_case, sha
from vlib.common import tier_params as common_tier_params


class Result:
    """Outcome of executing one scenario."""

    def __init__(self):
        self.violations = []     # list of (signature, detail)
        self.nontrivial = False
        self.labels = []
        self.inconclusive = None  # reason string: the case could not be judged (timeouts etc.) -- never a violation
        self.sub_evaluations = 1  # how many oracle evaluations this scenario contained (e.g. transactions)

    def fail(self, sig, detail=""):
        self.violations.append((sig, detail))

    def label(self, l):
        self.labels.append(l)


class Ctx:
    def __init__(self, pid, tier, seed, worker, params, meta):
        self.pid, self.tier, self.seed, self.worker, self.params, self.meta = pid, tier, seed, worker, params, meta


def load_module(pid, module_file="check.py"):
    path = os.path.join(VERIF, "props", pid, module_file)
    spec = importlib.util.spec_from_file_location("prop_" + pid, path)
    mod = importlib.util.module_from_spec(spec)
    sys.path.insert(0, os.path.join(VERIF, "props", pid))
    spec.loader.exec_module(mod)
    return mod


def _canon(scenario):
    return json.dumps(scenario, sort_keys=True, separators=(",", ":"))


def confirm(mod, env, scenario, known, need_all, tries=3):
    """Replay a failing scenario on fresh state. -> (confirmed, signature, detail)"""
    hits = []
    for _ in range(tries):
        try:
            r = mod.execute(env, scenario)
        except Exception as e:
            r = Result()
            r.inconclusive = "exception during replay: %r" % e
        bad = [(s, d) for (s, d) in r.violations if s not in known]
        hits.append(bad[0] if bad else None)
        if bad and not need_all:
            return True, bad[0][0], bad[0][1]
        if not bad and need_all:
            return False, "", ""
    if need_all and all(hits):
        return True, hits[0][0], hits[0][1]
    return False, "", ""


def worker_main(pid, tier, seed, widx, outpath, replay=None):
    import hypothesis
    from hypothesis import HealthCheck, Phase, given, settings

    meta = load_meta(pid)
    if os.environ.get("VERIF_PART_META"):
        with open(os.environ["VERIF_PART_META"]) as f:
            meta = json.load(f)
    tp = common_tier_params(meta, tier)
    nworkers = int(tp.get("workers", 1))
    known_open, _ = load_known(pid)
    known = set(known_open)
    mod = load_module(pid, meta.get("module", "check.py"))
    ctx = Ctx(pid, tier, seed, widx, tp, meta)
    stats = {"evaluations": 0, "scenarios": 0, "nontrivial": 0, "distinct": set(), "labels": {}, "samples": [],
             "known_hits": {}, "inconclusive": {}, "violations": [], "notes": [], "replays_run": 0}
    need_all = bool(meta.get("confirm_all"))
    t_end = time.time() + float(tp.get("budget_s", 120))
    env = mod.setup(ctx)
    try:
        def run_one(scenario, count=True):
            r = mod.execute(env, scenario)
            if count:
                stats["scenarios"] += 1
                stats["evaluations"] += r.sub_evaluations
                for l in r.labels:
                    stats["labels"][l] = stats["labels"].get(l, 0) + 1
                if r.inconclusive:
                    stats["inconclusive"][r.inconclusive] = stats["inconclusive"].get(r.inconclusive, 0) + 1
                if r.nontrivial:
                    stats["nontrivial"] += 1
                    stats["distinct"].add(sha(_canon(scenario)))
                    if len(stats["samples"]) < 3:
                        stats["samples"].append(scenario)
            bad = []
            for s, d in r.violations:
                if s in known:
                    stats["known_hits"][s] = stats["known_hits"].get(s, 0) + 1
                else:
                    bad.append((s, d))
            return bad

        # --- replay mode
        if replay is not None:
            with open(replay) as f:
                scenario = json.load(f)
            ok, sig, detail = confirm(mod, env, scenario, known, need_all)
            stats["replay_result"] = {"violation": ok, "signature": sig, "detail": detail[:2000]}
        else:
            # --- committed regression inputs (worker 0 only)
            if widx == 0:
                for f in sorted(glob.glob(os.path.join(REPLAYS, pid, "*.json"))):
                    with open(f) as fh:
                        scenario = json.load(fh)
                    stats["replays_run"] += 1
                    bad = run_one(scenario, count=False)
                    if bad:
                        ok, sig, detail = confirm(mod, env, scenario, known, need_all)
                        if ok:
                            stats["violations"].append({"signature": sig, "detail": "committed replay fails: " + detail[:1500], "replay": f})
            # --- generated search
            last_fail = {}
            examples = max(1, int(tp["examples"]) // nworkers)

            @hypothesis.seed(seed * 1009 + widx * 7919 + 1)
            @settings(max_examples=examples, database=None, deadline=None, report_multiple_bugs=False,
                      derandomize=False, print_blob=False,
                      suppress_health_check=[HealthCheck.too_slow, HealthCheck.data_too_large, HealthCheck.large_base_example],
                      phases=[Phase.generate, Phase.shrink])
            @given(mod.strategy(tp))
            def prop(scenario):
                if time.time() > t_end and not last_fail:
                    stats["budget_exhausted"] = True
                    return
                bad = run_one(scenario)
                if bad:
                    last_fail["scenario"] = scenario
                    last_fail["bad"] = bad
                    if "first" not in last_fail:
                        last_fail["first"] = (scenario, bad)
                    raise AssertionError(bad[0][0])

            try:
                prop()
            except AssertionError:
                pass
            except hypothesis.errors.Flaky:
                stats["notes"].append("hypothesis reported Flaky while shrinking; the smallest failing example seen is replayed")
            except hypothesis.errors.FailedHealthCheck as e:
                stats["notes"].append("generator health check failed: %s" % str(e)[:300])
            if last_fail:
                # the shrunk example first; shrinking a timing-sensitive failure tends to end on a marginal example, so if that
                # one does not reproduce the example that failed first (as generated) gets the same confirmation
                candidates = [(last_fail["scenario"], last_fail["bad"])]
                if _canon(last_fail["first"][0]) != _canon(last_fail["scenario"]):
                    candidates.append(last_fail["first"])
                ok = False
                for scenario, bad in candidates:
                    ok, sig, detail = confirm(mod, env, scenario, known, need_all)
                    if not ok and bad[0][0].startswith("memory-safety/liveness:"):
                        # a crash/assert really happened once; timing-dependent ones get more attempts before being set aside
                        ok, sig, detail = confirm(mod, env, scenario, known, need_all, tries=10)
                    if ok:
                        break
                scenario = scenario if ok else last_fail["scenario"]
                if ok:
                    path = save_violation_case(pid, json.dumps(scenario, indent=1, sort_keys=True), ext=".json")
                    stats["violations"].append({"signature": sig, "detail": detail[:1500], "replay": path})
                else:
                    from vlib.common import OUT
                    d = os.path.join(OUT, "unconfirmed", pid)
                    os.makedirs(d, exist_ok=True)
                    up = os.path.join(d, sha(_canon(scenario)) + ".json")
                    with open(up, "w") as f:
                        json.dump({"signature": last_fail["bad"][0][0], "detail": last_fail["bad"][0][1][:3000], "scenario": scenario}, f, indent=1)
                    stats["notes"].append("a failing scenario (%s) did not reproduce on replay; not reported (kept for triage: %s)" % (last_fail["bad"][0][0], up))
    finally:
        try:
            mod.teardown(env)
        except Exception as e:
            stats["notes"].append("teardown: %r" % e)
    stats["distinct"] = sorted(stats["distinct"])
    with open(outpath + ".tmp", "w") as f:
        json.dump(stats, f)
    os.replace(outpath + ".tmp", outpath)


def run(pid, meta, tier, seed, replay=None, finish=True, module_file="check.py"):
    out = Outcome(pid, tier, seed, meta)
    build.ensure_build()
    native.build_all()
    tp = common_tier_params(meta, tier)
    nworkers = 1 if replay else int(tp.get("workers", 1))
    workdir = os.path.join(RUN, pid)
    os.makedirs(workdir, exist_ok=True)
    procs = []
    for w in range(nworkers):
        outpath = os.path.join(workdir, "worker-%d.json" % w)
        if os.path.exists(outpath):
            os.unlink(outpath)
        cmd = [sys.executable, os.path.abspath(__file__), "worker", pid, tier, str(seed), str(w), outpath]
        if replay:
            cmd.append(os.path.abspath(replay))
        lf = open(os.path.join(workdir, "worker-%d.log" % w), "w")
        wenv = dict(os.environ)
        if meta.get("_part_meta_path"):
            wenv["VERIF_PART_META"] = meta["_part_meta_path"]
        procs.append((subprocess.Popen(cmd, stdout=lf, stderr=subprocess.STDOUT, cwd=VERIF, env=wenv), outpath, lf, w))
    distinct = set()
    labels = {}
    inconclusive = {}
    scenarios = 0
    hard_limit = float(tp.get("budget_s", 120)) * 3 + 300
    failed_workers = []
    for p, outpath, lf, w in procs:
        try:
            p.wait(timeout=hard_limit)
        except subprocess.TimeoutExpired:
            p.kill()
            out.notes.append("worker %d exceeded the hard time limit and was stopped (inconclusive)" % w)
        lf.close()
        if not os.path.exists(outpath):
            with open(os.path.join(workdir, "worker-%d.log" % w), errors="replace") as f:
                tail = f.read()[-3000:]
            failed_workers.append((w, tail))
            out.notes.append("worker %d produced no result (harness/environment error, not a property verdict): %s" % (w, tail.strip().split("\n")[-1][:200] if tail.strip() else ""))
            continue
        with open(outpath) as f:
            st = json.load(f)
        if replay:
            rr = st.get("replay_result", {})
            print("REPLAY %s property=%s signature=%s %s" % ("fail" if rr.get("violation") else "pass", pid, rr.get("signature", ""), rr.get("detail", "")[:400]))
            if rr.get("violation"):
                print("VIOLATION property=%s replay=%s" % (pid, replay))
                return 1
            return 0
        out.evaluations += st["evaluations"]
        scenarios += st["scenarios"]
        distinct.update(st["distinct"])
        for k, v in st["labels"].items():
            labels[k] = labels.get(k, 0) + v
        for k, v in st["inconclusive"].items():
            inconclusive[k] = inconclusive.get(k, 0) + v
        for k, v in st["known_hits"].items():
            out.known_hits[k] = out.known_hits.get(k, 0) + v
        if len(out.samples) < 4:
            out.samples += st["samples"][:2]
        out.notes += st["notes"]
        if st.get("budget_exhausted"):
            out.notes.append("worker %d: time budget exhausted before all examples ran (inconclusive for the rest)" % w)
        seen = set(v[0] for v in out.violations)
        for v in st["violations"]:
            if v["signature"] not in seen:
                out.add_violation(v["signature"], v["detail"], v["replay"])
        out.extra["replays_run"] = out.extra.get("replays_run", 0) + st.get("replays_run", 0)
    if len(failed_workers) == len(procs):
        raise SystemExit("every e2e worker failed before producing a result (harness error, not a property verdict):\n%s" % failed_workers[0][1])
    out.distinct_nontrivial = len(distinct)
    out.extra["scenarios"] = scenarios
    out.extra["labels"] = labels
    out.extra["inconclusive"] = inconclusive
    out.extra["workers"] = nworkers
    for g in meta.get("gates", []):
        frac = labels.get(g["label"], 0) / float(max(1, scenarios))
        if frac < g["min_frac"]:
            out.gates_unmet.append("label %s: %.4f < %.4f" % (g["label"], frac, g["min_frac"]))
    return out.finish() if finish else out


if __name__ == "__main__":
    if sys.argv[1] == "worker":
        pid, tier, seed, widx, outpath = sys.argv[2], sys.argv[3], int(sys.argv[4]), int(sys.argv[5]), sys.argv[6]
        replay = sys.argv[7] if len(sys.argv) > 7 else None
        try:
            worker_main(pid, tier, seed, widx, outpath, replay)
        except SystemExit:
            raise
        except BaseException:
            traceback.print_exc()
            sys.exit(3)
