"""Runner for in-process harnesses built on engine/cxx/verif_pbt.h (rapidcheck + libFuzzer)."""
import glob

import numpy as np
import json
import os
import re
import shutil
import struct
import subprocess
import time
from concurrent.futures import ThreadPoolExecutor

from . import build
from .common import tier_params as common_tier_params
from .common import BUILD, NCPU, REPLAYS, RUN, VERIF, Outcome, load_known, log, save_violation_case, sha

SAN_ENV = {
    "ASAN_OPTIONS": "detect_leaks=0:exitcode=87:allocator_may_return_null=1:handle_abort=0:symbolize=1:quarantine_size_mb=16",
    "UBSAN_OPTIONS": "halt_on_error=1:exitcode=87:print_stacktrace=1:symbolize=1",
    "ASAN_SYMBOLIZER_PATH": shutil.which("llvm-symbolizer") or shutil.which("llvm-symbolizer-14") or "",
}


def crash_signature(stderr_text):
    """Stable classification of a sanitizer/assert death from its stderr."""
    t = stderr_text
    m = re.search(r"SUMMARY: AddressSanitizer: (\S+) (\S+?)(?::\d+)+ in (\S+)", t)
    if m:
        return "asan:%s:%s:%s" % (m.group(1), os.path.basename(m.group(2)), m.group(3).split("(")[0])
    m = re.search(r"SUMMARY: AddressSanitizer: (\S+)", t)
    if m:
        return "asan:%s" % m.group(1)
    m = re.search(r"([\w./+-]+):(\d+):\d+: runtime error: ([^\n]*)", t)
    if m:
        msg = m.group(3)
        kind = re.split(r"[:;]| of | \d|\(| -?\d", msg)[0].strip().replace(" ", "-")
        return "ubsan:%s:%s" % (kind, os.path.basename(m.group(1)))
    m = re.search(r"assertion failed: ([\w./+-]+):(\d+): \"([^\n\"]*)", t)
    if m:
        return "assert:%s:%s" % (os.path.basename(m.group(1)), m.group(3)[:60].replace(" ", "_"))
    m = re.search(r"terminate called after throwing an instance of '([^']+)'", t)
    if m:
        return "uncaught:%s" % m.group(1)
    if "FATAL" in t:
        m = re.search(r"FATAL: ([^\n]{0,80})", t)
        return "fatal:%s" % (m.group(1).strip().replace(" ", "_") if m else "")
    return "crash:unclassified"


def brief(stderr_text, limit=2500):
    """The lines of a sanitizer/assert report that matter, with stack frames shortened."""
    keep = []
    for l in stderr_text.split("\n"):
        if "runtime error" in l or "SUMMARY" in l or "ERROR: AddressSanitizer" in l or "assertion failed" in l or "terminate called" in l or "what():" in l or "FATAL" in l:
            keep.append(l[:300])
        elif re.match(r"\s*#[0-5] ", l):
            keep.append(l[:160])
    return "\n".join(keep)[:limit]


def _env():
    e = dict(os.environ)
    e.update(SAN_ENV)
    return e


def _list_props(exe):
    r = subprocess.run([exe, "--list"], capture_output=True, text=True, env=_env())
    return [l.strip() for l in r.stdout.split("\n") if l.strip()]


def replay_file(exe, path, known):
    """-> ('pass'|'known'|'fail'|'crash', signature, detail)"""
    cmd = [exe, "--replay", path]
    if known:
        cmd += ["--known", ",".join(sorted(known))]
    r = subprocess.run(cmd, capture_output=True, text=True, env=_env(), errors="replace")
    if r.returncode == 0:
        return "pass", "", ""
    m = re.search(r"REPLAY fail prop=\S+ signature=(\S+) detail=(.*)", r.stdout)
    if r.returncode in (1, 3) and m:
        return ("known" if r.returncode == 3 else "fail"), m.group(1), m.group(2)
    sig = crash_signature(r.stderr)
    if sig in known:
        return "known", sig, brief(r.stderr)
    return "crash", sig, brief(r.stderr)


def _run_job(exe, job, known, workdir):
    out = os.path.join(workdir, "result-%s-%d.json" % (job["prop"], job["shard"]))
    for p in (out, out + ".crashcase", out + ".distinct"):
        if os.path.exists(p):
            os.unlink(p)
    cmd = [exe, "--run", "--out", out, "--only", job["prop"], "--seed", str(job["seed"]), "--cases", str(job["cases"]),
           "--max-size", str(job["max_size"]), "--budget-s", str(job["budget_s"]), "--batch", str(job.get("batch", 1000))]
    if known:
        cmd += ["--known", ",".join(sorted(known))]
    t0 = time.time()
    env = _env()
    # shard identity / budget for sub-properties that partition a fixed space themselves (E-sched "exhaustive")
    env.update({"VP_SHARD": str(job["shard"]), "VP_SHARDS": str(job.get("shards", 1)), "VP_BUDGET_S": str(job["budget_s"])})
    env.update({str(k): str(v) for k, v in job.get("env", {}).items()})
    r = subprocess.run(cmd, capture_output=True, text=True, env=env, errors="replace")
    res = None
    if os.path.exists(out):
        try:
            with open(out) as f:
                res = json.load(f)
        except ValueError:
            res = None
    sig = crash_signature(r.stderr) if r.returncode not in (0, 1) else ""
    return {"job": job, "rc": r.returncode, "stderr": brief(r.stderr), "crash_sig": sig, "result": res, "out": out, "wall": time.time() - t0}


def run_unit(pid, meta, tier, seed, replay=None, finish=True):
    out = Outcome(pid, tier, seed, meta)
    known_open, _ = load_known(pid)
    known = set(known_open)
    if meta.get("build") == "standalone":
        build.ensure_build(need_proxy=meta.get("needs_proxy_build", True))
        exe = build.build_standalone(pid, meta, [os.path.join(VERIF, "props", pid, "harness.cc")] + meta.get("sources", []))
    else:
        build.ensure_build()
        exe = build.build_unit(pid, meta)

    if replay:
        st, sig, detail = replay_file(exe, replay, known)
        print("REPLAY %s property=%s signature=%s %s" % (st, pid, sig, detail[:300]))
        if st in ("fail", "crash"):
            print("VIOLATION property=%s replay=%s" % (pid, replay))
            return 1
        return 0

    # 1. seconds-long regression tier: committed replay files
    replayed = 0
    for f in sorted(glob.glob(os.path.join(REPLAYS, pid, "*.case"))):
        st, sig, detail = replay_file(exe, f, known)
        replayed += 1
        if st == "known":
            out.known_hits[sig] = out.known_hits.get(sig, 0) + 1
        elif st in ("fail", "crash"):
            out.add_violation(sig, "committed replay file fails: " + detail, f)
    out.extra["replays_run"] = replayed

    # 2. generated search
    tp = common_tier_params(meta, tier)
    props = [p for p in _list_props(exe) if p not in tp.get("skip_props", [])]
    shares = meta.get("shares", {})
    total_share = sum(shares.get(p, 1.0) for p in props)
    shards = int(tp.get("shards", 1))
    jobs = []
    for p in props:
        cases = max(1, int(tp["cases"] * shares.get(p, 1.0) / total_share))
        pshards = int(tp.get("prop_shards", {}).get(p, shards))  # optional per-sub-property shard count
        for s in range(pshards):
            jobs.append({"prop": p, "shard": s, "seed": (seed * 1000003 + s * 7919 + 1) & 0x7FFFFFFFFFFFFFFF,
                         "cases": max(1, cases // pshards), "max_size": tp.get("max_size", 100),
                         "budget_s": tp.get("budget_s", 120), "batch": tp.get("batch", 1000),
                         "shards": pshards, "env": tp.get("env", {})})
    workdir = os.path.join(RUN, pid)
    os.makedirs(workdir, exist_ok=True)
    with ThreadPoolExecutor(max_workers=min(NCPU, len(jobs))) as ex:
        results = list(ex.map(lambda j: _run_job(exe, j, known, workdir), jobs))

    per_prop = {}
    seen_sigs = set(v[0] for v in out.violations)
    for r in results:
        job = r["job"]
        pp = per_prop.setdefault(job["prop"], {"evaluations": 0, "nontrivial": 0, "distinct_nontrivial": 0, "labels": {}, "exclusions": {},
                                               "samples": [], "notes": []})
        res = r["result"]
        entry = None
        if res and res.get("props"):
            entry = res["props"][0]
            pp["evaluations"] += entry["evaluations"]
            pp["nontrivial"] += entry["nontrivial"]
            dfile = r["out"] + ".distinct"
            if os.path.exists(dfile):
                pp.setdefault("hashes", []).append(np.fromfile(dfile, dtype=np.uint64))
                os.unlink(dfile)
            else:
                pp["distinct_nontrivial"] += entry["distinct_nontrivial"]
            if entry.get("distinct_saturated"):
                pp["notes"].append("distinct-case set saturated at 4M per process: distinct_nontrivial is a lower bound")
            for k, v in entry["labels"].items():
                pp["labels"][k] = pp["labels"].get(k, 0) + v
            for k, v in entry["exclusions"].items():
                pp["exclusions"][k] = pp["exclusions"].get(k, 0) + v
            for k, v in entry["known_hits"].items():
                out.known_hits[k] = out.known_hits.get(k, 0) + v
            if len(pp["samples"]) < 4:
                pp["samples"] += entry["samples"][: 4 - len(pp["samples"])]
            if entry.get("note"):
                pp["notes"].append(entry["note"])
            v = entry.get("violation")
            if v:
                path = save_violation_case(pid, v["case"])
                st, sig, detail = replay_file(exe, path, known)
                if st in ("fail", "crash"):
                    if sig not in seen_sigs:
                        seen_sigs.add(sig)
                        out.add_violation(sig, v.get("detail", "") or detail, path)
                elif st == "known":
                    out.known_hits[sig] = out.known_hits.get(sig, 0) + 1
                else:
                    out.notes.append("sub-property %s: a failing case did not reproduce on replay (%s); not reported" % (job["prop"], path))
        finished_with_violation = bool(entry and entry.get("violation"))
        if r["rc"] not in (0, 1) or (r["rc"] == 1 and not finished_with_violation):
            # the harness process died: sanitizer report, assert, uncaught exception -- or something called exit(1)
            # mid-case (e.g. a Squid assert in a recipe whose stubs end the process with exit(EXIT_FAILURE))
            sig = r["crash_sig"] or crash_signature(r["stderr"])
            if sig == "crash:unclassified" and r["rc"] == 1:
                sig = "exit:process-exited-with-status-1-mid-case"
            cc = r["out"] + ".crashcase"
            if sig in known:
                out.known_hits[sig] = out.known_hits.get(sig, 0) + 1
                out.notes.append("sub-property %s shard %d stopped at known crash %s; the harness should exclude it by construction" % (job["prop"], job["shard"], sig))
            else:
                if os.path.exists(cc):
                    with open(cc, errors="replace") as f:
                        path = save_violation_case(pid, f.read())
                else:
                    path = save_violation_case(pid, "prop=%s\nnote=crash without captured case\nstderr=%s\n" % (job["prop"], r["stderr"][-2000:].replace("\n", "\\x0a")))
                if sig not in seen_sigs:
                    seen_sigs.add(sig)
                    out.add_violation(sig, r["stderr"].replace("\n", " | "), path)

    for p in per_prop.values():
        if p.get("hashes"):
            p["distinct_nontrivial"] += int(np.unique(np.concatenate(p.pop("hashes"))).size)
    out.evaluations = sum(p["evaluations"] for p in per_prop.values())
    out.distinct_nontrivial = sum(p["distinct_nontrivial"] for p in per_prop.values())
    for name, p in per_prop.items():
        for s in p["samples"][:3]:
            out.samples.append({"sub_property": name, "case": s})
        for n in p["notes"]:
            out.notes.append("%s: %s" % (name, n))
    out.extra["sub_properties"] = {n: {k: p[k] for k in ("evaluations", "nontrivial", "distinct_nontrivial", "labels", "exclusions")} for n, p in per_prop.items()}
    # generator-quality gates
    for g in meta.get("gates", []):
        p = per_prop.get(g["prop"])
        if not p or not p["evaluations"]:
            out.gates_unmet.append("%s: no evaluations" % g["prop"])
            continue
        frac = p["labels"].get(g["label"], 0) / float(p["evaluations"])
        if frac < g["min_frac"]:
            out.gates_unmet.append("%s label %s: %.4f < %.4f" % (g["prop"], g["label"], frac, g["min_frac"]))

    # 3. coverage-guided campaign (thorough tiers of byte-level parsers)
    if tp.get("fuzz_s"):
        run_fuzz(pid, meta, tp, seed, known, out)
    if tp.get("exhaustive"):
        out.exhaustive = True
    if tp.get("exhaustive_if"):
        # {"prop": P, "label": L, "not_label": N}: exhaustive only when every shard of P reported L and none N
        ei = tp["exhaustive_if"]
        lab = per_prop.get(ei["prop"], {}).get("labels", {})
        need = int(tp.get("prop_shards", {}).get(ei["prop"], shards))
        out.exhaustive = bool(lab.get(ei["label"], 0) >= need and not lab.get(ei.get("not_label", ""), 0)
                              and not out.violations)
    return out.finish() if finish else out


def run_fuzz(pid, meta, tp, seed, known, out):
    if meta.get("build") == "standalone":
        exe = build.build_standalone(pid, meta, [os.path.join(VERIF, "props", pid, "harness.cc")] + meta.get("sources", []), fuzz=True)
    else:
        exe = build.build_unit(pid, meta, fuzz=True)
    base = os.path.join(RUN, pid, "fuzz")
    shutil.rmtree(base, ignore_errors=True)
    jobs = int(tp.get("fuzz_jobs", NCPU))
    procs = []
    seed_corpus = os.path.join(VERIF, "props", pid, "corpus")
    for j in range(jobs):
        d = os.path.join(base, "j%d" % j)
        os.makedirs(os.path.join(d, "corpus"))
        os.makedirs(os.path.join(d, "art"))
        env = _env()
        env["VP_OUT"] = d
        env["VP_KNOWN"] = ",".join(sorted(known))
        cmd = [exe, "-seed=%d" % ((seed + j * 104729) % 2147483647 or 1), "-entropic=0", "-max_total_time=%d" % tp["fuzz_s"],
               "-max_len=%d" % tp.get("fuzz_max_len", 4096), "-artifact_prefix=%s/art/" % d, "-print_final_stats=1",
               "-rss_limit_mb=3000", "-timeout=30", os.path.join(d, "corpus")]
        if os.path.isdir(seed_corpus):
            cmd.append(seed_corpus)
        lf = open(os.path.join(d, "log"), "w")
        procs.append((subprocess.Popen(cmd, stdout=lf, stderr=subprocess.STDOUT, env=env), d, lf))
    execs = 0
    for p, d, lf in procs:
        p.wait()
        lf.close()
        with open(os.path.join(d, "log"), errors="replace") as f:
            txt = f.read()
        m = re.search(r"stat::number_of_executed_units:\s*(\d+)", txt)
        if m:
            execs += int(m.group(1))
        for sj in glob.glob(os.path.join(d, "stats-*.json")):
            try:
                with open(sj) as f:
                    res = json.load(f)
            except ValueError:
                continue
            for e in res.get("props", []):
                for k, v in e["known_hits"].items():
                    out.known_hits[k] = out.known_hits.get(k, 0) + v
                out.distinct_nontrivial += e["distinct_nontrivial"]
                if not m:
                    execs += e["evaluations"]
        arts = glob.glob(os.path.join(d, "art", "crash-*")) + glob.glob(os.path.join(d, "art", "leak-*"))
        noise = glob.glob(os.path.join(d, "art", "timeout-*")) + glob.glob(os.path.join(d, "art", "oom-*")) + glob.glob(os.path.join(d, "art", "slow-unit-*"))
        if noise:
            out.notes.append("libFuzzer load noise ignored: %d timeout/oom/slow-unit artefacts" % len(noise))
        if arts:
            cases = glob.glob(os.path.join(d, "violation-*.case")) + glob.glob(os.path.join(d, "crashcase-*"))
            rcexe = exe[:-5] + "-rc" if exe.endswith("-fuzz") else exe
            if cases:
                with open(cases[0], errors="replace") as f:
                    path = save_violation_case(pid, f.read())
                st, sig, detail = replay_file(rcexe, path, known)
                if st in ("fail", "crash"):
                    out.add_violation(sig, "found by libFuzzer: " + detail, path)
                elif st == "known":
                    out.known_hits[sig] = out.known_hits.get(sig, 0) + 1
                else:
                    out.notes.append("libFuzzer artefact did not reproduce through the replay driver: %s" % path)
            else:
                sig = crash_signature(txt)
                if sig in known:
                    out.known_hits[sig] = out.known_hits.get(sig, 0) + 1
                else:
                    dst = save_violation_case(pid, open(arts[0], "rb").read())
                    out.add_violation(sig, "libFuzzer crash artefact (raw input; run the fuzz binary on it)", dst)
    out.evaluations += execs
    out.extra["libfuzzer_executions"] = execs
    out.extra["libfuzzer_jobs"] = jobs
    out.extra["libfuzzer_seconds_per_job"] = tp["fuzz_s"]
