"""Builds the small native pieces: LD_PRELOAD shim and the helper relay."""
import os
import subprocess

from .common import BUILD, VERIF

NATIVE = os.path.join(BUILD, "native")
SHIM = os.path.join(NATIVE, "shim.so")
RELAY = os.path.join(NATIVE, "relay")


def _stale(dst, src):
    return not os.path.exists(dst) or os.path.getmtime(dst) < os.path.getmtime(src)


def build_all():
    os.makedirs(NATIVE, exist_ok=True)
    src = os.path.join(VERIF, "engine", "preload", "shim.c")
    if _stale(SHIM, src):
        subprocess.run(["gcc", "-O2", "-shared", "-fPIC", "-o", SHIM + ".tmp", src, "-ldl"], check=True)
        os.replace(SHIM + ".tmp", SHIM)
    src = os.path.join(VERIF, "engine", "preload", "relay.c")
    if _stale(RELAY, src):
        subprocess.run(["gcc", "-O2", "-o", RELAY + ".tmp", src], check=True)
        os.replace(RELAY + ".tmp", RELAY)
    os.chmod(NATIVE, 0o755)
    return SHIM, RELAY
