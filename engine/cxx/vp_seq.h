// vp_seq.h -- cheap generation of command sequences for stateful (model-based) harnesses.
//
// A Case that is a whole command sequence needs dozens of random draws.  Drawing each of them
// through its own rapidcheck generator costs several heap allocations per draw (slow under ASan).
// Here rapidcheck generates ONE value, a vector of 32-bit "entropy" words, and the harness decodes
// it deterministically with vp::Dice:
//
//     static Case decode(vp::Dice &d) { Case c; while (d.more() && c.cmds.size() < 40) c.cmds.push_back(...d.range(0,5)...); return c; }
//     vp::add<Case>("name", vp::fromEntropy<Case>(decode), check, show, parse, share, vp::fuzzFromEntropy<Case>(decode));
//
// * all randomness still comes from rapidcheck (seeded, reproducible);
// * rapidcheck shrinks the word vector (removes chunks, shrinks words towards 0), so decoders should
//   stop emitting commands when the dice run dry (d.more()) and put the "simplest" alternative at 0;
// * the same decoder is the libFuzzer decoder (input bytes = words).
// The sequence length follows rapidcheck's size (0..max_size words, times `scale`).
#pragma once

#include "verif_pbt.h"

#include <initializer_list>

#include <unistd.h>

namespace vp {

class Dice
{
public:
    explicit Dice(std::vector<uint32_t> words) : w_(std::move(words)) {}

    /// whether unread entropy is left (a dry dice returns 0 for everything)
    bool more() const { return i_ < w_.size(); }
    size_t left() const { return w_.size() - i_; }

    uint32_t word() { return i_ < w_.size() ? w_[i_++] : 0; }

    /// integer in [lo, hi], both inclusive
    long long range(long long lo, long long hi)
    {
        const uint32_t w = word();
        if (hi <= lo) return lo;
        return lo + static_cast<long long>(w % static_cast<uint64_t>(hi - lo + 1));
    }

    bool coin() { return (word() >> 7) & 1; }

    /// true with probability num/den
    bool chance(unsigned num, unsigned den) { return word() % den < num; }

    /// index chosen with the given relative weights
    size_t weighted(std::initializer_list<unsigned> weights)
    {
        unsigned total = 0;
        for (unsigned x : weights) total += x;
        unsigned r = total ? word() % total : 0;
        size_t i = 0;
        for (unsigned x : weights) {
            if (r < x) return i;
            r -= x;
            ++i;
        }
        return 0;
    }

    template <class T>
    T pick(std::initializer_list<T> xs)
    {
        const size_t k = word() % xs.size();
        return *(xs.begin() + k);
    }

    template <class T>
    const T &pickFrom(const std::vector<T> &xs) { return xs[word() % xs.size()]; }

private:
    std::vector<uint32_t> w_;
    size_t i_ = 0;
};

/// a vector of uniformly distributed 32-bit words whose length follows rapidcheck's size parameter
inline rc::Gen<std::vector<uint32_t>> entropy(double scale = 1.0)
{
    auto g = rc::gen::container<std::vector<uint32_t>>(rc::gen::resize(100, rc::gen::arbitrary<uint32_t>()));
    return scale == 1.0 ? g : rc::gen::scale(scale, g);
}

template <class Case>
rc::Gen<Case> fromEntropy(std::function<Case(Dice &)> decode, double scale = 1.0)
{
    return rc::gen::map(entropy(scale), [decode](std::vector<uint32_t> w) {
        Dice d(std::move(w));
        return decode(d);
    });
}

/// the same decoder as a libFuzzer decoder (nullptr in the rapidcheck build)
template <class Case>
std::function<Case(FuzzedDataProvider &)> fuzzFromEntropy(std::function<Case(Dice &)> decode)
{
#ifdef VP_FUZZ
    return [decode](FuzzedDataProvider &fdp) {
        const std::vector<uint8_t> raw = fdp.ConsumeRemainingBytes<uint8_t>();
        std::vector<uint32_t> w(raw.size() / 4);
        if (!w.empty()) memcpy(w.data(), raw.data(), w.size() * 4);
        Dice d(std::move(w));
        return decode(d);
    };
#else
    (void)decode;
    return nullptr;
#endif
}

/// Some link recipes contain STUB functions that call exit(EXIT_FAILURE) (tests/STUB.h), e.g. when an
/// assertion wants to log through a stubbed clock.  A harness process that exits with status 1 and no
/// result file is indistinguishable from "violation reported" for the runner, and the case is lost.
/// guardExit() turns an exit() in the middle of a case into a captured crash (case dumped, status 98).
inline void exitInsideCase()
{
    if (!current().show) return; // normal end of main()
    fprintf(stderr, "FATAL: exit() called while a case was being evaluated (stubbed fatal/assert path)\n");
    deathCallback();
    _exit(98);
}
inline void guardExit()
{
    (void)registry(); // construct these statics first, so that they are destroyed after our handler ran
    (void)current();
    atexit(exitInsideCase);
}

} // namespace vp
