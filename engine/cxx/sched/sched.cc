// sched.cc -- implementation of the E-sched fiber scheduler (see sched.h).
// This file never uses atomics itself; undo the renaming of the forced include.
#ifdef atomic
#undef atomic
#endif
#ifdef atomic_flag
#undef atomic_flag
#endif

#include "sched/sched.h"

#include <cassert>
#include <cstdio>
#include <cstdlib>
#include <cstring>
#include <exception>
#include <typeinfo>
#include <ucontext.h>

#if defined(__has_feature)
#if __has_feature(address_sanitizer)
#define SCHED_ASAN 1
#endif
#endif
#if defined(__SANITIZE_ADDRESS__) && !defined(SCHED_ASAN)
#define SCHED_ASAN 1
#endif

#ifdef SCHED_ASAN
#include <sanitizer/asan_interface.h>
#include <sanitizer/common_interface_defs.h>
#endif

namespace Sched {

namespace {

struct Fiber {
    ucontext_t ctx;
    char *stack = nullptr;
    size_t stackBytes = 0;
    const std::function<void()> *body = nullptr;
    bool done = false;
    bool blocked = false;
    uint64_t blockedAt = 0;
    void *fake = nullptr;
};

struct Engine {
    std::vector<Fiber *> pool; // stacks are kept between executions
    size_t n = 0;
    ucontext_t mainCtx;
    void *mainFake = nullptr;
    const void *mainBottom = nullptr;
    size_t mainBytes = 0;
    int cur = -1;
    int prev = -1;
    bool active = false;
    bool dirty = false; // an execution was abandoned: stacks carry stale ASan poison
    Strategy *strategy = nullptr;
    Outcome out;
    Limits lim;
    std::vector<int> runnable;
    uint64_t ops = 0; // operations executed or about to be (incremented when point() lets its caller go on)
};

Engine &E()
{
    static Engine e;
    return e;
}

void finishSwitch(int self)
{
#ifdef SCHED_ASAN
    Engine &e = E();
    const void *b = nullptr;
    size_t s = 0;
    __sanitizer_finish_switch_fiber(self < 0 ? e.mainFake : e.pool[self]->fake, &b, &s);
    if (e.prev < 0 && self >= 0 && !e.mainBottom) {
        e.mainBottom = b;
        e.mainBytes = s;
    }
#else
    (void)self;
#endif
}

/// transfers control; returns when somebody switches back to the caller
void switchTo(int to, bool dying)
{
    Engine &e = E();
    const int from = e.cur;
    if (to == from)
        return;
#ifdef SCHED_ASAN
    void **save = dying ? nullptr : (from < 0 ? &e.mainFake : &e.pool[from]->fake);
    if (to < 0)
        __sanitizer_start_switch_fiber(save, e.mainBottom, e.mainBytes);
    else
        __sanitizer_start_switch_fiber(save, e.pool[to]->stack, e.pool[to]->stackBytes);
#endif
    e.prev = from;
    e.cur = to;
    if (from >= 0 && to >= 0)
        ++e.out.switches;
    ucontext_t *fc = from < 0 ? &e.mainCtx : &e.pool[from]->ctx;
    ucontext_t *tc = to < 0 ? &e.mainCtx : &e.pool[to]->ctx;
    swapcontext(fc, tc);
    finishSwitch(from);
}

void noteChoice(int id)
{
    Engine &e = E();
    if (e.out.trace.size() < 2000)
        e.out.trace += static_cast<char>('0' + (id % 10));
}

/// others that called yieldBlocked() become runnable once any step was executed after that
void unblockOthers()
{
    Engine &e = E();
    for (size_t i = 0; i < e.n; ++i) {
        Fiber &f = *e.pool[i];
        if (f.blocked && e.ops > f.blockedAt)
            f.blocked = false;
    }
}

void collectRunnable(int except)
{
    Engine &e = E();
    e.runnable.clear();
    for (size_t i = 0; i < e.n; ++i) {
        const Fiber &f = *e.pool[i];
        if (static_cast<int>(i) != except && !f.done && !f.blocked)
            e.runnable.push_back(static_cast<int>(i));
    }
}

[[noreturn]] void abandon()
{
    Engine &e = E();
    e.dirty = true;
    switchTo(-1, true);
    abort(); // not reached: nobody resumes an abandoned process
}

/// the running process cannot continue (finished or blocked): hand over
void handOver(bool dying)
{
    Engine &e = E();
    unblockOthers();
    collectRunnable(e.cur);
    if (e.runnable.empty()) {
        bool allDone = true;
        for (size_t i = 0; i < e.n; ++i)
            if (!e.pool[i]->done)
                allDone = false;
        if (allDone) {
            switchTo(-1, dying);
            return;
        }
        e.out.stuck = true;
        abandon();
    }
    int next = e.runnable[0];
    if (e.runnable.size() > 1) {
        ++e.out.decisions;
        next = e.strategy->pick(-1, e.runnable);
        noteChoice(next);
    }
    switchTo(next, dying);
}

void trampoline()
{
    Engine &e = E();
    const int me = e.cur;
#ifdef SCHED_ASAN
    {
        const void *b = nullptr;
        size_t s = 0;
        __sanitizer_finish_switch_fiber(nullptr, &b, &s);
        if (e.prev < 0 && !e.mainBottom) {
            e.mainBottom = b;
            e.mainBytes = s;
        }
    }
#endif
    try {
        (*e.pool[me]->body)();
    } catch (const std::exception &ex) {
        if (!e.out.failed) {
            e.out.failed = true;
            e.out.failedIn = me;
            e.out.sig = std::string("uncaught:") + typeid(ex).name();
            e.out.detail = ex.what();
        }
    } catch (...) {
        if (!e.out.failed) {
            e.out.failed = true;
            e.out.failedIn = me;
            e.out.sig = "uncaught:unknown";
        }
    }
    e.pool[me]->done = true;
    if (e.out.failed)
        abandon();
    handOver(true);
    abort(); // not reached
}

} // namespace

int self() noexcept { return E().active ? E().cur : -1; }
bool active() noexcept { return E().active; }

void point() noexcept
{
    Engine &e = E();
    if (!e.active || e.cur < 0)
        return;
    unblockOthers();
    if (++e.out.steps > e.lim.maxSteps) {
        e.out.stepLimit = true;
        abandon();
    }
    collectRunnable(-1);
    if (e.runnable.size() >= 2) {
        ++e.out.decisions;
        const int next = e.strategy->pick(e.cur, e.runnable);
        noteChoice(next);
        if (next != e.cur) {
            ++e.out.preemptions;
            switchTo(next, false);
        }
    }
    ++e.ops; // the caller's operation happens now
}

bool spuriousFail() noexcept
{
    Engine &e = E();
    if (!e.active || e.cur < 0)
        return false;
    const bool f = e.strategy->spuriousFail();
    if (f)
        ++e.out.spurious;
    return f;
}

void yieldBlocked()
{
    Engine &e = E();
    if (!e.active || e.cur < 0)
        return;
    if (++e.out.steps > e.lim.maxSteps) {
        e.out.stepLimit = true;
        abandon();
    }
    Fiber &f = *e.pool[e.cur];
    f.blocked = true;
    f.blockedAt = e.ops;
    handOver(false);
}

bool failRun(const std::string &sig, const std::string &detail)
{
    Engine &e = E();
    if (!e.active || e.cur < 0)
        return false;
    if (!e.out.failed) {
        e.out.failed = true;
        e.out.failedIn = e.cur;
        e.out.sig = sig;
        e.out.detail = detail;
    }
    abandon();
}

Outcome run(const std::vector<std::function<void()>> &bodies, Strategy &strategy, const Limits &limits)
{
    Engine &e = E();
    if (e.active) {
        fprintf(stderr, "Sched::run is not re-entrant\n");
        abort();
    }
    e.n = bodies.size();
    e.lim = limits;
    e.out = Outcome();
    e.ops = 0;
    e.strategy = &strategy;
    while (e.pool.size() < e.n)
        e.pool.push_back(new Fiber());
    for (size_t i = 0; i < e.n; ++i) {
        Fiber &f = *e.pool[i];
        if (f.stackBytes != limits.stackBytes) {
            free(f.stack);
            f.stack = static_cast<char *>(aligned_alloc(4096, limits.stackBytes));
            f.stackBytes = limits.stackBytes;
        }
#ifdef SCHED_ASAN
        if (e.dirty)
            __asan_unpoison_memory_region(f.stack, f.stackBytes);
#endif
        f.body = &bodies[i];
        f.done = false;
        f.blocked = false;
        f.fake = nullptr;
        getcontext(&f.ctx);
        f.ctx.uc_stack.ss_sp = f.stack;
        f.ctx.uc_stack.ss_size = f.stackBytes;
        f.ctx.uc_link = nullptr;
        makecontext(&f.ctx, reinterpret_cast<void (*)()>(trampoline), 0);
    }
    e.dirty = false;
    if (e.n == 0)
        return e.out;
    e.active = true;
    e.cur = -1;
    collectRunnable(-1);
    int first = e.runnable[0];
    if (e.runnable.size() > 1) {
        ++e.out.decisions;
        first = strategy.pick(-1, e.runnable);
        noteChoice(first);
    }
    switchTo(first, false);
    // back in the main context: all finished or the execution was abandoned
    e.active = false;
    e.cur = -1;
    e.strategy = nullptr;
    return e.out;
}

// ------------------------------------------------------------------ strategies

int ChoiceStrategy::pick(int cur, const std::vector<int> &runnable)
{
    const unsigned c = pos < choices.size() ? choices[pos++] : 0;
    if (cur < 0)
        return runnable[c % runnable.size()];
    if (c == 0)
        return cur;
    const size_t k = (c - 1) % (runnable.size() - 1);
    size_t seen = 0;
    for (const int r : runnable) {
        if (r == cur)
            continue;
        if (seen++ == k)
            return r;
    }
    return cur;
}

int PctStrategy::pick(int cur, const std::vector<int> &runnable)
{
    if (prio.empty()) {
        for (size_t i = 0; i < 16; ++i)
            prio.push_back(i < initial.size() ? 100 + initial[i] : 100);
    }
    const unsigned d = decision++;
    if (cur >= 0) {
        for (const auto cp : changePoints) {
            if (cp == d) {
                prio[cur % 16] = --low;
                break;
            }
        }
    }
    int best = runnable[0];
    for (const int r : runnable) {
        // ties go to the current process, then to the lower id
        if (prio[r % 16] > prio[best % 16] || (prio[r % 16] == prio[best % 16] && r == cur))
            best = r;
    }
    return best;
}

unsigned DfsStrategy::decide(unsigned n, uint8_t kind)
{
    if (depth < stack.size()) {
        Node &nd = stack[depth];
        if (nd.count != n || nd.kind != kind)
            diverged = true;
        ++depth;
        return nd.chosen < n ? nd.chosen : 0;
    }
    stack.push_back(Node{0, static_cast<uint16_t>(n), kind});
    ++depth;
    return 0;
}

int DfsStrategy::pick(int cur, const std::vector<int> &runnable)
{
    if (cur < 0)
        return runnable[decide(static_cast<unsigned>(runnable.size()), 1)];
    if (usedP >= pBound)
        return cur;
    const unsigned c = decide(static_cast<unsigned>(runnable.size()), 0);
    if (c == 0)
        return cur;
    ++usedP;
    unsigned seen = 0;
    for (const int r : runnable) {
        if (r == cur)
            continue;
        if (++seen == c)
            return r;
    }
    return cur;
}

bool DfsStrategy::spuriousFail()
{
    if (usedS >= sBound)
        return false;
    if (decide(2, 2)) {
        ++usedS;
        return true;
    }
    return false;
}

bool DfsStrategy::next()
{
    // an execution that ended early (violation/abandon) did not reach the deeper recorded nodes
    stack.resize(std::min(stack.size(), depth));
    while (!stack.empty()) {
        Node &nd = stack.back();
        if (nd.chosen + 1 < nd.count) {
            ++nd.chosen;
            depth = 0;
            usedP = usedS = 0;
            return true;
        }
        stack.pop_back();
    }
    depth = 0;
    usedP = usedS = 0;
    return false;
}

std::string DfsStrategy::describe() const
{
    std::string s;
    for (size_t i = 0; i < stack.size() && i < depth; ++i) {
        const Node &nd = stack[i];
        s += (nd.kind == 2 ? 's' : nd.kind == 1 ? 'f' : 'p');
        s += std::to_string(nd.chosen);
        s += ' ';
    }
    return s;
}

} // namespace Sched
