// sched.h -- E-sched: controlled-schedule execution of logical processes (DESIGN.md 3.1).
//
// Logical processes are cooperative fibers (ucontext + ASan fiber annotations).  Exactly one
// runs at a time.  Sched::point() -- called by Verif::Atomic before every atomic operation and
// by harnesses inside their critical sections -- asks the Strategy who runs next.  The strategy
// is data (a vector of choices, a PCT priority schedule, or the DFS enumerator's prefix), so an
// execution is a deterministic function of (programs, schedule) and can be replayed exactly.
//
// Memory model explored: sequential consistency only (whole atomic operations interleave).
#ifndef VERIF_SCHED_H
#define VERIF_SCHED_H

#include <cstdint>
#include <functional>
#include <string>
#include <vector>

namespace Sched {

void point() noexcept;            ///< see sched_atomic.h
bool spuriousFail() noexcept;     ///< see sched_atomic.h

/// index of the running logical process, -1 outside a controlled run
int self() noexcept;
/// whether a controlled run is in progress
bool active() noexcept;

/// The running process cannot make progress until another process performs a step
/// (retry loop on a full queue, ...): somebody else is run; when nobody can run the
/// execution ends with Outcome::stuck.
void yieldBlocked();

/// Ends the whole execution with a violation (callable from any logical process: oracle
/// checks inside critical sections, the xassert()/fatal() stubs).  Does not return when
/// called inside a run; outside a run it records nothing and returns false.
bool failRun(const std::string &sig, const std::string &detail);

struct Strategy {
    virtual ~Strategy() {}
    /// `cur` = the running process when it could continue, else -1 (it finished or is blocked);
    /// `runnable` is sorted ascending, has >= 2 entries when cur >= 0 and >= 1 otherwise, and
    /// contains cur when cur >= 0.  Returns the process to run.
    virtual int pick(int cur, const std::vector<int> &runnable) = 0;
    virtual bool spuriousFail() { return false; }
};

/// schedule = vector of choices.  With a current process: 0 = continue, c>0 = pre-empt in
/// favour of the ((c-1) mod #others)-th other runnable process.  Without one: c mod #runnable.
/// An exhausted vector continues the current process / picks the lowest runnable id.
/// weak = one byte per compare_exchange_weak executed: non-zero = fail spuriously.
struct ChoiceStrategy : Strategy {
    ChoiceStrategy(const std::vector<uint8_t> &c, const std::vector<uint8_t> &w) : choices(c), weak(w) {}
    int pick(int cur, const std::vector<int> &runnable) override;
    bool spuriousFail() override { return wpos < weak.size() ? weak[wpos++] != 0 : false; }
    const std::vector<uint8_t> &choices;
    const std::vector<uint8_t> &weak;
    size_t pos = 0, wpos = 0;
};

/// PCT-style schedule (Burckhardt et al.): every process has a priority, the runnable process
/// with the highest priority runs; at the listed decision indices the running process drops
/// below everybody else.
struct PctStrategy : Strategy {
    PctStrategy(const std::vector<uint8_t> &prio, const std::vector<uint16_t> &changes, const std::vector<uint8_t> &w)
        : initial(prio), changePoints(changes), weak(w) {}
    int pick(int cur, const std::vector<int> &runnable) override;
    bool spuriousFail() override { return wpos < weak.size() ? weak[wpos++] != 0 : false; }
    const std::vector<uint8_t> &initial;
    const std::vector<uint16_t> &changePoints;
    const std::vector<uint8_t> &weak;
    std::vector<int> prio;
    unsigned decision = 0;
    int low = 0;
    size_t wpos = 0;
};

/// Stateless depth-first enumeration of all schedules up to a pre-emption bound
/// (and a bound on spurious compare_exchange_weak failures): run, then next() until false.
struct DfsStrategy : Strategy {
    DfsStrategy(unsigned preemptionBound, unsigned spuriousBound) : pBound(preemptionBound), sBound(spuriousBound) {}
    int pick(int cur, const std::vector<int> &runnable) override;
    bool spuriousFail() override;
    /// prepares the next unexplored schedule; false when the bounded space is complete
    bool next();
    /// the choices of the execution just run, as a ChoiceStrategy-compatible description
    std::string describe() const;

    struct Node { uint16_t chosen, count; uint8_t kind; }; // kind 0 = pre-emption choice, 1 = free choice, 2 = spurious
    std::vector<Node> stack;
    size_t depth = 0;
    unsigned pBound, sBound, usedP = 0, usedS = 0;
    bool diverged = false; ///< replaying the prefix met a different number of options (non-deterministic harness)
private:
    unsigned decide(unsigned n, uint8_t kind);
};

struct Limits {
    uint64_t maxSteps = 20000; ///< scheduling points per execution; more = Outcome::stepLimit (inconclusive)
    size_t stackBytes = 256 * 1024;
};

struct Outcome {
    bool failed = false;      ///< failRun() was called / a process threw
    std::string sig, detail;
    bool stepLimit = false;   ///< abandoned: too many steps (never a violation by itself)
    bool stuck = false;       ///< abandoned: every unfinished process is in yieldBlocked()
    uint64_t steps = 0;
    unsigned decisions = 0;   ///< points where >= 2 processes could run
    unsigned preemptions = 0; ///< decisions that switched away from a process that could continue
    unsigned switches = 0;    ///< context switches between processes
    unsigned spurious = 0;
    int failedIn = -1;
    std::string trace;        ///< process id chosen at each decision (first 2000)
    bool completed() const { return !failed && !stepLimit && !stuck; }
};

/// Runs the bodies as logical processes 0..n-1 under the strategy until all finish
/// (or the execution is abandoned).  Not re-entrant.
Outcome run(const std::vector<std::function<void()>> &bodies, Strategy &strategy, const Limits &limits = Limits());

} // namespace Sched

#endif
