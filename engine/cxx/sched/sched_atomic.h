// sched_atomic.h -- forced include (-include) for the E-sched harnesses (C53..C56).
//
// Compiles the *unchanged* Squid sources against a scheduler-controlled atomic:
//   1. every standard header that mentions std::atomic is included first (with the real one);
//   2. Verif::Atomic<T> / Verif::AtomicFlag are defined: same layout as std::atomic<T> /
//      std::atomic_flag (they contain exactly one), every operation first calls Sched::point();
//   3. `atomic` and `atomic_flag` are #defined to names that resolve (inside namespace std as
//      well) to those classes, so `std::atomic<uint32_t> readers;` in the Squid headers
//      declares a Verif::Atomic<uint32_t>.
// Memory model: all operations are executed sequentially consistent (memory_order arguments
// are accepted and ignored); the scheduler interleaves whole atomic operations.
#ifndef VERIF_SCHED_ATOMIC_H
#define VERIF_SCHED_ATOMIC_H

#ifdef __cplusplus

#include <algorithm>
#include <any>
#include <array>
#include <atomic>
#include <bitset>
#include <chrono>
#include <condition_variable>
#include <deque>
#include <exception>
#include <fstream>
#include <functional>
#include <future>
#include <iomanip>
#include <iostream>
#include <iterator>
#include <limits>
#include <list>
#include <locale>
#include <map>
#include <memory>
#include <memory_resource>
#include <mutex>
#include <numeric>
#include <optional>
#include <queue>
#include <random>
#include <regex>
#include <set>
#include <shared_mutex>
#include <sstream>
#include <stack>
#include <stdexcept>
#include <string>
#include <thread>
#include <tuple>
#include <typeinfo>
#include <unordered_map>
#include <unordered_set>
#include <utility>
#include <variant>
#include <vector>

namespace Sched {
/// scheduling point: the scheduler may switch to another logical process here.
/// A no-op outside a controlled run (e.g. while the harness sets up shared state).
void point() noexcept;
/// whether the compare_exchange_weak() being executed fails spuriously (generator-controlled, bounded)
bool spuriousFail() noexcept;
}

namespace Verif {

template <class T>
struct Atomic {
    typedef T value_type;
    std::atomic<T> a_;

    Atomic() noexcept = default;
    constexpr Atomic(T v) noexcept : a_(v) {}
    Atomic(const Atomic &) = delete;
    Atomic &operator=(const Atomic &) = delete;

    static constexpr bool is_always_lock_free = std::atomic<T>::is_always_lock_free;
    bool is_lock_free() const noexcept { return a_.is_lock_free(); }

    T operator=(T v) noexcept { store(v); return v; }
    operator T() const noexcept { return load(); }

    void store(T v, std::memory_order = std::memory_order_seq_cst) noexcept { Sched::point(); a_.store(v); }
    T load(std::memory_order = std::memory_order_seq_cst) const noexcept { Sched::point(); return a_.load(); }
    T exchange(T v, std::memory_order = std::memory_order_seq_cst) noexcept { Sched::point(); return a_.exchange(v); }

    bool compare_exchange_strong(T &e, T d, std::memory_order = std::memory_order_seq_cst) noexcept { Sched::point(); return a_.compare_exchange_strong(e, d); }
    bool compare_exchange_strong(T &e, T d, std::memory_order, std::memory_order) noexcept { Sched::point(); return a_.compare_exchange_strong(e, d); }
    bool compare_exchange_weak(T &e, T d, std::memory_order = std::memory_order_seq_cst) noexcept
    {
        Sched::point();
        if (Sched::spuriousFail()) { e = a_.load(); return false; }
        return a_.compare_exchange_strong(e, d);
    }
    bool compare_exchange_weak(T &e, T d, std::memory_order, std::memory_order) noexcept { return compare_exchange_weak(e, d); }

    // integral-only operations (instantiated only when used)
    T fetch_add(T v, std::memory_order = std::memory_order_seq_cst) noexcept { Sched::point(); return a_.fetch_add(v); }
    T fetch_sub(T v, std::memory_order = std::memory_order_seq_cst) noexcept { Sched::point(); return a_.fetch_sub(v); }
    T fetch_and(T v, std::memory_order = std::memory_order_seq_cst) noexcept { Sched::point(); return a_.fetch_and(v); }
    T fetch_or(T v, std::memory_order = std::memory_order_seq_cst) noexcept { Sched::point(); return a_.fetch_or(v); }
    T fetch_xor(T v, std::memory_order = std::memory_order_seq_cst) noexcept { Sched::point(); return a_.fetch_xor(v); }
    T operator++() noexcept { return static_cast<T>(fetch_add(1) + 1); }
    T operator++(int) noexcept { return fetch_add(1); }
    T operator--() noexcept { return static_cast<T>(fetch_sub(1) - 1); }
    T operator--(int) noexcept { return fetch_sub(1); }
    T operator+=(T v) noexcept { return static_cast<T>(fetch_add(v) + v); }
    T operator-=(T v) noexcept { return static_cast<T>(fetch_sub(v) - v); }
    T operator&=(T v) noexcept { return static_cast<T>(fetch_and(v) & v); }
    T operator|=(T v) noexcept { return static_cast<T>(fetch_or(v) | v); }
    T operator^=(T v) noexcept { return static_cast<T>(fetch_xor(v) ^ v); }
};

struct AtomicFlag {
    std::atomic_flag f_;
    AtomicFlag() noexcept = default;
    AtomicFlag(const AtomicFlag &) = delete;
    AtomicFlag &operator=(const AtomicFlag &) = delete;
    bool test_and_set(std::memory_order = std::memory_order_seq_cst) noexcept { Sched::point(); return f_.test_and_set(); }
    void clear(std::memory_order = std::memory_order_seq_cst) noexcept { Sched::point(); f_.clear(); }
};

} // namespace Verif

static_assert(sizeof(Verif::Atomic<unsigned long long>) == sizeof(std::atomic<unsigned long long>), "layout");
static_assert(sizeof(Verif::Atomic<bool>) == sizeof(std::atomic<bool>), "layout");
static_assert(sizeof(Verif::AtomicFlag) == sizeof(std::atomic_flag), "layout");

namespace std {
template <class T> using verif_atomic = ::Verif::Atomic<T>;
using verif_atomic_flag = ::Verif::AtomicFlag;
}
template <class T> using verif_atomic = ::Verif::Atomic<T>;
using verif_atomic_flag = ::Verif::AtomicFlag;

#define atomic verif_atomic
#define atomic_flag verif_atomic_flag

#endif /* __cplusplus */
#endif /* VERIF_SCHED_ATOMIC_H */
