// sched_stubs.cc -- process-level services the IPC sources call, for the E-sched harnesses.
// None of this is logic under test: assertion failures and fatal() inside a controlled run end
// the execution with a violation (so that rapidcheck can shrink programs and schedule);
// outside a run they abort the process in the format engine/vlib/unit.py classifies.
#include "squid.h"
#include "fatal.h"
#include "sched/sched.h"

#include <cstdarg>
#include <cstdio>
#include <cstdlib>
#include <cstring>

static const char *baseName(const char *path)
{
    const char *s = strrchr(path, '/');
    return s ? s + 1 : path;
}

void xassert(const char *expr, const char *file, int line)
{
    std::string e(expr);
    for (auto &c : e)
        if (c == ' ')
            c = '_';
    const std::string sig = std::string("assert:") + baseName(file) + ":" + e.substr(0, 60);
    const std::string detail = std::string("assertion failed: ") + file + ":" + std::to_string(line) + ": \"" + expr + "\"";
    Sched::failRun(sig, detail); // does not return inside a controlled run
    fprintf(stderr, "%s\n", detail.c_str());
    abort();
}

void fatal(const char *message)
{
    std::string m(message ? message : "");
    const std::string detail = "FATAL: " + m;
    for (auto &c : m)
        if (c == ' ')
            c = '_';
    Sched::failRun("fatal:" + m.substr(0, 80), detail);
    fprintf(stderr, "%s\n", detail.c_str());
    abort();
}

void fatalf(const char *fmt, ...)
{
    char buf[1024];
    va_list ap;
    va_start(ap, fmt);
    vsnprintf(buf, sizeof buf, fmt, ap);
    va_end(ap);
    fatal(buf);
}

void fatal_dump(const char *message)
{
    fatal(message);
}

class StoreEntry;
void storeAppendPrintf(StoreEntry *, const char *, ...)
{
}

// compat/xalloc.cc reports allocation failures through this hook when it is set
void (*failure_notify)(const char *) = nullptr;
