// sched_stub_segment.cc -- Ipc::Mem::Segment backed by ordinary (zero-filled) heap memory with a
// name registry, for the E-sched harnesses: all logical processes live in one address space,
// so "shared memory" is memory they all see.  create() registers a zero-filled block under the
// segment id (a fresh POSIX shm segment is zero-filled by ftruncate), open() finds it again.
// Nothing of the logic under test lives here.
#include "squid.h"
#include "base/TextException.h"
#include "ipc/mem/Segment.h"
#include "sbuf/SBuf.h"

#include <cstdlib>
#include <cstring>
#include <map>
#include <string>

namespace {
struct Block {
    void *mem = nullptr;
    off_t size = 0;
};
std::map<std::string, Block> &registry()
{
    static std::map<std::string, Block> r;
    return r;
}
}

const char *Ipc::Mem::Segment::BasePath = "/verif-sched";

SBuf
Ipc::Mem::Segment::Name(const SBuf &prefix, const char *suffix)
{
    SBuf result = prefix;
    result.append("_");
    result.append(suffix);
    return result;
}

Ipc::Mem::Segment::Segment(const char *const id):
    theFD(-1), theName(id), theMem(nullptr),
    theSize(0), theReserved(0), doUnlink(false)
{
}

Ipc::Mem::Segment::~Segment()
{
    if (doUnlink && theMem) {
        registry().erase(theName.termedBuf());
        free(theMem);
    }
}

bool
Ipc::Mem::Segment::Enabled()
{
    return true;
}

void
Ipc::Mem::Segment::create(const off_t aSize)
{
    Must(aSize > 0);
    Must(!theMem);
    const std::string key(theName.termedBuf());
    auto &r = registry();
    const auto old = r.find(key);
    if (old != r.end()) { // as createFresh(): a stale segment with the same name is replaced
        free(old->second.mem);
        r.erase(old);
    }
    theMem = calloc(1, static_cast<size_t>(aSize) + 64);
    Must(theMem);
    theSize = aSize;
    theReserved = 0;
    doUnlink = true;
    r[key] = Block{theMem, aSize};
}

void
Ipc::Mem::Segment::open(const bool)
{
    Must(!theMem);
    const auto it = registry().find(theName.termedBuf());
    if (it == registry().end())
        throw TextException("Ipc::Mem::Segment::open: no such (stub) segment", Here());
    theMem = it->second.mem;
    theSize = it->second.size;
    theReserved = 0;
    doUnlink = false; // the creator frees the block
}

void *
Ipc::Mem::Segment::reserve(size_t chunkSize)
{
    Must(theMem);
    // check for overflows, as the real implementation does
    Must(static_cast<off_t>(chunkSize) >= 0);
    Must(static_cast<off_t>(chunkSize) <= theSize);
    Must(theReserved <= theSize - static_cast<off_t>(chunkSize));
    void *result = reinterpret_cast<char *>(theMem) + theReserved;
    theReserved += static_cast<off_t>(chunkSize);
    return result;
}
