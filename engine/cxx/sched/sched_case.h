// sched_case.h -- the schedule half of an E-sched case: generator, text form, strategy factory,
// and the bounded depth-first enumerator used by the "dfs"/"exhaustive" sub-properties.
// Include this AFTER the Squid headers of the code under test (it switches the atomic renaming
// of sched_atomic.h off for the rest of the translation unit, so rapidcheck and the driver see
// the real std::atomic).
#ifndef VERIF_SCHED_CASE_H
#define VERIF_SCHED_CASE_H

#ifdef atomic
#undef atomic
#endif
#ifdef atomic_flag
#undef atomic_flag
#endif

#include "sched/sched.h"
#include "verif_pbt.h"

#include <memory>

namespace vs {

struct Schedule {
    int kind = 0;                  ///< 0 = vector of choices (random walk), 1 = PCT priorities
    std::vector<uint8_t> choices;  ///< kind 0
    std::vector<uint8_t> prio;     ///< kind 1: initial priority per process
    std::vector<uint16_t> changes; ///< kind 1: decision indices where the running process drops to the bottom
    std::vector<uint8_t> weak;     ///< spurious compare_exchange_weak failures, one byte per call (bounded by length)
};

template <class V>
inline std::string joinNums(const V &v)
{
    std::string s;
    for (size_t i = 0; i < v.size(); ++i) {
        if (i) s += ',';
        s += std::to_string(static_cast<unsigned>(v[i]));
    }
    return s;
}

template <class T>
inline std::vector<T> splitNums(const std::string &s)
{
    std::vector<T> v;
    size_t i = 0;
    while (i < s.size()) {
        size_t j = s.find(',', i);
        if (j == std::string::npos) j = s.size();
        if (j > i) v.push_back(static_cast<T>(strtoul(s.substr(i, j - i).c_str(), nullptr, 10)));
        i = j + 1;
    }
    return v;
}

inline void showSchedule(vp::Writer &w, const Schedule &s)
{
    w.i("sched.kind", s.kind);
    if (s.kind == 0) {
        w.s("sched.choices", joinNums(s.choices));
    } else {
        w.s("sched.prio", joinNums(s.prio));
        w.s("sched.changes", joinNums(s.changes));
    }
    w.s("sched.weak", joinNums(s.weak));
}

inline Schedule parseSchedule(const vp::Reader &r)
{
    Schedule s;
    s.kind = static_cast<int>(r.i("sched.kind"));
    s.choices = splitNums<uint8_t>(r.s("sched.choices"));
    s.prio = splitNums<uint8_t>(r.s("sched.prio"));
    s.changes = splitNums<uint16_t>(r.s("sched.changes"));
    s.weak = splitNums<uint8_t>(r.s("sched.weak"));
    return s;
}

/// nprocs logical processes; an execution is expected to meet about `decisions` decision points;
/// maxWeak = bound on generated spurious compare_exchange_weak failures (0: none)
inline rc::Gen<Schedule> genSchedule(int nprocs, int decisions, int maxWeak)
{
    return rc::gen::exec([=]() {
        Schedule s;
        s.kind = *vp::range<int>(0, 3) == 0 ? 1 : 0;
        if (s.kind == 0) {
            // pre-emption density varies per case: from "almost sequential" to "switch all the time"
            const int density = *vp::range<int>(0, 3);
            const int stay = density == 0 ? 24 : density == 1 ? 10 : density == 2 ? 4 : 1;
            const auto one = rc::gen::weightedElement<uint8_t>({{static_cast<size_t>(stay), uint8_t(0)}, {2, uint8_t(1)}, {1, uint8_t(2)}, {1, uint8_t(3)}});
            const size_t n = static_cast<size_t>(*vp::range<int>(0, decisions));
            s.choices = *rc::gen::container<std::vector<uint8_t>>(n, one);
        } else {
            s.prio = *rc::gen::container<std::vector<uint8_t>>(static_cast<size_t>(nprocs), vp::range<uint8_t>(0, 7));
            const size_t d = static_cast<size_t>(*vp::range<int>(0, 3));
            s.changes = *rc::gen::container<std::vector<uint16_t>>(d, vp::range<uint16_t>(0, static_cast<uint16_t>(decisions)));
        }
        if (maxWeak > 0 && *vp::range<int>(0, 2) == 0) {
            const size_t n = static_cast<size_t>(*vp::range<int>(1, maxWeak));
            s.weak = *rc::gen::container<std::vector<uint8_t>>(n, rc::gen::weightedElement<uint8_t>({{2, uint8_t(0)}, {1, uint8_t(1)}}));
        }
        return s;
    });
}

inline std::unique_ptr<Sched::Strategy> makeStrategy(const Schedule &s)
{
    if (s.kind == 1)
        return std::unique_ptr<Sched::Strategy>(new Sched::PctStrategy(s.prio, s.changes, s.weak));
    return std::unique_ptr<Sched::Strategy>(new Sched::ChoiceStrategy(s.choices, s.weak));
}

/// what one controlled execution (setup + Sched::run + post-run checks) reports
struct Exec {
    bool ok = true;
    std::string sig, detail;
    bool inconclusive = false; ///< step limit / stuck: not judged
    Sched::Outcome outcome;
};

/// signatures listed as known findings for this run (the driver's --known argument): the
/// enumerators keep exploring behind executions that fail with one of them
inline const std::set<std::string> &knownSignatures()
{
    static const std::set<std::string> known = [] {
        std::set<std::string> k;
        std::ifstream f("/proc/self/cmdline", std::ios::binary);
        std::vector<std::string> args;
        std::string cur;
        char c;
        while (f.get(c)) {
            if (c == '\0') { args.push_back(cur); cur.clear(); }
            else cur += c;
        }
        if (!cur.empty()) args.push_back(cur);
        for (size_t i = 0; i + 1 < args.size(); ++i)
            if (args[i] == "--known") k = vp::splitCsv(args[i + 1]);
        return k;
    }();
    return known;
}

struct Explored {
    uint64_t knownFailures = 0; ///< executions that failed with a known-finding signature (exploration continued)
    std::string knownSig, knownDetail;
    uint64_t executions = 0;
    uint64_t inconclusive = 0;
    bool complete = false; ///< the whole bounded schedule space was visited
    bool failed = false;
    bool diverged = false; ///< the harness was not deterministic under a replayed prefix (a harness bug)
    std::string sig, detail;
    unsigned maxDecisions = 0;
    uint64_t preempted = 0; ///< executions with at least one pre-emption
};

/// Visits every schedule of one program up to the bounds (or stops at maxExecutions / first failure).
/// runOne(strategy) must rebuild all shared state from scratch.
template <class RunOne>
Explored exploreAll(RunOne runOne, unsigned preemptionBound, unsigned spuriousBound, uint64_t maxExecutions)
{
    Explored ex;
    Sched::DfsStrategy dfs(preemptionBound, spuriousBound);
    for (;;) {
        const Exec e = runOne(dfs);
        ++ex.executions;
        if (e.inconclusive) ++ex.inconclusive;
        if (e.outcome.preemptions) ++ex.preempted;
        ex.maxDecisions = std::max(ex.maxDecisions, e.outcome.decisions);
        if (dfs.diverged) {
            ex.diverged = true;
            return ex;
        }
        if (!e.ok && knownSignatures().count(e.sig)) {
            if (!ex.knownFailures++) {
                ex.knownSig = e.sig;
                ex.knownDetail = e.detail + " [dfs schedule: " + dfs.describe() + "; chosen processes: " + e.outcome.trace + "]";
            }
        } else if (!e.ok) {
            ex.failed = true;
            ex.sig = e.sig;
            ex.detail = e.detail + " [dfs schedule: " + dfs.describe() + "; chosen processes: " + e.outcome.trace + "]";
            return ex;
        }
        if (!dfs.next()) {
            ex.complete = true;
            return ex;
        }
        if (ex.executions >= maxExecutions)
            return ex;
    }
}

inline long envInt(const char *name, long dflt)
{
    const char *v = getenv(name);
    return v && *v ? atol(v) : dflt;
}

/// when this process (one sub-property per process under engine/vlib/unit.py) will have used
/// 90% of VP_BUDGET_S, counted from its first call (0 = no budget given); only consulted to
/// SKIP work (counted as exclusion / "space-incomplete"), never to judge
inline double budgetDeadline()
{
    static const double start = vp::nowS();
    static const double budget = static_cast<double>(envInt("VP_BUDGET_S", 0));
    return budget > 0 ? start + 0.9 * budget : 0;
}

inline bool pastBudget()
{
    const double d = budgetDeadline();
    return d > 0 && vp::nowS() > d;
}

} // namespace vs

#endif
