// verif_pbt.h -- shared driver for the in-process (E-unit / E-sched) harnesses.
//
// A harness registers one or more *sub-properties*:
//     vp::add<Case>("name", gen, check, show, parse [, fuzzDecode]);
// and ends with   int main(int c, char **v) { registerAll(); return vp::main(c, v); }
//
//   gen    : rc::Gen<Case>                      -- the domain
//   check  : Verdict(const Case&, vp::Ctx&)     -- the oracle (must be deterministic)
//   show   : std::string(const Case&)           -- replay-file body (text, line based)
//   parse  : Case(const std::string&)           -- inverse of show
//
// Modes (selected by the ./check CLI, never by hand-edited harness code):
//   --run    --out F --seed N --cases N --max-size S --budget-s T [--known a,b] [--only p]
//   --replay FILE [--known a,b]
// With -DVP_FUZZ the same registration also provides LLVMFuzzerTestOneInput.
//
// All randomness comes from rapidcheck generators; the run is a function of the
// tree and the seed.  A violation whose signature is listed as known is counted
// and treated as a pass so that the search continues behind it.
#pragma once

#include <rapidcheck.h>

#include <algorithm>
#include <chrono>
#include <cstdint>
#include <cstdio>
#include <cstdlib>
#include <cstring>
#include <fstream>
#include <functional>
#include <map>
#include <memory>
#include <set>
#include <sstream>
#include <string>
#include <unordered_set>
#include <vector>

#ifdef VP_FUZZ
#include <fuzzer/FuzzedDataProvider.h>
#else
class FuzzedDataProvider;
#endif

extern "C" void __sanitizer_set_death_callback(void (*)(void));

namespace vp {

// ---------------------------------------------------------------- text helpers

inline std::string esc(const std::string &s)
{
    static const char *hex = "0123456789abcdef";
    std::string o;
    o.reserve(s.size() + 8);
    for (unsigned char c : s) {
        if (c == '\\') o += "\\\\";
        else if (c >= 0x20 && c < 0x7f) o += static_cast<char>(c);
        else { o += "\\x"; o += hex[c >> 4]; o += hex[c & 15]; }
    }
    return o;
}

inline int hexval(char c)
{
    if (c >= '0' && c <= '9') return c - '0';
    if (c >= 'a' && c <= 'f') return c - 'a' + 10;
    if (c >= 'A' && c <= 'F') return c - 'A' + 10;
    return 0;
}

inline std::string unesc(const std::string &s)
{
    std::string o;
    for (size_t i = 0; i < s.size(); ++i) {
        if (s[i] == '\\' && i + 1 < s.size()) {
            if (s[i + 1] == '\\') { o += '\\'; ++i; }
            else if (s[i + 1] == 'x' && i + 3 < s.size()) {
                o += static_cast<char>(hexval(s[i + 2]) * 16 + hexval(s[i + 3]));
                i += 3;
            } else o += s[i];
        } else o += s[i];
    }
    return o;
}

inline std::string jsonStr(const std::string &s)
{
    std::string o = "\"";
    char buf[8];
    for (unsigned char c : s) {
        if (c == '"') o += "\\\"";
        else if (c == '\\') o += "\\\\";
        else if (c < 0x20 || c >= 0x7f) { snprintf(buf, sizeof buf, "\\u%04x", c); o += buf; }
        else o += static_cast<char>(c);
    }
    return o + "\"";
}

/// line-based key=value writer; repeated keys form lists
class Writer
{
public:
    Writer &s(const std::string &k, const std::string &v) { os_ << k << '=' << esc(v) << '\n'; return *this; }
    Writer &i(const std::string &k, long long v) { os_ << k << '=' << v << '\n'; return *this; }
    Writer &u(const std::string &k, unsigned long long v) { os_ << k << '=' << v << '\n'; return *this; }
    std::string str() const { return os_.str(); }
private:
    std::ostringstream os_;
};

class Reader
{
public:
    explicit Reader(const std::string &text)
    {
        std::istringstream is(text);
        std::string line;
        while (std::getline(is, line)) {
            const auto eq = line.find('=');
            if (eq == std::string::npos) continue;
            kv_[line.substr(0, eq)].push_back(line.substr(eq + 1));
            order_.emplace_back(line.substr(0, eq), line.substr(eq + 1));
        }
    }
    bool has(const std::string &k) const { return kv_.count(k) > 0; }
    size_t count(const std::string &k) const { auto it = kv_.find(k); return it == kv_.end() ? 0 : it->second.size(); }
    std::string s(const std::string &k, size_t idx = 0) const
    {
        auto it = kv_.find(k);
        if (it == kv_.end() || idx >= it->second.size()) return std::string();
        return unesc(it->second[idx]);
    }
    long long i(const std::string &k, size_t idx = 0) const
    {
        auto it = kv_.find(k);
        if (it == kv_.end() || idx >= it->second.size()) return 0;
        return strtoll(it->second[idx].c_str(), nullptr, 10);
    }
    unsigned long long u(const std::string &k, size_t idx = 0) const
    {
        auto it = kv_.find(k);
        if (it == kv_.end() || idx >= it->second.size()) return 0;
        return strtoull(it->second[idx].c_str(), nullptr, 10);
    }
    /// all (key, raw value) pairs in file order -- for sequences of heterogeneous commands
    const std::vector<std::pair<std::string, std::string>> &ordered() const { return order_; }
private:
    std::map<std::string, std::vector<std::string>> kv_;
    std::vector<std::pair<std::string, std::string>> order_;
};

// ---------------------------------------------------------------- verdicts and statistics

struct Verdict {
    bool ok = true;
    std::string sig;    ///< stable classification of the failure (known-findings key)
    std::string detail; ///< free text
};
inline Verdict pass() { return Verdict(); }
inline Verdict fail(std::string sig, std::string detail = std::string()) { return Verdict{false, std::move(sig), std::move(detail)}; }

inline uint64_t fnv(const std::string &s)
{
    uint64_t h = 1469598103934665603ULL;
    for (unsigned char c : s) { h ^= c; h *= 1099511628211ULL; }
    return h;
}

class Ctx
{
public:
    void label(const std::string &l) { ++labels[l]; }
    void label(const char *l) { ++labels[l]; }
    void nontrivial() { nontrivialFlag = true; }
    /// a case the oracle deliberately does not judge (counted)
    void excluded(const std::string &why) { ++exclusions[why]; }

    // --- filled by the driver
    bool nontrivialFlag = false;
    uint64_t evaluations = 0;
    uint64_t nontrivialCount = 0;
    std::unordered_set<uint64_t> distinct;
    bool distinctSaturated = false;
    std::map<std::string, uint64_t> labels;
    std::map<std::string, uint64_t> exclusions;
    std::map<std::string, uint64_t> knownHits;
    std::map<std::string, std::string> knownExample;
    std::vector<std::string> samples;
};

struct Options {
    std::string mode;
    std::string out;
    std::string replayFile;
    std::string only;
    std::set<std::string> known;
    uint64_t seed = 1;
    uint64_t cases = 1000;
    int maxSize = 100;
    double budgetS = 60;
    int batch = 1000;
};

struct Failure {
    bool present = false;
    std::string sig, detail, caseText;
};

struct AnyProp {
    std::string name;
    double share = 1.0;
    std::function<void(const Options &, uint64_t target, double deadlineS, Ctx &, Failure &, std::string &note)> run;
    std::function<Verdict(const std::string &caseText, Ctx &)> replay;
    std::function<Verdict(FuzzedDataProvider &, Ctx &, std::string &caseText)> fuzzOne; // may be empty
};

inline std::vector<AnyProp> &registry() { static std::vector<AnyProp> r; return r; }

// --- crash capture: the case being evaluated is dumped when a sanitizer kills us
struct Current {
    std::function<std::string()> show;
    std::string prop;
    std::string crashPath;
};
inline Current &current() { static Current c; return c; }

inline void deathCallback()
{
    Current &c = current();
    if (c.crashPath.empty() || !c.show) return;
    static bool busy = false;
    if (busy) return;
    busy = true;
    std::string text;
    try { text = c.show(); } catch (...) { text = "unprintable\n"; }
    FILE *f = fopen(c.crashPath.c_str(), "w");
    if (!f) return;
    fprintf(f, "prop=%s\n%s", c.prop.c_str(), text.c_str());
    fclose(f);
}

inline void abortHandler(int sig)
{
    deathCallback();
    signal(sig, SIG_DFL);
    raise(sig);
}

inline double nowS()
{
    using namespace std::chrono;
    return duration<double>(steady_clock::now().time_since_epoch()).count();
}

inline void noteCase(Ctx &ctx, const std::function<std::string()> &show)
{
    ++ctx.evaluations;
    if (!ctx.nontrivialFlag) return;
    ++ctx.nontrivialCount;
    const bool wantSample = ctx.samples.size() < 6 || (ctx.nontrivialCount & (ctx.nontrivialCount - 1)) == 0;
    if (ctx.distinctSaturated && !wantSample) return;
    const std::string text = show();
    if (!ctx.distinctSaturated) {
        ctx.distinct.insert(fnv(text));
        if (ctx.distinct.size() >= 4000000) ctx.distinctSaturated = true;
    }
    if (wantSample) {
        std::string t = text.size() > 600 ? text.substr(0, 600) + "..." : text;
        if (ctx.samples.size() < 6) ctx.samples.push_back(t);
        else ctx.samples[3 + (ctx.nontrivialCount % 3)] = t; // keep early ones, rotate the rest
    }
}

template <class Case>
void add(const std::string &name,
         rc::Gen<Case> gen,
         std::function<Verdict(const Case &, Ctx &)> check,
         std::function<std::string(const Case &)> show,
         std::function<Case(const std::string &)> parse,
         double share = 1.0,
         std::function<Case(FuzzedDataProvider &)> fuzzDecode = nullptr)
{
    AnyProp p;
    p.name = name;
    p.share = share;
    p.run = [=](const Options &opt, uint64_t target, double deadline, Ctx &ctx, Failure &failure, std::string &note) {
        uint64_t done = 0;
        uint64_t batchNo = 0;
        const uint64_t propSalt = fnv(name);
        while (done < target) {
            if (nowS() > deadline) { note = "budget exhausted after " + std::to_string(done) + " of " + std::to_string(target) + " cases (inconclusive for the rest)"; break; }
            rc::detail::TestParams params;
            params.seed = opt.seed * 0x9E3779B97F4A7C15ULL + propSalt + batchNo * 0x632BE59BD9B4E019ULL;
            params.maxSuccess = static_cast<int>(std::min<uint64_t>(opt.batch, target - done));
            params.maxSize = opt.maxSize;
            params.maxDiscardRatio = 20;
            rc::detail::TestMetadata md;
            md.id = name;
            md.description = name;
            Failure last;
            const uint64_t before = ctx.evaluations;
            const auto result = rc::detail::checkTestable([&] {
                const Case c = *gen;
                current().show = [&] { return show(c); };
                current().prop = name;
                ctx.nontrivialFlag = false;
                const Verdict v = check(c, ctx);
                noteCase(ctx, current().show);
                current().show = nullptr;
                if (v.ok) return;
                if (opt.known.count(v.sig)) {
                    if (!ctx.knownHits[v.sig]++) ctx.knownExample[v.sig] = show(c);
                    return;
                }
                last.present = true;
                last.sig = v.sig;
                last.detail = v.detail;
                last.caseText = show(c);
                RC_FAIL(v.sig);
            }, md, params);
            ++batchNo;
            done += ctx.evaluations - before;
            if (last.present) {
                failure = last; // the last failing invocation is the shrunk one
                return;
            }
            rc::detail::GaveUpResult gaveUp;
            rc::detail::Error err;
            if (result.match(gaveUp)) { note = "generator gave up: " + gaveUp.description; break; }
            if (result.match(err)) { note = "rapidcheck error: " + err.description; break; }
            if (ctx.evaluations == before) break; // defensive: no progress
        }
    };
    p.replay = [=](const std::string &text, Ctx &ctx) {
        const Case c = parse(text);
        current().show = [&] { return show(c); };
        current().prop = name;
        const Verdict v = check(c, ctx);
        current().show = nullptr;
        return v;
    };
    if (fuzzDecode) {
        p.fuzzOne = [=](FuzzedDataProvider &fdp, Ctx &ctx, std::string &caseText) {
            const Case c = fuzzDecode(fdp);
            current().show = [&] { return show(c); };
            current().prop = name;
            ctx.nontrivialFlag = false;
            const Verdict v = check(c, ctx);
            noteCase(ctx, current().show);
            current().show = nullptr;
            if (!v.ok) caseText = show(c);
            return v;
        };
    }
    registry().push_back(std::move(p));
}

inline void writeMap(std::ostream &os, const std::map<std::string, uint64_t> &m)
{
    os << "{";
    bool first = true;
    for (const auto &kv : m) { os << (first ? "" : ",") << jsonStr(kv.first) << ":" << kv.second; first = false; }
    os << "}";
}

struct PropResult {
    std::string name;
    Ctx ctx;
    Failure failure;
    std::string note;
    double wall = 0;
};

inline void writeResults(const std::string &path, const std::vector<PropResult> &rs, double wall)
{
    std::ofstream os(path + ".tmp");
    os << "{\"wall_s\":" << wall << ",\"props\":[";
    bool firstP = true;
    for (const auto &r : rs) {
        os << (firstP ? "" : ",") << "{\"name\":" << jsonStr(r.name)
           << ",\"evaluations\":" << r.ctx.evaluations
           << ",\"nontrivial\":" << r.ctx.nontrivialCount
           << ",\"distinct_nontrivial\":" << r.ctx.distinct.size()
           << ",\"distinct_saturated\":" << (r.ctx.distinctSaturated ? "true" : "false")
           << ",\"wall_s\":" << r.wall
           << ",\"note\":" << jsonStr(r.note)
           << ",\"labels\":";
        writeMap(os, r.ctx.labels);
        os << ",\"exclusions\":";
        writeMap(os, r.ctx.exclusions);
        os << ",\"known_hits\":";
        writeMap(os, r.ctx.knownHits);
        os << ",\"known_examples\":{";
        bool f2 = true;
        for (const auto &kv : r.ctx.knownExample) { os << (f2 ? "" : ",") << jsonStr(kv.first) << ":" << jsonStr(kv.second); f2 = false; }
        os << "},\"samples\":[";
        bool f3 = true;
        for (const auto &s : r.ctx.samples) { os << (f3 ? "" : ",") << jsonStr(s); f3 = false; }
        os << "],\"violation\":";
        if (r.failure.present)
            os << "{\"signature\":" << jsonStr(r.failure.sig) << ",\"detail\":" << jsonStr(r.failure.detail)
               << ",\"case\":" << jsonStr("prop=" + r.name + "\n" + r.failure.caseText) << "}";
        else
            os << "null";
        os << "}";
        firstP = false;
    }
    os << "]}\n";
    os.close();
    rename((path + ".tmp").c_str(), path.c_str());
}

inline std::set<std::string> splitCsv(const std::string &s)
{
    std::set<std::string> r;
    std::string cur;
    for (char c : s) { if (c == ',') { if (!cur.empty()) r.insert(cur); cur.clear(); } else cur += c; }
    if (!cur.empty()) r.insert(cur);
    return r;
}

inline std::string readFile(const std::string &p)
{
    std::ifstream is(p, std::ios::binary);
    std::ostringstream ss;
    ss << is.rdbuf();
    return ss.str();
}

inline void installCrashCapture(const std::string &path)
{
    current().crashPath = path;
    __sanitizer_set_death_callback(deathCallback);
    signal(SIGABRT, abortHandler);
    signal(SIGSEGV, abortHandler);
    signal(SIGILL, abortHandler);
    signal(SIGFPE, abortHandler);
}

#ifndef VP_FUZZ
inline int main(int argc, char **argv)
{
    Options opt;
    for (int i = 1; i < argc; ++i) {
        const std::string a = argv[i];
        auto next = [&]() -> std::string { return i + 1 < argc ? argv[++i] : ""; };
        if (a == "--run") opt.mode = "run";
        else if (a == "--replay") { opt.mode = "replay"; opt.replayFile = next(); }
        else if (a == "--list") opt.mode = "list";
        else if (a == "--out") opt.out = next();
        else if (a == "--seed") opt.seed = strtoull(next().c_str(), nullptr, 10);
        else if (a == "--cases") opt.cases = strtoull(next().c_str(), nullptr, 10);
        else if (a == "--max-size") opt.maxSize = atoi(next().c_str());
        else if (a == "--budget-s") opt.budgetS = atof(next().c_str());
        else if (a == "--batch") opt.batch = atoi(next().c_str());
        else if (a == "--known") opt.known = splitCsv(next());
        else if (a == "--only") opt.only = next();
        else { fprintf(stderr, "unknown argument %s\n", a.c_str()); return 2; }
    }
    auto &props = registry();
    if (opt.mode == "list") {
        for (const auto &p : props) printf("%s\n", p.name.c_str());
        return 0;
    }
    if (opt.mode == "replay") {
        const std::string text = readFile(opt.replayFile);
        installCrashCapture(opt.replayFile + ".crashcase");
        const Reader r(text);
        const std::string name = r.s("prop");
        for (const auto &p : props) {
            if (p.name != name) continue;
            Ctx ctx;
            const Verdict v = p.replay(text, ctx);
            if (v.ok) { printf("REPLAY pass prop=%s\n", name.c_str()); return 0; }
            printf("REPLAY fail prop=%s signature=%s detail=%s\n", name.c_str(), v.sig.c_str(), esc(v.detail).c_str());
            return opt.known.count(v.sig) ? 3 : 1;
        }
        fprintf(stderr, "no such sub-property: %s\n", name.c_str());
        return 2;
    }
    if (opt.mode != "run" || opt.out.empty()) { fprintf(stderr, "usage: --run --out F ... | --replay F\n"); return 2; }

    installCrashCapture(opt.out + ".crashcase");
    double totalShare = 0;
    for (const auto &p : props) if (opt.only.empty() || p.name == opt.only) totalShare += p.share;
    const double start = nowS();
    std::vector<PropResult> results;
    double shareDone = 0;
    for (const auto &p : props) {
        if (!opt.only.empty() && p.name != opt.only) continue;
        PropResult r;
        r.name = p.name;
        const uint64_t target = std::max<uint64_t>(1, static_cast<uint64_t>(opt.cases * p.share / totalShare));
        shareDone += p.share;
        // each sub-property may use its share of the wall-clock budget plus whatever earlier ones left over
        const double deadline = start + opt.budgetS * shareDone / totalShare;
        const double t0 = nowS();
        p.run(opt, target, deadline, r.ctx, r.failure, r.note);
        r.wall = nowS() - t0;
        {
            // distinct non-trivial case hashes, so that shards can be united exactly by the runner
            std::ofstream ds(opt.out + ".distinct", std::ios::binary | std::ios::app);
            for (const uint64_t h : r.ctx.distinct) ds.write(reinterpret_cast<const char *>(&h), sizeof h);
        }
        results.push_back(std::move(r));
        writeResults(opt.out, results, nowS() - start); // partial results survive a later crash
    }
    writeResults(opt.out, results, nowS() - start);
    for (const auto &r : results) if (r.failure.present) return 1;
    return 0;
}
#else  // VP_FUZZ
struct FuzzState {
    std::vector<PropResult> results;
    std::string outDir;
    std::set<std::string> known;
    std::vector<size_t> fuzzable;
    double start = 0;
    bool init = false;
};
inline FuzzState &fuzzState() { static FuzzState s; return s; }

inline void fuzzFlush()
{
    FuzzState &st = fuzzState();
    if (st.outDir.empty()) return;
    writeResults(st.outDir + "/stats-" + std::to_string(getpid()) + ".json", st.results, nowS() - st.start);
}

inline int fuzzOne(const uint8_t *data, size_t size)
{
    FuzzState &st = fuzzState();
    auto &props = registry();
    if (!st.init) {
        st.init = true;
        st.start = nowS();
        if (const char *o = getenv("VP_OUT")) st.outDir = o;
        if (const char *k = getenv("VP_KNOWN")) st.known = splitCsv(k);
        const char *only = getenv("VP_ONLY");
        for (size_t i = 0; i < props.size(); ++i) {
            if (!props[i].fuzzOne) continue;
            if (only && *only && props[i].name != only) continue;
            st.fuzzable.push_back(i);
        }
        for (size_t i : st.fuzzable) { PropResult r; r.name = props[i].name; st.results.push_back(std::move(r)); }
        if (!st.outDir.empty()) installCrashCapture(st.outDir + "/crashcase-" + std::to_string(getpid()));
        atexit(fuzzFlush);
    }
    if (st.fuzzable.empty() || size < 1) return 0;
    FuzzedDataProvider fdp(data, size);
    const size_t k = st.fuzzable.size() == 1 ? 0 : fdp.ConsumeIntegralInRange<size_t>(0, st.fuzzable.size() - 1);
    PropResult &r = st.results[k];
    std::string caseText;
    const Verdict v = props[st.fuzzable[k]].fuzzOne(fdp, r.ctx, caseText);
    if (v.ok) return 0;
    if (st.known.count(v.sig)) {
        if (!r.ctx.knownHits[v.sig]++) r.ctx.knownExample[v.sig] = caseText;
        return 0;
    }
    r.failure.present = true;
    r.failure.sig = v.sig;
    r.failure.detail = v.detail;
    r.failure.caseText = caseText;
    if (!st.outDir.empty()) {
        const std::string path = st.outDir + "/violation-" + std::to_string(getpid()) + ".case";
        std::ofstream os(path);
        os << "prop=" << r.name << "\n" << caseText;
        os.close();
        std::ofstream sg(path + ".sig");
        sg << v.sig << "\n" << v.detail << "\n";
    }
    fuzzFlush();
    fprintf(stderr, "VP-FUZZ violation prop=%s signature=%s\n", r.name.c_str(), v.sig.c_str());
    current().crashPath.clear(); // the case file is already written
    __builtin_trap();
    return 0;
}
#endif

// ---------------------------------------------------------------- generator helpers

/// inRange that does not collapse at small sizes
template <class T>
rc::Gen<T> range(T lo, T hiInclusive)
{
    return rc::gen::resize(100, rc::gen::inRange<T>(lo, static_cast<T>(hiInclusive + 1)));
}

/// arbitrary byte string of length <= maxLen drawn from the given alphabet (empty alphabet = all bytes)
inline rc::Gen<std::string> bytes(size_t maxLen, const std::string &alphabet = std::string())
{
    auto ch = alphabet.empty()
        ? rc::gen::map(rc::gen::resize(100, rc::gen::inRange<int>(0, 256)), [](int v) { return static_cast<char>(v); })
        : rc::gen::elementOf(alphabet);
    return rc::gen::mapcat(rc::gen::inRange<size_t>(0, maxLen + 1), [=](size_t n) {
        return rc::gen::container<std::string>(n, ch);
    });
}

} // namespace vp

#ifdef VP_FUZZ
#define VP_MAIN(registerFn) \
    extern "C" int LLVMFuzzerInitialize(int *, char ***) { registerFn(); return 0; } \
    extern "C" int LLVMFuzzerTestOneInput(const uint8_t *d, size_t n) { return vp::fuzzOne(d, n); }
#else
#define VP_MAIN(registerFn) \
    int main(int argc, char **argv) { registerFn(); return vp::main(argc, argv); }
#endif
