/* Helper relay: stdin/stdout <-> unix stream socket (path = argv[1]).
 * Lets the harness process play any Squid helper (auth, url_rewrite, external_acl). */
#include <poll.h>
#include <stdio.h>
#include <stdlib.h>
#include <string.h>
#include <sys/socket.h>
#include <sys/un.h>
#include <unistd.h>

int main(int argc, char **argv)
{
    if (argc < 2) return 2;
    int s = socket(AF_UNIX, SOCK_STREAM, 0);
    struct sockaddr_un a;
    memset(&a, 0, sizeof a);
    a.sun_family = AF_UNIX;
    strncpy(a.sun_path, argv[1], sizeof a.sun_path - 1);
    for (int i = 0; i < 100; ++i) {
        if (connect(s, (struct sockaddr *)&a, sizeof a) == 0) break;
        if (i == 99) return 3;
        usleep(50000);
    }
    struct pollfd p[2] = {{0, POLLIN, 0}, {s, POLLIN, 0}};
    char buf[65536];
    for (;;) {
        if (poll(p, 2, -1) < 0) return 4;
        if (p[0].revents & (POLLIN | POLLHUP)) {
            ssize_t n = read(0, buf, sizeof buf);
            if (n <= 0) return 0;
            for (ssize_t o = 0; o < n;) { ssize_t w = write(s, buf + o, n - o); if (w <= 0) return 0; o += w; }
        }
        if (p[1].revents & (POLLIN | POLLHUP)) {
            ssize_t n = read(s, buf, sizeof buf);
            if (n <= 0) return 0;
            for (ssize_t o = 0; o < n;) { ssize_t w = write(1, buf + o, n - o); if (w <= 0) return 0; o += w; }
        }
    }
}
