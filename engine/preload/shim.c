/* LD_PRELOAD shim for the verification harness.
 *  - clock: adds *offset (int64 seconds in an mmap'ed file, VERIF_CLOCK_FILE) to the realtime clock
 *  - crash points: counts write-like calls on paths under VERIF_CRASH_DIR; at call number
 *    VERIF_CRASH_AT (1-based) the whole process group is SIGKILLed -- before the call, or after
 *    writing only VERIF_CRASH_PARTIAL bytes of it.  The running count is mirrored to VERIF_CRASH_COUNT_FILE.
 */
#define _GNU_SOURCE
#include <dlfcn.h>
#include <fcntl.h>
#include <signal.h>
#include <stdint.h>
#include <stdio.h>
#include <stdlib.h>
#include <string.h>
#include <sys/mman.h>
#include <sys/time.h>
#include <sys/uio.h>
#include <time.h>
#include <unistd.h>

static volatile int64_t *clk_off;
static volatile int64_t *wr_count;
static const char *crash_dir;
static size_t crash_dir_len;
static long crash_at = -1;
static long crash_partial = -1;
static int inited;

static void *map_file(const char *path)
{
    int fd = open(path, O_RDWR);
    if (fd < 0) return NULL;
    void *p = mmap(NULL, 4096, PROT_READ | PROT_WRITE, MAP_SHARED, fd, 0);
    close(fd);
    return p == MAP_FAILED ? NULL : p;
}

static void init(void)
{
    if (inited) return;
    inited = 1;
    const char *f = getenv("VERIF_CLOCK_FILE");
    if (f) clk_off = map_file(f);
    crash_dir = getenv("VERIF_CRASH_DIR");
    if (crash_dir) crash_dir_len = strlen(crash_dir);
    const char *c = getenv("VERIF_CRASH_COUNT_FILE");
    if (c) wr_count = map_file(c);
    const char *a = getenv("VERIF_CRASH_AT");
    if (a) crash_at = atol(a);
    const char *p = getenv("VERIF_CRASH_PARTIAL");
    if (p) crash_partial = atol(p);
}

__attribute__((constructor)) static void ctor(void) { init(); }

static int64_t off(void) { init(); return clk_off ? *clk_off : 0; }

int clock_gettime(clockid_t id, struct timespec *ts)
{
    static int (*real)(clockid_t, struct timespec *);
    if (!real) real = dlsym(RTLD_NEXT, "clock_gettime");
    int r = real(id, ts);
    if (r == 0 && (id == CLOCK_REALTIME || id == CLOCK_REALTIME_COARSE)) ts->tv_sec += off();
    return r;
}

int gettimeofday(struct timeval *tv, void *tz)
{
    static int (*real)(struct timeval *, void *);
    if (!real) real = dlsym(RTLD_NEXT, "gettimeofday");
    int r = real(tv, tz);
    if (r == 0 && tv) tv->tv_sec += off();
    return r;
}

time_t time(time_t *t)
{
    static time_t (*real)(time_t *);
    if (!real) real = dlsym(RTLD_NEXT, "time");
    time_t v = real(NULL) + off();
    if (t) *t = v;
    return v;
}

/* ---- crash points */
static int fd_matches(int fd)
{
    if (!crash_dir) return 0;
    char link[64], path[4096];
    snprintf(link, sizeof link, "/proc/self/fd/%d", fd);
    ssize_t n = readlink(link, path, sizeof path - 1);
    if (n <= 0) return 0;
    path[n] = 0;
    return strncmp(path, crash_dir, crash_dir_len) == 0;
}

static int path_matches(const char *p)
{
    return crash_dir && p && strncmp(p, crash_dir, crash_dir_len) == 0;
}

static void die(void)
{
    kill(0, SIGKILL); /* the proxy runs in its own process group */
    _exit(137);
}

/* returns 0 = proceed normally, 1 = this is the crash point */
static int tick(void)
{
    long n;
    if (wr_count) n = __sync_add_and_fetch(wr_count, 1);
    else { static long local; n = __sync_add_and_fetch(&local, 1); }
    return crash_at > 0 && n == crash_at;
}

ssize_t write(int fd, const void *buf, size_t len)
{
    static ssize_t (*real)(int, const void *, size_t);
    if (!real) real = dlsym(RTLD_NEXT, "write");
    init();
    if (fd_matches(fd) && tick()) {
        if (crash_partial >= 0 && (size_t)crash_partial < len) real(fd, buf, (size_t)crash_partial);
        die();
    }
    return real(fd, buf, len);
}

ssize_t pwrite(int fd, const void *buf, size_t len, off_t o)
{
    static ssize_t (*real)(int, const void *, size_t, off_t);
    if (!real) real = dlsym(RTLD_NEXT, "pwrite");
    init();
    if (fd_matches(fd) && tick()) {
        if (crash_partial >= 0 && (size_t)crash_partial < len) real(fd, buf, (size_t)crash_partial, o);
        die();
    }
    return real(fd, buf, len, o);
}

ssize_t pwrite64(int fd, const void *buf, size_t len, off64_t o)
{
    static ssize_t (*real)(int, const void *, size_t, off64_t);
    if (!real) real = dlsym(RTLD_NEXT, "pwrite64");
    init();
    if (fd_matches(fd) && tick()) {
        if (crash_partial >= 0 && (size_t)crash_partial < len) real(fd, buf, (size_t)crash_partial, o);
        die();
    }
    return real(fd, buf, len, o);
}

ssize_t writev(int fd, const struct iovec *iov, int cnt)
{
    static ssize_t (*real)(int, const struct iovec *, int);
    if (!real) real = dlsym(RTLD_NEXT, "writev");
    init();
    if (fd_matches(fd) && tick()) die();
    return real(fd, iov, cnt);
}

int ftruncate(int fd, off_t len)
{
    static int (*real)(int, off_t);
    if (!real) real = dlsym(RTLD_NEXT, "ftruncate");
    init();
    if (fd_matches(fd) && tick()) die();
    return real(fd, len);
}

int rename(const char *a, const char *b)
{
    static int (*real)(const char *, const char *);
    if (!real) real = dlsym(RTLD_NEXT, "rename");
    init();
    if ((path_matches(a) || path_matches(b)) && tick()) die();
    return real(a, b);
}

int unlink(const char *a)
{
    static int (*real)(const char *);
    if (!real) real = dlsym(RTLD_NEXT, "unlink");
    init();
    if (path_matches(a) && tick()) die();
    return real(a);
}
