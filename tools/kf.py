#!/usr/bin/env python3
"""Add an entry to known_findings.json under a file lock.
usage: tools/kf.py add --property C28 --signature SIG --what "what fails (input/call site/history)" [--status open|fixed] [--commit SHA]
       tools/kf.py list [--property C28]
"""
import argparse
import fcntl
import json
import os

HERE = os.path.dirname(os.path.dirname(os.path.abspath(__file__)))
PATH = os.path.join(HERE, "known_findings.json")


def main():
    ap = argparse.ArgumentParser()
    ap.add_argument("cmd", choices=["add", "list"])
    ap.add_argument("--property")
    ap.add_argument("--signature")
    ap.add_argument("--what")
    ap.add_argument("--status", default="open")
    ap.add_argument("--commit")
    a = ap.parse_args()
    with open(PATH + ".lock", "w") as lk:
        fcntl.flock(lk, fcntl.LOCK_EX)
        data = json.load(open(PATH))
        if a.cmd == "list":
            for e in data["findings"]:
                if not a.property or e["property"] == a.property:
                    print(e["property"], e["status"], e["signature"], "--", e["what"])
            return
        assert a.property and a.signature and a.what
        for e in data["findings"]:
            if e["property"] == a.property and e["signature"] == a.signature:
                e.update({"status": a.status, "what": a.what})
                if a.commit:
                    e["commit"] = a.commit
                break
        else:
            e = {"property": a.property, "status": a.status, "signature": a.signature, "what": a.what}
            if a.commit:
                e["commit"] = a.commit
            data["findings"].append(e)
        tmp = PATH + ".tmp"
        json.dump(data, open(tmp, "w"), indent=1)
        os.replace(tmp, PATH)


if __name__ == "__main__":
    main()
