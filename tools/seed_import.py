#!/usr/bin/env python3
"""tools/seed_import.py <seedout dir> <seed id> --check-result caught|missed --signature SIG --ran "what I ran"
Copies a confirmed seeded defect (patch.diff, demonstration, meta.json) into /verif/seeded/<id>/ and records the
coordinator's own confirmation (from <seedout dir>/verify-logs) and which check caught it."""
import argparse, json, os, re, shutil, sys
ap = argparse.ArgumentParser()
ap.add_argument("src"); ap.add_argument("sid")
ap.add_argument("--check-result", default="unknown"); ap.add_argument("--signature", default=""); ap.add_argument("--ran", default="")
a = ap.parse_args()
dst = os.path.join("/verif/seeded", a.sid)
os.makedirs(dst, exist_ok=True)
for n in os.listdir(a.src):
    p = os.path.join(a.src, n)
    if os.path.isdir(p) or n.endswith((".o", ".bin", ".log")) or n in ("demo", "run") or os.path.getsize(p) > 300000:
        continue
    if os.access(p, os.X_OK) and not n.endswith((".sh", ".py")):
        continue  # compiled demo binaries
    shutil.copy(p, os.path.join(dst, n))
meta = {}
mp = os.path.join(a.src, "meta.json")
if os.path.exists(mp):
    try:
        meta = json.load(open(mp))
    except ValueError:
        meta = {"agent_meta_unparsable": open(mp, errors="replace").read()[:4000]}
conf = {}
vl = os.path.join(a.src, "verify-logs")
for n, key in (("demo-with.log", "demo_with_change_tail"), ("demo-without.log", "demo_without_change_tail")):
    p = os.path.join(vl, n)
    if os.path.exists(p):
        conf[key] = open(p, errors="replace").read()[-600:]
passes = fails = 0
if os.path.isdir(vl):
    for n in os.listdir(vl):
        if n.startswith("check-"):
            t = open(os.path.join(vl, n), errors="replace").read()
            passes += len(re.findall(r"^PASS:", t, re.M)); fails += len(re.findall(r"^(?:FAIL|ERROR):", t, re.M))
conf["existing_tests_with_change"] = {"PASS": passes, "FAIL_or_ERROR": fails}
meta["coordinator_confirmation"] = conf
meta["what_i_ran"] = a.ran or ("tools/seed_verify.sh <scratch worktree> %s '<demo>' (apply patch, make, make -k check in src/lib/test-suite, demo must fail; revert, make, demo must pass); tools/mutant_test.sh <property> patch.diff (quick tier of my check against the patched tree)" % a.src)
meta["my_check"] = {"result": a.check_result, "signature": a.signature}
json.dump(meta, open(os.path.join(dst, "meta.json"), "w"), indent=1)
print("imported", dst, sorted(os.listdir(dst)))
