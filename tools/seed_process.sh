#!/bin/bash
# tools/seed_process.sh <sK> <Cnn> <demo command>  -- confirm a seeded defect, then run my quick check against it
K=$1; P=$2; shift 2; DEMO="$*"
cd /verif
tools/seed_verify.sh /tmp/seed/$K /tmp/seedout/$K/$P "$DEMO" > /tmp/sv-$P.log 2>&1
PATCH=/tmp/seedout/$K/$P/patch.diff
MT_TAIL=8 tools/mutant_test.sh $P $PATCH > /tmp/seedmt-$P.log 2>&1
echo "$K $P verify: $(grep -h RESULT /tmp/sv-$P.log) | check: $(grep -h -E 'mutant_test:' /tmp/seedmt-$P.log) $(grep -h -E 'VIOLATION-DETAIL' /tmp/seedmt-$P.log | head -2 | cut -c1-160 | tr '\n' ' ')" >> /tmp/seed-results.log
