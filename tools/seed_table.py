#!/usr/bin/env python3
"""Regenerate the seeded-defects table in DESIGN.md (between the SEEDED-TABLE markers) from seeded/*/meta.json."""
import glob, json, os, re
rows = []
for mp in sorted(glob.glob("/verif/seeded/*/meta.json")):
    sid = os.path.basename(os.path.dirname(mp))
    m = json.load(open(mp))
    prop = m.get("property") or sid.split("-")[0]
    needs = (m.get("needs") or "").replace("\n", " ").replace("|", "/")
    if len(needs) > 260:
        needs = needs[:257] + "..."
    chk = m.get("my_check", {})
    res = (chk.get("result") or "").replace("|", "/")
    sig = (chk.get("signature") or "").replace("|", "/")
    files = ", ".join(os.path.basename(f) for f in (m.get("files") or []))[:80]
    rows.append("| `%s` | %s | %s | %s | %s | `%s` |" % (sid, prop, files, needs, res, sig))
table = "| seeded/<id> | property | file(s) | needs, to manifest | my check (quick tier) | signature |\n|---|---|---|---|---|---|\n" + "\n".join(rows) + "\n"
p = "/verif/DESIGN.md"
s = open(p).read()
b, e = "<!-- SEEDED-TABLE-BEGIN -->", "<!-- SEEDED-TABLE-END -->"
if b in s:
    s = s[:s.index(b) + len(b)] + "\n" + table + s[s.index(e):]
    open(p, "w").write(s)
print(len(rows), "rows")
