#!/bin/bash
# tools/mutant_test.sh Cnn patch.diff [tier]
# Sensitivity test in isolation: applies a patch to a scratch worktree of /repo, copies the build
# directory, runs the check against that copy (evidence/out go to the scratch dir), cleans up.
# Exit code = exit code of the check (1 = the check caught the mutant).
set -u
PID=$1; PATCH=$(readlink -f "$2"); TIER=${3:-quick}
HERE=$(cd "$(dirname "$0")/.." && pwd)
S=/tmp/mt-$PID-$$
mkdir -p $S
git -C /repo worktree add -q --detach $S/repo HEAD || exit 9
if ! git -C $S/repo apply "$PATCH"; then echo "patch does not apply"; git -C /repo worktree remove --force $S/repo; rm -rf $S; exit 9; fi
mkdir -p $S/build
# copy the build (hard links are not safe: objects get rewritten) without per-run scratch
rsync -a --exclude run/ --exclude 'unit/*' /verif/.build/ $S/build/
[ -d /verif/.build/unit/$PID ] && mkdir -p $S/build/unit && cp -a /verif/.build/unit/$PID $S/build/unit/
cd $HERE
MODE="--tier $TIER"
[ -n "${MT_REPLAY:-}" ] && MODE="--replay $MT_REPLAY"
VERIF_REPO=$S/repo VERIF_BUILD=$S/build VERIF_OUT=$S/out VERIF_EVIDENCE=$S/evidence ./check $PID $MODE 2>&1 | tail -${MT_TAIL:-15}
rc=${PIPESTATUS[0]}
if [ -n "${MT_KEEP:-}" ]; then echo "kept: $S"; else git -C /repo worktree remove --force $S/repo; rm -rf $S; fi
echo "mutant_test: check exit code $rc (1 = caught)"
exit $rc
