#!/usr/bin/env python3
"""Regenerate MANIFEST.json from props/*/meta.json (claimed checks) and properties.jsonl (the rest -> not_applicable)."""
import json
import os

HERE = os.path.dirname(os.path.dirname(os.path.abspath(__file__)))


def main():
    props = [json.loads(l) for l in open(os.path.join(HERE, "properties.jsonl")) if l.strip()]
    checks, na, engines = [], [], {}
    for p in props:
        pid = p["id"]
        mp = os.path.join(HERE, "props", pid, "meta.json")
        meta = json.load(open(mp)) if os.path.exists(mp) else None
        if not meta or not meta.get("claimed"):
            reason = (meta or {}).get("na_reason") or "no check has been built for this property yet; the planned generated-input design is DESIGN.md section 5 (%s) -- it is not claimed until that check exists and has passed its sensitivity test" % pid
            na.append({"property_id": pid, "reason": reason})
            continue
        c = {
            "property_id": pid,
            "quick_cmd": "./check %s --tier quick" % pid,
            "thorough_cmd": "./check %s --tier thorough" % pid,
            "evidence_file": "evidence/%s.json" % pid,
            "replay_cmd_template": "./check %s --replay {path}" % pid,
            "engine": meta.get("engine", "unit"),
            "level_claimed": {"category": meta.get("level", "exploration"), "text": meta["level_text"], "design_ref": meta.get("design_ref", "")},
            "level_note": meta["level_note"],
            "technique": meta["technique"],
        }
        checks.append(c)
        engines.setdefault(meta.get("engine", "unit"), []).append(pid)
    kinds = {
        "unit": ("engine/cxx/verif_pbt.h + engine/vlib/unit.py", "in-process rapidcheck/libFuzzer harnesses linked against the real Squid objects (clang ASan+UBSan) through the repository's own unit-test link recipes"),
        "sched": ("engine/cxx/sched + engine/vlib/unit.py", "real lock-free IPC sources compiled against a scheduler-controlled std::atomic; rapidcheck-generated programs and schedules plus bounded exhaustive schedule enumeration"),
        "composite": ("check (composite branch)", "a property decided by an in-process part and an end-to-end part; both run under one ./check and are merged into one evidence file"),
        "e2e": ("engine/vlib/e2e", "Hypothesis-generated scenarios against the real sanitizer-built proxy with harness-owned origin/client/helper/ICAP/DNS stubs, LD_PRELOAD clock and crash-point shim"),
    }
    manifest = {
        "version": 1,
        "setup_cmd": "./setup.sh",
        "hooks": {
            "guard": "SQUID_VERIF",
            "enable": "every verification compile passes -DSQUID_VERIF (engine/vlib/build.py); no source hook is currently needed: time and crash points are injected with LD_PRELOAD, atomics with a forced include",
            "baseline_off_cmd": "cd /repo && make -k check",
            "source_commits": [],
            "add_only": True,
        },
        "engines": [{"name": k, "path": kinds[k][0], "serves_properties": v, "kind_free_text": kinds[k][1]} for k, v in sorted(engines.items())],
        "checks": checks,
        "notes": "All checks are driven by ./check <id> --tier quick|thorough; known findings are in known_findings.json; see DESIGN.md.",
        "not_applicable": na,
    }
    with open(os.path.join(HERE, "MANIFEST.json"), "w") as f:
        json.dump(manifest, f, indent=1)
        f.write("\n")
    print("claimed: %d, not_applicable: %d" % (len(checks), len(na)))


if __name__ == "__main__":
    main()
