#!/bin/bash
# tools/regen_all.sh [tier] -- runs every claimed check once against /repo (sequentially; each check uses the
# cores it needs) so that evidence/<id>.json comes from this tree; prints one line per property.
cd "$(dirname "$0")/.."
TIER=${1:-quick}
LOG=${REGEN_LOG:-out/regen-$TIER.log}
mkdir -p out; : > $LOG
for id in $(python3 -c "import json;print(' '.join(c['property_id'] for c in json.load(open('MANIFEST.json'))['checks']))" 2>/dev/null || ls props); do
  t0=$(date +%s)
  ./check $id --tier $TIER > out/regen-$id.log 2>&1; rc=$?
  echo "$id rc=$rc $(( $(date +%s) - t0 ))s $(grep -c '^KNOWN-FINDING' out/regen-$id.log) known $(grep '^SUMMARY' out/regen-$id.log | tail -n 1 | cut -c1-160)" | tee -a $LOG
done
