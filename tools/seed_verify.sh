#!/bin/bash
# tools/seed_verify.sh <scratch worktree (built in-tree)> <dir with patch.diff + demo> <demo command>
# Confirms a seeded defect in the given scratch worktree of /repo (outside /repo and /verif):
#   applies patch -> incremental build -> existing unit tests (src, lib, test-suite) -> demo must FAIL
#   reverts       -> rebuild           -> demo must PASS
set -u
WT=$(readlink -f "$1"); D=$(readlink -f "$2"); shift 2
DEMO="$*"
L=$D/verify-logs; mkdir -p $L
cd $WT || exit 9
git checkout -q -- . 
if ! git apply "$D/patch.diff"; then echo "RESULT patch-does-not-apply"; exit 9; fi
echo "== build with patch"; make -j8 > $L/build1.log 2>&1; echo "build rc=$?"
echo "== existing tests with patch"
# this tree does not always relink test programs after a library changed: force it
find src/tests lib/tests test-suite -maxdepth 1 -type f -perm -u+x \( -name "test*" -o -name "mem_*" -o -name "splay" -o -name "syntheticoperators" -o -name "VirtualDeleteOperator" \) ! -name "*.sh" ! -name "*.cc" -delete 2>/dev/null
for d in src lib test-suite; do (cd $d && make -k -j8 check 'TESTS=$(check_PROGRAMS)' > $L/check-$d.log 2>&1); done
PASS=$(cat $L/check-*.log | grep -cE "^PASS:"); FAIL=$(cat $L/check-*.log | grep -cE "^(FAIL|ERROR):")
echo "tests with patch: PASS=$PASS FAIL/ERROR=$FAIL"; cat $L/check-*.log | grep -E "^(FAIL|ERROR):" | head
echo "== demo with patch (must fail)"
(cd "$D" && eval "$DEMO") > $L/demo-with.log 2>&1; RC1=$?; tail -4 $L/demo-with.log; echo "demo rc with patch=$RC1"
git checkout -q -- . ; make -j8 > $L/build2.log 2>&1
echo "== demo without patch (must pass)"
(cd "$D" && eval "$DEMO") > $L/demo-without.log 2>&1; RC2=$?; tail -3 $L/demo-without.log; echo "demo rc without patch=$RC2"
echo "RESULT tests_pass=$PASS tests_fail=$FAIL demo_with=$RC1 demo_without=$RC2"
