#!/bin/bash
# tools/seed_verify.sh <dir with patch.diff + demo> <demo command relative to that dir, with {WT} placeholder>
# Confirms a seeded defect in a scratch worktree of /repo (outside /repo and /verif):
#   applies patch -> incremental in-tree build -> existing unit tests (src, lib, test-suite) -> demo must FAIL
#   reverts       -> rebuild                  -> demo must PASS
# Prints a summary; the scratch worktree is removed at the end.
set -u
D=$(readlink -f "$1"); shift
DEMO="$*"
WT=/tmp/seedverify-$$
git -C /repo worktree add -q --detach $WT HEAD || exit 9
rsync -a --exclude .git /repo/ $WT/
cd $WT
if ! git apply "$D/patch.diff"; then echo "RESULT patch-does-not-apply"; git -C /repo worktree remove --force $WT; exit 9; fi
echo "== build with patch"; make -j8 > $WT.build1.log 2>&1; echo "build rc=$?"
echo "== existing tests with patch"
for d in src lib test-suite compat; do (cd $d && make -k -j8 check > $WT.check-$d.log 2>&1); done
PASS=$(cat $WT.check-*.log | grep -cE "^PASS:"); FAIL=$(cat $WT.check-*.log | grep -cE "^(FAIL|ERROR):")
echo "tests with patch: PASS=$PASS FAIL/ERROR=$FAIL"; cat $WT.check-*.log | grep -E "^(FAIL|ERROR):" | head
echo "== demo with patch (must fail)"
(cd "$D" && eval "${DEMO//\{WT\}/$WT}") > $WT.demo1.log 2>&1; RC1=$?; tail -5 $WT.demo1.log; echo "demo rc with patch=$RC1"
git checkout -q -- . ; make -j8 > $WT.build2.log 2>&1
echo "== demo without patch (must pass)"
(cd "$D" && eval "${DEMO//\{WT\}/$WT}") > $WT.demo2.log 2>&1; RC2=$?; tail -3 $WT.demo2.log; echo "demo rc without patch=$RC2"
echo "RESULT tests_fail=$FAIL demo_with=$RC1 demo_without=$RC2"
cd /; git -C /repo worktree remove --force $WT; rm -f $WT.*.log
