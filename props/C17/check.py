"""C17 Completed disk cache entries survive a clean restart.

Every scenario runs its own proxy instance (cache_mem 0, one cache_dir): a generated history of
GET / forced refresh (overwrite) / PURGE over a few URLs, each stored version confirmed on disk
(store.log SWAPOUT record + only-if-cached 200 with the exact bytes, no origin arrival), then SIGTERM
(= squid -k shutdown), wait for a clean exit, start again on the same cache_dir, wait for the rebuild.
Oracle (one-directional, as the statement): every URL whose latest version was confirmed on disk and
was neither purged nor released answers only-if-cached with 200 and exactly those bytes.
"""
import os
import threading
import time

from hypothesis import strategies as st

from vlib.e2e import diskstore as ds
from vlib.e2e import rockdb
from vlib.e2e_runner import Result

STORES = ["rock", "ufs", "aufs", "diskd"]
# rock slot-size=4096: ~4 KB of payload per slot, the first slot also carries swap metadata and the HTTP header
SIZES = st.one_of(
    st.sampled_from([4200, 0, 1, 100, 3000, 3600, 3700, 3800, 3900, 4000, 4056, 4096, 4200, 7600, 7800, 8000, 8192, 12000, 12288,
                     16384, 20000, 33000, 65536, 70000]),
    st.integers(0, 9000), st.integers(0, 80000))


def strategy(tp):
    # A process restart costs seconds, an operation milliseconds: histories are long (8-24 operations on six URLs), and the
    # first alternative of every choice is a useful one because Hypothesis starts each worker with the minimal example.
    op = st.fixed_dictionaries({
        "op": st.sampled_from(["refresh", "get", "get", "refresh", "purge", "get"]),
        "u": st.integers(0, 5),
        "size": SIZES,
        "dt": st.sampled_from([0, 0, 0, 1, 2, 61, 3600]),
    })
    return st.fixed_dictionaries({
        "store": st.sampled_from(["rock", "ufs", "aufs", "diskd", "rock", "ufs", "rock", "aufs"]),
        "ops": st.lists(op, min_size=8, max_size=24),
        # a populated cache_dir: the index rebuild and its validation pass work in batches (500 entries per event for the
        # ufs family), so the statement is also exercised with more entries than one batch holds
        "bulk": st.sampled_from([0, 0, 520, 0, 0, 1030, 0, 0]),
    })


def setup(ctx):
    return ds.DiskEnv(ctx)


def teardown(env):
    env.close()


def execute(env, sc):
    r = Result()
    t0 = time.time()   # harness trace only, never part of the verdict
    store = sc["store"]
    if env.duplicate_minimal_example():
        r.label("minimal-example-left-to-worker-0")
        r.sub_evaluations = 0
        return r
    r.label("store:" + store)
    try:
        sq = env.new_squid(ds.STORE_DIRS[store])
    except Exception as e:  # start-up did not finish in time on a loaded machine, port clash ...
        r.inconclusive = "first start failed: %s" % str(e)[:60]
        return r
    try:
        return _run(env, sc, sq, r)
    finally:
        env.discard(sq)
        ds.trace("C17 %s ops=%d %.1fs %s" % (store, len(sc["ops"]), time.time() - t0, r.inconclusive or ""))


def _rock_class(sq, store, url):
    """Narrows the signature of a lost rock entry by what the db file holds under that URL's key:
    a complete slot chain plus further same-key slots (left behind by an earlier version of the URL)."""
    if store != "rock":
        return ""
    try:
        c = rockdb.chains_of(rockdb.RockDb(os.path.join(sq.cache_sub, "rock")), url)
    except Exception:
        return ""
    if c["complete"] and c["extra"]:
        return ":stale-same-key-slots-in-db"
    if not c["complete"]:
        return ":no-complete-chain-in-db"
    return ""


BULK0 = 1000      # URL numbers of the bulk population


def _pool(fn, items, threads=8):
    out = {}
    items = list(items)
    lock = threading.Lock()

    def work():
        while True:
            with lock:
                if not items:
                    return
                it = items.pop()
            v = fn(it)
            with lock:
                out[it] = v
    ts = [threading.Thread(target=work, daemon=True) for _ in range(threads)]
    for t in ts:
        t.start()
    for t in ts:
        t.join()
    return out


def _bulk_fill(env, sq, content, n):
    """n small objects, each fetched once; -> {u: version} of those confirmed on disk (SWAPOUT logged, not released,
    only-if-cached returns the exact bytes without another origin arrival)"""
    port = sq.ports[0]
    us = range(BULK0, BULK0 + n)
    for u in us:
        content.set_next(u, 40 + (u * 37) % 900)
    _pool(lambda u: ds.get(env, port, content.path(u)), us)
    deadline = time.time() + 10
    while time.time() < deadline:
        sl = ds.store_log_state(sq)
        if all((sl.get(env.url(content.path(u))) or {"swapouts": 0})["swapouts"] for u in us):
            break
        time.sleep(0.2)
    sl = ds.store_log_state(sq)
    probes = _pool(lambda u: ds.oic(env, port, content.path(u)), us)
    ok = {}
    for u in us:
        e = sl.get(env.url(content.path(u)))
        c = probes.get(u)
        if (e and e["swapouts"] and not e["released"] and content.arrivals(u) == 1 and ds.judged(c) and c.complete and c.status == 200
                and c.body == content.body(u, 0)):
            ok[u] = 0
    return ok


def _run(env, sc, sq, r):
    store = sc["store"]
    port = sq.ports[0]
    if not ds.wait_finished_rebuilding(sq, 90):
        r.inconclusive = "initial rebuild not finished in time"
        ds.health(sq, r)
        return r
    content = ds.Content(env, env.ns())
    nbulk = min(sc.get("bulk") or 0, 640) if store == "rock" else (sc.get("bulk") or 0)   # the rock dir has 2048 slots
    state = {}          # u -> {"cur": version or None, "confirmed": bool, "purged": bool}
    n_over = n_purge = 0
    multi = False
    clock = 0
    for op in sc["ops"]:
        u = op["u"]
        path = content.path(u)
        url = env.url(path)
        s = state.setdefault(u, {"cur": None, "confirmed": False, "purged": False})
        if op["dt"]:
            clock += op["dt"]
            sq.set_clock(clock)
        if op["op"] in ("get", "refresh"):
            content.set_next(u, op["size"])
            before = content.arrivals(u)
            sw0 = (ds.store_log_state(sq).get(url) or {"swapouts": 0})["swapouts"]
            hdrs = [("Cache-Control", "no-cache")] if op["op"] == "refresh" else []
            m = ds.get(env, port, path, hdrs)
            if not ds.judged(m) or not m.complete or m.status != 200:
                r.inconclusive = "workload request not answered completely"
                ds.health(sq, r)
                return r
            after = content.arrivals(u)
            if after == before:
                continue        # served from cache: nothing new was stored
            if after != before + 1:
                r.inconclusive = "more than one origin arrival for one request"
                return r
            ver = after - 1
            if s["cur"] is not None and s["confirmed"]:
                n_over += 1
            s.update(cur=ver, confirmed=False, purged=False)
            # confirm on disk: swap-out finished and the entry is readable with the exact bytes
            if ds.wait_swapout(sq, url, sw0, 4.0):
                c = ds.oic(env, port, path)
                if ds.judged(c) and c.complete and c.status == 200 and c.body == content.body(u, ver) and content.arrivals(u) == after:
                    s["confirmed"] = True
                    if op["size"] > 4000:
                        multi = True
        else:
            m = ds.get(env, port, path, method="PURGE")
            if not ds.judged(m):
                r.inconclusive = "PURGE not answered"
                return r
            if m.status == 200:
                if s["cur"] is not None and s["confirmed"]:
                    n_purge += 1
                s.update(cur=None, confirmed=False, purged=True)
            elif s["cur"] is not None:
                s.update(confirmed=False)   # a PURGE that did not report success leaves the entry's fate open

    sl = ds.store_log_state(sq)
    expected = {}
    for u, s in state.items():
        if s["cur"] is None or not s["confirmed"]:
            continue
        e = sl.get(env.url(content.path(u)))
        if not e or e["released"]:
            r.label("released-before-shutdown")      # evicted/invalidated: outside the statement
            continue
        expected[u] = s["cur"]
    if nbulk:
        bulk = _bulk_fill(env, sq, content, nbulk)
        r.label("bulk-population")
        expected.update(bulk)
    # Last look before the shutdown: a store may drop an entry without a RELEASE record (a rock entry is evicted when a later
    # key maps to its anchor), and the statement excludes evicted entries, so only entries that still are hits count.
    arr0 = {u: content.arrivals(u) for u in expected}
    last = _pool(lambda u: ds.oic(env, port, content.path(u)), list(expected))
    for u in list(expected):
        c = last.get(u)
        if not (ds.judged(c) and c.complete and c.status == 200 and c.body == content.body(u, expected[u]) and content.arrivals(u) == arr0[u]):
            del expected[u]
            r.label("not-a-hit-just-before-shutdown")
    if len([u for u in expected if u >= BULK0]) > 500:
        r.label("bulk-population>500-confirmed")
    # ---- clean shutdown
    rc = sq.stop(60)
    if rc is None:
        r.inconclusive = "shutdown did not finish in time"
        return r
    if not ds.health(sq, r, expect_alive=False):
        return r
    if rc != 0:
        r.inconclusive = "shutdown exit code %s" % rc
        return r
    # ---- restart on the same cache_dir
    try:
        sq.start(fresh=False, timeout=90)
    except Exception as e:
        if not ds.health(sq, r, expect_alive=False):
            return r
        r.inconclusive = "restart failed: %s" % str(e)[:60]
        return r
    if not ds.wait_finished_rebuilding(sq, 90):
        if ds.health(sq, r):
            r.inconclusive = "rebuild not finished in time"
        return r
    r.sub_evaluations = max(1, len(expected))
    probes = _pool(lambda u: ds.oic(env, port, content.path(u)), [u for u in expected if u >= BULK0])
    for u, ver in sorted(expected.items()):
        path = content.path(u)
        m = probes[u] if u in probes else ds.oic(env, port, path)
        if not ds.judged(m):
            r.inconclusive = "probe after restart not answered"
            continue
        want = content.body(u, ver)
        if m.status != 200:
            r.fail("entry-lost-after-clean-restart:" + store + _rock_class(sq, store, env.url(path)),
                   "u%d version %d (%d bytes) was confirmed on disk before shutdown; only-if-cached after restart: %s" % (u, ver, len(want), m.status))
        elif not m.complete or m.body != want:
            other = content.match_version(u, m.body) if m.complete else None
            r.fail("entry-bytes-differ-after-clean-restart:%s:%s" % (store, "older-version" if other is not None else "corrupt"),
                   "u%d version %d (%d bytes) expected; got %d bytes complete=%s matching version %s" % (u, ver, len(want), len(m.body), m.complete, other))
    for u, s in sorted(state.items()):
        if s["purged"] and s["cur"] is None:
            m = ds.oic(env, port, content.path(u))
            if ds.judged(m) and m.status == 200:
                r.label("purged-entry-served-after-restart:" + store)   # outside the statement as written; counted
    if n_over:
        r.label("has-overwrite")
    if n_purge:
        r.label("has-purge")
    if multi:
        r.label("has-multi-slot")
    if expected:
        r.label("checked-after-restart")
    if n_over and n_purge and multi and expected:
        r.nontrivial = True
        r.label("nontrivial")
    ds.health(sq, r)
    return r
