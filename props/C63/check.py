"""C63 Forwarding loops and Max-Forwards are honoured."""
from hypothesis import strategies as st

from vlib.e2e import client
from vlib.e2e.env import ProxyEnv, fetch, usable
from vlib.e2e_runner import Result

FOREIGN = ["1.1 alpha", "1.0 fred", "1.1 p.example.net", "HTTP/1.1 beta:8080", "1.1 gamma (Apache/1.1)", "1.1 verifproxy.example.org (squid/5.0)",
           "1.1 xverifproxy (squid/4.1)", "1.1 verifproxyx", "2 delta", "1.1 sub.verifproxy", "1.1 verifproxy-2 (squid)"]


def strategy(tp):
    via = st.fixed_dictionaries({
        "kind": st.just("via"),
        "hops": st.lists(st.sampled_from(FOREIGN), min_size=0, max_size=5),
        "own": st.sampled_from(["verbatim", "verbatim", "other-version", "http-prefixed-version", "absent", "absent", "case-changed", "no-comment"]),
        "pos": st.integers(0, 5),
        "split": st.lists(st.booleans(), min_size=0, max_size=6),   # start a new Via field line before element i
        "sep": st.sampled_from([", ", ",", " , ", ",\t"]),
        "method": st.sampled_from(["GET", "GET", "POST", "HEAD", "OPTIONS"]),
        # the looping request may hit a cached object: fresh (served from cache: not forwarded) or stale (needs revalidation)
        "cached": st.sampled_from(["no", "no", "fresh", "stale"]),
    })
    mf = st.fixed_dictionaries({
        "kind": st.just("maxfwd"),
        "method": st.sampled_from(["TRACE", "OPTIONS", "GET"]),
        "value": st.one_of(st.sampled_from([None, "0", "0", "1", "2", "7", "255", "2147483647", "2147483648", "4294967296", "9223372036854775807",
                                            "00", "abc", "-1", "1x", "", "99999999999999999999"]), st.integers(1, 1000).map(str)),
    })
    return st.one_of(via, mf)


def setup(ctx):
    env = ProxyEnv(ctx, cache_mem="16 MB")
    # learn the Via element this instance emits
    path = "/" + env.ns()
    env.origin.script(path, {"status": 200, "body_b64": ""})
    fetch(env, path)
    arr = env.origin.arrivals_for(path)
    if not arr or not arr[0].msg.get("via"):
        raise RuntimeError("cannot learn the proxy's own Via element")
    env.own_via = arr[0].msg.get("via").decode()      # e.g. "1.1 verifproxy (squid/8.0.0-VCS)"
    return env


def teardown(env):
    env.close()


def _own(env, variant):
    proto, rest = env.own_via.split(" ", 1)
    host, comment = (rest.split(" ", 1) + [""])[:2]
    if variant == "verbatim":
        return env.own_via
    if variant == "other-version":
        return "1.0 " + rest
    if variant == "http-prefixed-version":
        return "HTTP/1.1 " + rest
    if variant == "case-changed":
        return "%s %s %s" % (proto, host.upper(), comment)
    if variant == "no-comment":
        return "%s %s" % (proto, host)
    return None


def execute(env, sc):
    r = Result()
    path = "/" + env.ns()
    env.origin.script(path, {"status": 200, "headers": [["Cache-Control", "no-store"]], "body_tag": path, "body_len": 20})
    if sc["kind"] == "via":
        elems = list(sc["hops"])
        own = _own(env, sc["own"])
        if own is not None:
            elems.insert(min(sc["pos"], len(elems)), own)
        lines, cur = [], []
        for i, e in enumerate(elems):
            if cur and i < len(sc["split"]) and sc["split"][i]:
                lines.append(cur)
                cur = []
            cur.append(e)
        if cur:
            lines.append(cur)
        hdrs = [("Via", sc["sep"].join(l)) for l in lines]
        body = b"x" if sc["method"] == "POST" else None
        cached = sc.get("cached", "no") if sc["method"] in ("GET", "HEAD") else "no"
        before = 0
        if cached != "no":
            env.origin.script(path, {"status": 200, "headers": [["Cache-Control", "max-age=100"]], "body_tag": path, "body_len": 20})
            fetch(env, path)
            before = env.origin.arrival_count(path)
            if cached == "stale":
                env.squid.set_clock(env.clock.offset + 1000)
            r.label("loop-request-hits-" + cached + "-entry")
        m = fetch(env, path, hdrs, method=sc["method"], body=body)
        if not usable(m, r):
            env.health(r)
            return r
        arrived = env.origin.arrival_count(path) > before
        r.label("via-own-" + sc["own"])
        if sc["own"] in ("verbatim", "other-version", "http-prefixed-version"):
            if len(elems) > 1:
                r.nontrivial = True
            if arrived:
                r.fail("loop-forwarded:own-via-element-" + sc["own"] + (":revalidating-stale-entry" if cached == "stale" else ""), "Via lines %r reached the origin" % (hdrs,))
            elif m.status < 400 and cached == "no":
                r.fail("loop-not-answered-with-error", "status %s" % m.status)
        elif sc["own"] == "absent":
            r.label("lookalikes-forwarded" if arrived else "lookalikes-refused")   # not part of the statement: counted only
        else:
            r.label(("variant-forwarded:" if arrived else "variant-refused:") + sc["own"])    # conforming hops never produce these: counted only
    else:
        hdrs = [] if sc["value"] is None else [("Max-Forwards", sc["value"])]
        m = fetch(env, path, hdrs, method=sc["method"])
        if not usable(m, r):
            env.health(r)
            return r
        arrs = env.origin.arrivals_for(path)
        v = sc["value"]
        r.label("maxfwd-%s-%s" % (sc["method"], "absent" if v is None else ("zero" if v == "0" else ("positive" if v.isdigit() and int(v) > 0 and int(v) < 2 ** 63 else "other"))))
        if sc["method"] in ("TRACE", "OPTIONS"):
            if v == "0":
                r.nontrivial = True
                if arrs:
                    r.fail("max-forwards-0-forwarded:" + sc["method"])
            elif v is not None and v.isdigit() and 0 < int(v) < 2 ** 63:
                r.nontrivial = True
                if arrs:
                    got = arrs[0].msg.get_all("max-forwards")
                    if got != [str(int(v) - 1).encode()]:
                        r.fail("max-forwards-not-decremented-by-one", "client sent %s, origin saw %r" % (v, got))
                else:
                    r.label("positive-not-forwarded")
    env.health(r)
    return r
