"""C12 Stale responses are not served without revalidation."""
from hypothesis import strategies as st

from vlib.e2e import httpref
from vlib.e2e.env import ProxyEnv, fetch, usable
from vlib.e2e.origin import http_date
from vlib.e2e_runner import Result

LIFETIMES = st.one_of(st.sampled_from([1, 5, 60, 600, 3600, 86400]), st.integers(1, 100000))


def strategy(tp):
    step = st.fixed_dictionaries({
        # where the request time falls relative to the lifetime of the stored response, in permille of the lifetime
        "at": st.one_of(st.sampled_from([0, 100, 500, 900, 1100, 1500, 3000]), st.integers(0, 3000)),
        "extra_s": st.sampled_from([0, 0, 3, 10, 100]),
        "req": st.sampled_from(["none", "none", "none", "max-age=0", "no-cache", "max-stale", "max-stale=5", "max-stale=100000000", "min-fresh=10", "max-age=100000000"]),
    })
    return st.fixed_dictionaries({
        "source": st.sampled_from(["max-age", "s-maxage", "expires", "s-maxage-over-max-age", "max-age-over-expires"]),
        "lifetime": LIFETIMES,
        "other_lifetime": LIFETIMES,
        "date_skew": st.sampled_from([0, 0, 0, -5, 5, -3600, 3600, -90000, 90000]),
        "age": st.one_of(st.none(), st.none(), st.integers(0, 200), st.integers(0, 1000000)),
        "revalidate": st.sampled_from(["", "", "must-revalidate", "proxy-revalidate"]),
        "steps": st.lists(step, min_size=1, max_size=4),
        "body_len": st.sampled_from([10, 5000]),
    })


def setup(ctx):
    return ProxyEnv(ctx, cache_mem="64 MB")


def teardown(env):
    env.close()


def execute(env, sc):
    r = Result()
    path = "/" + env.ns()
    L = sc["lifetime"]
    src = sc["source"]

    def behaviour(arr):
        now = env.clock.now()
        date = now + sc["date_skew"]
        hdrs = [["Date", http_date(date)]]
        cc = []
        if src == "max-age":
            cc.append("max-age=%d" % L)
        elif src == "s-maxage":
            cc.append("s-maxage=%d" % L)
        elif src == "expires":
            hdrs.append(["Expires", http_date(date + L)])
        elif src == "s-maxage-over-max-age":
            cc += ["max-age=%d" % sc["other_lifetime"], "s-maxage=%d" % L]
        elif src == "max-age-over-expires":
            cc.append("max-age=%d" % L)
            hdrs.append(["Expires", http_date(date + sc["other_lifetime"])])
        if sc["revalidate"]:
            cc.append(sc["revalidate"])
        if cc:
            hdrs.append(["Cache-Control", ", ".join(cc)])
        if sc["age"] is not None:
            hdrs.append(["Age", str(sc["age"])])
        hdrs.append(["X-Version", str(arr.index + 1)])
        return {"status": 200, "headers": hdrs, "date": False, "body_tag": "%s#%d" % (path, arr.index + 1), "body_len": sc["body_len"]}

    env.origin.script(path, behaviour)
    base = env.clock.offset
    m = fetch(env, path)
    if not usable(m, r) or env.origin.arrival_count(path) != 1:
        r.inconclusive = r.inconclusive or "first request did not reach the origin exactly once"
        env.health(r)
        return r
    received_at = base          # clock offset at which the currently newest origin response was received
    offset = base
    had_fresh_hit = False
    age_hdr = sc["age"] or 0
    for stp in sc["steps"]:
        target = received_at + (L * stp["at"]) // 1000 + stp["extra_s"]
        if target > offset:
            offset = target
            env.squid.set_clock(offset)
        resident = offset - received_at
        age_lb = resident + age_hdr
        before = env.origin.arrival_count(path)
        hdrs = [] if stp["req"] == "none" else [("Cache-Control", stp["req"])]
        m = fetch(env, path, hdrs)
        if not usable(m, r):
            break
        arrived = env.origin.arrival_count(path) > before
        r.sub_evaluations += 1
        staleness = age_lb - L
        must = None
        if stp["req"] in ("max-age=0", "no-cache"):
            must = "request-" + stp["req"]
        elif staleness > 2:
            if stp["req"].startswith("max-stale"):
                n = None if "=" not in stp["req"] else int(stp["req"].split("=")[1])
                if sc["revalidate"] == "must-revalidate":
                    must = "stale-must-revalidate-despite-max-stale"
                elif n is not None and staleness > n + 2:
                    must = "stale-beyond-max-stale"
            else:
                must = "stale-" + src
        elif -2 <= staleness <= 2:
            r.label("boundary-band-excluded")
        if must:
            r.label("must-contact:" + must)
            if had_fresh_hit and must.startswith("stale"):
                r.nontrivial = True
            if not arrived:
                r.fail("served-without-contacting-origin:" + must,
                       "lifetime %d (%s) resident %d Age %s request %r: no origin arrival, client got X-Version=%r" % (L, src, resident, sc["age"], stp["req"], m.get("x-version")))
                break
        else:
            if not arrived:
                r.label("hit")
                if staleness < -2:
                    had_fresh_hit = True
            else:
                r.label("miss-not-required")
        if arrived:
            received_at = offset
            if m.status == 200 and m.complete and not m.has("x-squid-error"):
                want = httpref.keyed_stream("%s#%d" % (path, env.origin.arrival_count(path)), sc["body_len"])
                if m.body != want:
                    r.label("body-of-older-version-after-arrival")
    env.health(r)
    return r
