// C23 Status-line / response head parsing is correct and segmentation-independent.
//
// Domain : response heads: HTTP/1.D status lines (version, delimiter, status, delimiter, reason, line end
//          variants; statuses dense around 99/100/599/600, 2- and 4-digit codes, signs), ICY lines,
//          non-HTTP first bytes (HTTP/0.9 bodies), proper prefixes of the magic, field blocks, body bytes,
//          + a byte mutation layer; times a vector of cut positions; relaxed_header_parser off/on/warn;
//          reply_header_max_size default or placed next to the size of the line/head/input.
// Driver : exactly HttpStateData::processReplyHeader() / Http::Tunneler::handleResponse():
//              inBuf.append(chunk); ok = hp->parse(inBuf); inBuf = hp->remaining();
//          with one parser per message, non-empty chunks, parse() never called on an empty buffer.
// Preconditions taken from the callers: while the head is being parsed the read buffer never holds more than
//          reply_header_max_size bytes (HttpStateData::calcReadBufferCapacityLimit()), so the generated
//          input is cut to the limit.
// Oracle : (a) differential: outcome(incremental) == outcome(one-shot) where outcome = need-more |
//              parsed(version, status, reason, mime block, consumed) | error(parseStatusCode);
//          (b) reference recogniser of the status-line grammar (RFC 9112 section 4; in relaxed mode the
//              section 4 tolerance "any of SP, HTAB, VT, FF, bare CR as the separator" and a bare LF line
//              end): a head parsed as HTTP/1.x or ICY must be a valid line of that language with a
//              three-digit status 100..599 and the recogniser's version/status/reason; a strictly valid line
//              followed by a well-formed complete field block that fits the limit must be parsed (with that
//              block and that consumed length); input whose first bytes are not a prefix of "HTTP/1." or
//              "ICY " and do not start with "HTTP/" must come out as the HTTP/0.9 gateway reply with nothing
//              consumed; the gateway reply is never produced for input that starts with the full magic.
//              Input starting with "HTTP/" but not "HTTP/1." (other major versions) is left open by the
//              statement ("HTTP/ICY prefix") and accepted either way (counted).
#include "squid.h"
#include "http/one/ResponseParser.h"
#include "sbuf/SBuf.h"
#include "SquidConfig.h"

#include "verif_pbt.h"

namespace {

struct Case {
    int relaxed = 1;
    long long limit = 65536; // Config.maxReplyHeaderSize
    std::string input;
    std::vector<size_t> cuts;
};

std::string cutsToText(const std::vector<size_t> &cuts)
{
    std::string s;
    for (size_t i = 0; i < cuts.size(); ++i) {
        if (i) s += ',';
        s += std::to_string(cuts[i]);
    }
    return s;
}

std::vector<size_t> normalizeCuts(std::vector<size_t> cuts, size_t n)
{
    std::sort(cuts.begin(), cuts.end());
    cuts.erase(std::unique(cuts.begin(), cuts.end()), cuts.end());
    std::vector<size_t> r;
    for (size_t p : cuts)
        if (p > 0 && p < n) r.push_back(p);
    return r;
}

std::string show(const Case &c)
{
    return vp::Writer().i("relaxed", c.relaxed).i("limit", c.limit).s("input", c.input).s("cuts", cutsToText(c.cuts)).str();
}

Case parse(const std::string &text)
{
    vp::Reader r(text);
    Case c;
    c.relaxed = static_cast<int>(r.i("relaxed"));
    c.limit = r.i("limit");
    c.input = r.s("input");
    std::vector<size_t> cuts;
    const std::string cs = r.s("cuts");
    size_t i = 0;
    while (i < cs.size()) {
        size_t j = i;
        while (j < cs.size() && cs[j] != ',') ++j;
        if (j > i) cuts.push_back(static_cast<size_t>(strtoull(cs.substr(i, j - i).c_str(), nullptr, 10)));
        i = j + 1;
    }
    c.cuts = normalizeCuts(cuts, c.input.size());
    return c;
}

// ------------------------------------------------------------------ generator

using Strs = std::vector<std::string>;
std::string pick(const Strs &v) { return v[*vp::range<size_t>(0, v.size() - 1)]; }
bool chance(int percent) { return *vp::range<int>(0, 99) < percent; }

const char kInterestingRaw[] = "\r\n \t\v\f\0:/.0159HIx\x7f\x80\xff";
const std::string kInteresting(kInterestingRaw, sizeof(kInterestingRaw) - 1);

char interestingByte()
{
    if (chance(70)) return kInteresting[*vp::range<size_t>(0, kInteresting.size() - 1)];
    return static_cast<char>(*vp::range<int>(0, 255));
}

std::string genDelim()
{
    if (chance(88)) return " ";
    static const Strs d = {"\t", "\v", "\f", "\r", "  ", "", " \t", "\r\r"};
    return pick(d);
}

std::string genVersion()
{
    const int k = *vp::range<int>(0, 19);
    if (k < 11) return "HTTP/1.1";
    if (k < 14) return "HTTP/1.0";
    if (k < 17) return std::string("HTTP/1.") + static_cast<char>('0' + *vp::range<int>(0, 9));
    static const Strs v = {"HTTP/1.10", "HTTP/1.", "HTTP/1.x", "HTTP/1.-1", "HTTP/1.+1", "HTTP/1. 1"};
    return pick(v);
}

std::string genStatus()
{
    const int k = *vp::range<int>(0, 19);
    if (k < 8) {
        static const Strs s = {"200", "404", "304", "100", "101", "206", "301", "500", "503", "204"};
        return pick(s);
    }
    if (k < 14) {
        static const Strs s = {"099", "100", "599", "600", "100", "599", "000", "999", "098", "601", "199", "590", "101", "598", "010"};
        return pick(s);
    }
    if (k < 17) {
        static const Strs s = {"99", "20", "2", "", "1000", "2000", "0200", "5999", "+20", "-20", "2x0", "20x", " 200", "2 0", "0x1", "1e2"};
        return pick(s);
    }
    std::string s;
    for (int i = 0; i < 3; ++i) s += static_cast<char>('0' + *vp::range<int>(0, 9));
    return s;
}

std::string genReason()
{
    const int k = *vp::range<int>(0, 19);
    if (k < 10) {
        static const Strs r = {"OK", "Not Found", "Continue", "Moved Permanently", "OK", "No Content", "caf\xe9 \t ok"};
        return pick(r);
    }
    if (k < 12) return std::string();
    if (k < 17) {
        static const Strs r = {"OK \t x", " OK", "caf\xe9", "a\x01" "b", "a\x7f" "b", "O\vK", "O\fK", "O\rK", std::string("a\0b", 3), "\t", "200 OK", "HTTP/1.1 200 OK", "OK\r"};
        return pick(r);
    }
    std::string s;
    const int n = *vp::range<int>(1, 80);
    for (int i = 0; i < n; ++i) s += static_cast<char>('A' + (i % 26));
    return s;
}

std::string genEol()
{
    if (chance(82)) return "\r\n";
    static const Strs e = {"\n", "\n", "\r\r\n", "\r", "\n\r", "", " \r\n"};
    return pick(e);
}

std::string genField()
{
    const int k = *vp::range<int>(0, 19);
    if (k < 11) {
        static const Strs f = {"Content-Length: 5", "Server: x", "Date: Mon, 01 Jan 2024 00:00:00 GMT", "Connection: close", "Content-Type: text/html", "X-A: b"};
        return pick(f);
    }
    if (k < 17) {
        static const Strs f = {" folded", "\tfolded", "NoColon", "Name : v", std::string("A:\0b", 4), ":", "X:\t y ", "", "\rX: y", "X: a\rb", "\x0bX: y", "X: \xff"};
        return pick(f);
    }
    std::string s = "X-Long: ";
    const int n = *vp::range<int>(1, 90);
    for (int i = 0; i < n; ++i) s += static_cast<char>('0' + (i % 10));
    return s;
}

std::string genBody()
{
    if (chance(45)) return std::string();
    static const Strs t = {"hello", "HTTP/1.1 200 OK\r\n\r\n", "\r\n", "\n", "\r", std::string("\0\0", 2), "<html>", "5\r\nhello\r\n0\r\n\r\n"};
    return pick(t);
}

void mutate(std::string &s)
{
    const int n = *vp::range<int>(1, 2);
    for (int m = 0; m < n; ++m) {
        const int kind = *vp::range<int>(0, 9);
        if (s.empty()) { s += interestingByte(); continue; }
        // mutations concentrate on the status line
        const size_t span = chance(60) ? std::min<size_t>(s.size(), 20) : s.size();
        const size_t pos = *vp::range<size_t>(0, span - 1);
        if (kind < 4) s[pos] = interestingByte();
        else if (kind < 7) s.insert(s.begin() + static_cast<long>(pos), interestingByte());
        else if (kind < 8) s.erase(pos, 1);
        else if (kind < 9) {
            const size_t len = std::min<size_t>(s.size() - pos, *vp::range<size_t>(1, 12));
            s.insert(pos, s.substr(pos, len));
        } else s.resize(pos);
    }
}

std::vector<size_t> genCuts(const std::string &in, size_t lineLen)
{
    const size_t n = in.size();
    std::vector<size_t> cuts;
    if (n < 2) return cuts;
    const int kind = *vp::range<int>(0, 19);
    if (kind < 1) return cuts;
    if (kind < 5) {
        cuts.push_back(*vp::range<size_t>(1, n - 1));
    } else if (kind < 9) {
        // inside the status line
        const size_t hi = std::max<size_t>(1, std::min(n - 1, lineLen ? lineLen : n - 1));
        const int k = *vp::range<int>(1, 3);
        for (int i = 0; i < k; ++i) cuts.push_back(*vp::range<size_t>(1, hi));
    } else if (kind < 13 && n <= 600) {
        for (size_t p = 1; p < n; ++p) cuts.push_back(p);
    } else if (kind < 16) {
        const int k = *vp::range<int>(2, 6);
        for (int i = 0; i < k; ++i) cuts.push_back(*vp::range<size_t>(1, n - 1));
    } else {
        std::vector<size_t> cand;
        for (size_t p = 1; p < n; ++p)
            if (in[p - 1] == '\r' || in[p - 1] == '\n' || in[p] == '\r' || in[p] == '\n') cand.push_back(p);
        if (cand.empty()) cand.push_back(*vp::range<size_t>(1, n - 1));
        const int k = *vp::range<int>(1, 3);
        for (int i = 0; i < k; ++i) cuts.push_back(cand[*vp::range<size_t>(0, cand.size() - 1)]);
    }
    return normalizeCuts(cuts, n);
}

rc::Gen<Case> gen()
{
    return rc::gen::exec([]() {
        Case c;
        c.relaxed = *rc::gen::weightedElement<int>({{5, 1}, {4, 0}, {1, -1}});
        std::string s;
        size_t lineLen = 0;
        const int kind = *vp::range<int>(0, 99);
        const bool big = *vp::range<int>(0, 1999) == 0;
        if (kind < 72 || kind >= 92) {
            if (kind >= 92) s = "ICY"; // ICY <status> <reason>: same shape without a version
            else s = genVersion();
            s += genDelim();
            s += genStatus();
            s += genDelim();
            s += genReason();
            s += genEol();
            lineLen = s.size();
            const bool truncatedHead = chance(8);
            if (!truncatedHead || chance(50)) {
                const int nf = *rc::gen::weightedElement<int>({{3, 0}, {3, 1}, {3, 2}, {1, 4}});
                for (int i = 0; i < nf; ++i) { s += genField(); s += genEol(); }
                if (big) {
                    const size_t want = 65536 + static_cast<size_t>(*vp::range<int>(-40, 8));
                    if (s.size() + 12 < want) { s += "X-Pad: "; s += std::string(want - s.size() - 9, 'p'); s += "\r\n"; }
                }
            }
            if (!truncatedHead) s += genEol();
        } else if (kind < 84) {
            static const Strs other = {"<html><body>hi</body></html>", "HTTX/1.1 200 OK\r\n\r\n", "HTTP/2.0 200 OK\r\n\r\n", "HTTP/0.9 200 OK\r\n\r\n", "HTTP/3 200\r\n\r\n",
                                       "http/1.1 200 OK\r\n\r\n", "\r\nHTTP/1.1 200 OK\r\n\r\n", " HTTP/1.1 200 OK\r\n\r\n", "ICX 200 OK\r\n\r\n", "ICY\t200 OK\r\n\r\n", "icy 200 OK\r\n\r\n",
                                       "220 ftp ready\r\n", "SSH-2.0-x\r\n", "H", "X", "\n", std::string("\0", 1), "HTTP/1,1 200 OK\r\n\r\n", "HTTP/11.1 200 OK\r\n\r\n", "HTTPS/1.1 200 OK\r\n\r\n"};
            s = pick(other);
            if (chance(30)) s = *vp::bytes(24);
        } else {
            // proper and improper prefixes of the magic
            static const std::string m1 = "HTTP/1.1 200 OK\r\n\r\n", m2 = "ICY 200 OK\r\n\r\n";
            const std::string &m = chance(70) ? m1 : m2;
            s = m.substr(0, *vp::range<size_t>(1, 10));
            if (chance(30)) s += interestingByte();
        }
        const size_t headLen = s.size();
        s += genBody();
        if (chance(25)) mutate(s);
        if (s.empty()) s = "H";

        if (big || chance(60)) c.limit = 65536;
        else {
            const int k = *vp::range<int>(0, 4);
            const long long d = *vp::range<int>(-3, 3);
            if (k == 0) c.limit = static_cast<long long>(lineLen) + d;
            else if (k == 1) c.limit = static_cast<long long>(headLen) + d + (chance(50) ? 16 : 0);
            else if (k == 2) c.limit = static_cast<long long>(s.size()) + d;
            else c.limit = *rc::gen::element<long long>(16, 24, 32, 48, 64, 100, 200);
        }
        if (c.limit < 8) c.limit = 8;
        // the read buffer never holds more than reply_header_max_size bytes while the head is parsed
        if (s.size() > static_cast<size_t>(c.limit)) s.resize(static_cast<size_t>(c.limit));
        c.input = s;
        c.cuts = genCuts(c.input, lineLen);
        return c;
    });
}

// ------------------------------------------------------------------ driving the real parser

struct Out {
    int kind = 0; // 0 need-more, 1 parsed, 2 error
    int errStatus = 0;
    int proto = 0, major = 0, minor = 0;
    int status = 0;
    std::string reason, mime;
    size_t consumed = 0;
};

std::string str(const SBuf &b) { return std::string(b.rawContent(), b.length()); }

Out drive(const Case &c, const std::vector<size_t> &cuts)
{
    Out o;
    Http1::ResponseParserPointer hp = new Http1::ResponseParser;
    SBuf inBuf;
    size_t pos = 0;
    for (size_t i = 0; i <= cuts.size(); ++i) {
        const size_t end = i < cuts.size() ? cuts[i] : c.input.size();
        if (end <= pos) continue;
        inBuf.append(c.input.data() + pos, end - pos);
        pos = end;
        const bool ok = hp->parse(inBuf);
        inBuf = hp->remaining();
        if (hp->needsMoreData()) continue;
        o.kind = ok ? 1 : 2;
        break;
    }
    o.consumed = pos - inBuf.length();
    o.errStatus = static_cast<int>(hp->parseStatusCode);
    if (o.kind == 1) {
        const auto &v = hp->messageProtocol();
        o.proto = static_cast<int>(v.protocol);
        o.major = static_cast<int>(v.major);
        o.minor = static_cast<int>(v.minor);
        o.status = static_cast<int>(hp->messageStatus());
        o.reason = str(hp->reasonPhrase());
        o.mime = str(hp->mimeHeader());
    }
    return o;
}

const char *kindName(int k) { return k == 0 ? "need-more" : k == 1 ? "parsed" : "error"; }

std::string describe(const Out &o)
{
    std::string s = kindName(o.kind);
    if (o.kind == 2) s += " parseStatusCode=" + std::to_string(o.errStatus);
    if (o.kind == 1)
        s += " proto=" + std::to_string(o.proto) + "/" + std::to_string(o.major) + "." + std::to_string(o.minor) + " status=" + std::to_string(o.status) +
             " reason=" + vp::esc(o.reason.substr(0, 60)) + " mime=" + vp::esc(o.mime.substr(0, 60)) + " consumed=" + std::to_string(o.consumed);
    return s;
}

std::string difference(const Out &one, const Out &inc)
{
    if (one.kind != inc.kind) return std::string("oneshot-") + kindName(one.kind) + "/incremental-" + kindName(inc.kind);
    if (one.kind == 0) return std::string();
    if (one.kind == 2) return one.errStatus == inc.errStatus ? std::string() : "error-status-differs";
    if (one.proto != inc.proto || one.major != inc.major || one.minor != inc.minor) return "parsed-version-differs";
    if (one.status != inc.status) return "parsed-status-differs";
    if (one.reason != inc.reason) return "parsed-reason-differs";
    if (one.mime != inc.mime) return "parsed-mime-block-differs";
    if (one.consumed != inc.consumed) return "parsed-consumed-length-differs";
    return std::string();
}

// ------------------------------------------------------------------ reference recogniser (RFC 9112 section 4)

struct Ref {
    enum Class { Http09, OtherHttpVersion, MagicPrefixOnly, StatusLine } cls = Http09;
    bool icy = false;
    bool decided = false;     // the bytes present decide validity (complete line, or an error before its end)
    bool valid = false;       // complete line of the mode's language
    bool strictValid = false; // complete line of the strict grammar (SP separators, CRLF)
    int minor = 0, status = 0;
    std::string reason;
    size_t lineLen = 0;       // including the terminator
    bool statusBoundary = false;
    // field block after a valid line
    bool blockWellFormed = false;
    size_t blockLen = 0;
};

bool isDelim(unsigned char ch, bool relaxed) { return ch == ' ' || (relaxed && (ch == '\t' || ch == '\v' || ch == '\f' || ch == '\r')); }
bool isReasonChar(unsigned char ch) { return ch == '\t' || ch == ' ' || (ch >= 0x21 && ch <= 0x7e) || ch >= 0x80; }
bool isDigit(unsigned char ch) { return ch >= '0' && ch <= '9'; }

bool prefixCompatible(const std::string &in, const std::string &magic)
{
    const size_t k = std::min(in.size(), magic.size());
    return in.compare(0, k, magic, 0, k) == 0;
}

Ref reference(const std::string &in, bool relaxed)
{
    Ref r;
    static const std::string httpMagic = "HTTP/1.", icyMagic = "ICY ";
    const bool http = prefixCompatible(in, httpMagic), icy = prefixCompatible(in, icyMagic);
    if (http && in.size() < httpMagic.size()) { r.cls = Ref::MagicPrefixOnly; return r; }
    if (icy && in.size() < icyMagic.size()) { r.cls = Ref::MagicPrefixOnly; return r; }
    if (!http && !icy) {
        r.cls = in.compare(0, 5, "HTTP/") == 0 ? Ref::OtherHttpVersion : Ref::Http09;
        return r;
    }
    r.cls = Ref::StatusLine;
    r.icy = icy && !http;
    const size_t n = in.size();
    size_t i = 0;
    bool strict = true; // still inside the strict grammar
    auto bad = [&r]() { r.decided = true; r.valid = false; r.strictValid = false; return r; };
    if (!r.icy) {
        i = httpMagic.size();
        if (i >= n) return r; // undecided
        if (!isDigit(in[i])) return bad();
        r.minor = in[i] - '0';
        ++i;
        if (i >= n) return r;
        if (!isDelim(in[i], relaxed)) return bad();
        if (in[i] != ' ') strict = false;
        ++i;
    } else
        i = icyMagic.size(); // the SP is part of the magic
    // status-code = 3DIGIT, then a separator
    for (int d = 0; d < 3; ++d) {
        if (i >= n) return r;
        if (!isDigit(in[i])) return bad();
        r.status = r.status * 10 + (in[i] - '0');
        ++i;
    }
    r.statusBoundary = r.status == 99 || r.status == 100 || r.status == 599 || r.status == 600;
    if (i >= n) return r;
    if (!isDelim(in[i], relaxed)) return bad();
    if (in[i] != ' ') strict = false;
    ++i;
    if (r.status < 100 || r.status > 599) return bad();
    const size_t reasonStart = i;
    while (i < n && isReasonChar(in[i])) ++i;
    r.reason = in.substr(reasonStart, i - reasonStart);
    if (i >= n) return r;
    if (in[i] == '\n') {
        if (!relaxed) return bad();
        strict = false;
        ++i;
    } else if (in[i] == '\r') {
        if (i + 1 >= n) return r;
        if (in[i + 1] != '\n') return bad();
        i += 2;
    } else
        return bad();
    r.decided = true;
    r.valid = true;
    r.strictValid = strict;
    r.lineLen = i;
    // a well-formed complete field block: *( field-line CRLF ) CRLF, field-line = token ":" value without CR/LF/NUL
    size_t p = i;
    while (p < n) {
        const size_t e = in.find("\r\n", p);
        if (e == std::string::npos) break;
        if (e == p) { r.blockWellFormed = true; r.blockLen = p + 2 - i; break; }
        const std::string line = in.substr(p, e - p);
        const size_t colon = line.find(':');
        if (colon == std::string::npos || colon == 0) break;
        bool ok = true;
        for (size_t k = 0; k < colon; ++k) {
            const unsigned char ch = line[k];
            if (!(isalnum(ch) || ch == '-' || ch == '_')) ok = false;
        }
        for (size_t k = colon + 1; k < line.size(); ++k) {
            const unsigned char ch = line[k];
            if (ch == '\r' || ch == '\n' || ch == 0 || ch == '\v' || ch == '\f' || ch == 0x7f || (ch < 0x20 && ch != '\t')) ok = false;
        }
        if (!ok) break;
        p = e + 2;
    }
    return r;
}

bool isGateway(const Out &o)
{
    return o.kind == 1 && o.consumed == 0 && o.status == 200 && o.mime.compare(0, 28, "X-Transformed-From: HTTP/0.9") == 0;
}

/// reference oracle applied to one outcome (one-shot or incremental); empty = fine
std::string judgeReference(const Case &c, const Ref &ref, const Out &o, bool complete)
{
    const bool gw = isGateway(o);
    if (ref.cls == Ref::Http09) {
        if (!gw) return std::string("non-http-input-not-gatewayed-as-http09:") + kindName(o.kind);
        return std::string();
    }
    if (ref.cls == Ref::OtherHttpVersion) return std::string(); // left open
    if (gw) return "http09-gateway-for-input-with-http1-or-icy-magic";
    if (ref.cls == Ref::MagicPrefixOnly) {
        // nothing but a proper prefix of the magic has arrived: no verdict is possible yet
        if (o.kind != 0) return std::string("verdict-on-a-proper-prefix-of-the-magic:") + kindName(o.kind);
        return std::string();
    }
    // a status line
    if (o.kind == 1) {
        if (!(ref.decided && ref.valid)) return "parsed-a-status-line-outside-the-grammar";
        if (o.status < 100 || o.status > 599) return "parsed-status-outside-100-599";
        if (o.status != ref.status) return "parsed-status-is-not-the-three-digits";
        if (ref.icy) {
            if (o.proto != static_cast<int>(AnyP::PROTO_ICY)) return "icy-line-not-reported-as-icy";
        } else if (o.proto != static_cast<int>(AnyP::PROTO_HTTP) || o.major != 1 || o.minor != ref.minor)
            return "parsed-version-is-not-the-grammar-field";
        if (o.reason != ref.reason) return "parsed-reason-is-not-the-grammar-field";
        if (o.consumed < ref.lineLen) return "consumed-less-than-the-status-line";
    }
    if (ref.decided && !ref.valid && o.kind == 0 && complete) {
        // not asserted: the statement only constrains what is accepted; counted by the caller
    }
    if (complete && ref.decided && ref.strictValid && ref.blockWellFormed &&
            ref.lineLen + ref.blockLen + 16 < static_cast<size_t>(c.limit)) {
        if (o.kind != 1) return std::string("valid-head-not-parsed:") + kindName(o.kind);
        if (o.consumed != ref.lineLen + ref.blockLen) return "valid-head-consumed-length-wrong";
        if (o.mime != c.input.substr(ref.lineLen, ref.blockLen)) return "valid-head-mime-block-wrong";
    }
    return std::string();
}

vp::Verdict check(const Case &c, vp::Ctx &ctx)
{
    Config.onoff.relaxed_header_parser = c.relaxed;
    Config.maxReplyHeaderSize = static_cast<size_t>(c.limit);
    Config.maxRequestHeaderSize = 65536;

    if (c.input.empty()) { ctx.excluded("empty input: parse() is never called without data"); return vp::pass(); }
    if (c.limit < 8 || c.input.size() > static_cast<size_t>(c.limit)) {
        ctx.excluded("input longer than reply_header_max_size: the callers never buffer that much while parsing the head");
        return vp::pass();
    }
    const std::vector<size_t> cuts = normalizeCuts(c.cuts, c.input.size());
    const Out one = drive(c, std::vector<size_t>());
    const Out inc = drive(c, cuts);
    const Ref ref = reference(c.input, c.relaxed != 0);

    // ---- labels
    const std::string &in = c.input;
    size_t lineEnd = in.find('\n');
    if (lineEnd == std::string::npos) lineEnd = in.size();
    bool cutInLine = false, cutInTerminator = false;
    for (size_t p : cuts) {
        if (p <= lineEnd && ref.cls != Ref::Http09) cutInLine = true;
        if (one.kind == 1 && !isGateway(one) && p > lineEnd && p + 3 >= one.consumed && p < one.consumed) cutInTerminator = true;
    }
    ctx.label(c.relaxed ? (c.relaxed < 0 ? "mode-warn" : "mode-relaxed") : "mode-strict");
    ctx.label(std::string("oneshot-") + kindName(one.kind));
    static const char *clsNames[] = {"class-http09-body", "class-other-http-version", "class-magic-prefix-only", "class-status-line"};
    ctx.label(clsNames[ref.cls]);
    if (ref.icy) ctx.label("icy");
    if (isGateway(one)) ctx.label("oneshot-http09-gateway");
    if (ref.cls == Ref::StatusLine) {
        ctx.label(ref.decided ? (ref.valid ? "ref-valid-line" : "ref-invalid-line") : "ref-undecided-line");
        if (ref.statusBoundary) ctx.label("status-99-100-599-600");
        if (ref.decided && ref.strictValid && ref.blockWellFormed) ctx.label("ref-valid-head-with-wellformed-block");
        if (ref.decided && !ref.valid && one.kind == 0) ctx.excluded("invalid status line answered need-more (only acceptance is constrained)");
    }
    if (ref.cls == Ref::OtherHttpVersion) ctx.excluded("HTTP/ prefix of another major version: gatewaying left open by the statement");
    if (cuts.empty()) ctx.label("no-cut");
    if (cutInLine) ctx.label("cut-in-status-line");
    if (cutInTerminator) ctx.label("cut-in-header-terminator");
    if (c.limit != 65536) ctx.label("small-limit");
    if (one.kind == 2) ctx.label("oneshot-error-" + std::to_string(one.errStatus));
    if (cutInLine || cutInTerminator || (ref.statusBoundary && ref.cls == Ref::StatusLine)) ctx.nontrivial();

    // ---- (b) reference
    const std::string r1 = judgeReference(c, ref, one, true);
    if (!r1.empty()) return vp::fail("c23:ref:" + r1, "oneshot: " + describe(one));
    // the incremental run saw the same bytes unless it stopped early; when it stopped early its verdict was
    // reached on a prefix, which the differential oracle below compares with the one-shot verdict
    // ---- (a) differential
    const std::string diff = difference(one, inc);
    if (!diff.empty())
        return vp::fail("c23:seg:" + diff, "oneshot: " + describe(one) + " | incremental(" + cutsToText(cuts) + "): " + describe(inc));
    return vp::pass();
}

#ifdef VP_FUZZ
Case fuzzDecode(FuzzedDataProvider &fdp)
{
    Case c;
    static const int modes[] = {1, 0, -1};
    c.relaxed = modes[fdp.ConsumeIntegralInRange<int>(0, 2)];
    const int lk = fdp.ConsumeIntegralInRange<int>(0, 7);
    const int ld = fdp.ConsumeIntegralInRange<int>(0, 40);
    const int nc = fdp.ConsumeIntegralInRange<int>(0, 6);
    std::vector<size_t> cuts;
    bool drip = nc == 6;
    if (!drip)
        for (int i = 0; i < nc; ++i) cuts.push_back(fdp.ConsumeIntegralInRange<size_t>(1, 200));
    c.input = fdp.ConsumeRemainingBytesAsString();
    if (lk < 4) c.limit = 65536;
    else if (lk < 6) c.limit = 8 + ld * 4;
    else c.limit = std::max<long long>(8, static_cast<long long>(c.input.size()) - 20 + ld);
    if (c.input.size() > static_cast<size_t>(c.limit)) c.input.resize(static_cast<size_t>(c.limit));
    if (drip)
        for (size_t p = 1; p < c.input.size(); ++p) cuts.push_back(p);
    c.cuts = normalizeCuts(cuts, c.input.size());
    return c;
}
#else
std::function<Case(FuzzedDataProvider &)> fuzzDecode = nullptr;
#endif

void registerAll()
{
    vp::add<Case>("response_head", gen(), check, show, parse, 1.0, fuzzDecode);
}

} // namespace

VP_MAIN(registerAll)
