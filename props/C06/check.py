"""C06 CONNECT tunnels relay both directions unchanged.

The client CONNECTs through the proxy to a harness-owned raw TCP target (vlib.e2e.tcpstub).  After the proxy's 200 both
ends run generated full-duplex scripts: keyed pseudo-random streams of generated length, write segmentation and pauses,
one side optionally waiting for some bytes of the other before it starts, client bytes sent in the same segment as the
CONNECT head ("early" bytes), a target that starts late, and a generated close ordering.

Oracle:
  always      what the client received after the 200 head is a prefix of the target's stream, and what the target
              received is a prefix of the client's stream (nothing inserted, altered, reordered).
  orderly     (each side half-closes only after it has received the whole stream of the other): both directions
              complete.
  X-fin-first (side X writes its whole stream and half-closes at once; the other side closes only after it has seen the
              end of the connection): everything X sent arrives at the other side before that side sees the end.
              Bytes travelling towards X may be cut (the proxy turns X's FIN into a full close of X's connection).
              The signature gets the suffix ":while-<other>-still-sending" when the other side had bytes under way
              towards X at that moment (known finding: the proxy close()s the other side's socket with unread data,
              the kernel resets the connection and drops what the proxy had queued to it).
  simultaneous FIN, close() with unread data, RST, early stop: prefix rule only.
Waits that run out make the completeness part inconclusive; the prefix rule is judged on whatever arrived.
"""
import re
import time

from hypothesis import strategies as st

from vlib.e2e import client, httpref, tcpstub
from vlib.e2e.env import ProxyEnv
from vlib.e2e_runner import Result

LENGTHS = [0, 1, 2, 100, 4095, 4096, 4097, 16383, 16384, 16385, 32768, 65535, 65536, 65537, 131072, 262144, 524288, 1048576, 2097152]
MODES = ["orderly", "orderly", "client-fin-first", "client-fin-first", "target-fin-first", "target-fin-first", "simultaneous-fin",
         "client-rst", "target-rst", "client-close", "target-close"]
PEER_DEADLINE = 20.0


def strategy(tp):
    max_len = int(tp.get("max_len", 300000))
    length = st.one_of(st.integers(0, 3000), st.integers(0, 3000), st.sampled_from([l for l in LENGTHS if l <= max_len]), st.integers(0, min(max_len, 70000)),
                       st.integers(0, max_len))
    seg = st.one_of(st.integers(1, 40), st.integers(1, 600), st.integers(1, 70000))
    segs = st.lists(seg, min_size=0, max_size=10)
    pauses = st.lists(st.sampled_from([0, 0, 0, 1, 3, 10]), min_size=0, max_size=10)
    wait = st.sampled_from([0, 0, 0, 1, 100, 5000])
    return st.fixed_dictionaries({
        "c2t_len": length, "t2c_len": length,
        "c_segments": segs, "c_pauses": pauses, "t_segments": segs, "t_pauses": pauses,
        "early": st.sampled_from([0, 0, 1, 100, 5000, 10 ** 9]),
        "head_segments": st.lists(st.integers(1, 60), min_size=0, max_size=3),
        "mode": st.sampled_from(MODES),
        "limit_permille": st.integers(0, 1000),
        "c_wait": wait, "t_wait": wait,
        "t_delay_ms": st.sampled_from([0, 0, 0, 20, 100]),
        "version": st.sampled_from(["1.1", "1.1", "1.0"]),
    })


class Env:
    def __init__(self, ctx):
        self.base = ProxyEnv(ctx, conf="read_timeout 30 seconds\nrequest_timeout 30 seconds\n", cache_mem="8 MB")
        self.stub = tcpstub.TcpStub()

    def close(self):
        self.stub.stop()
        self.base.close()


def setup(ctx):
    return Env(ctx)


def teardown(env):
    env.close()


def _first_diff(a, b):
    n = min(len(a), len(b))
    return next((i for i in range(n) if a[i] != b[i]), n)


def execute(env, sc):
    r = Result()
    base = env.base
    ns = base.ns()
    mode = sc["mode"]
    c2t = httpref.keyed_stream(ns + "#c2t", sc["c2t_len"])
    t2c = httpref.keyed_stream(ns + "#t2c", sc["t2c_len"])
    early = min(sc["early"], len(c2t))
    r.label("mode-" + mode)

    cs = {"data": c2t[early:], "segments": sc["c_segments"], "pause_ms": sc["c_pauses"], "send_after_received": min(sc["c_wait"], len(t2c)), "deadline": PEER_DEADLINE}
    ts = {"data": t2c, "segments": sc["t_segments"], "pause_ms": sc["t_pauses"], "send_after_received": min(sc["t_wait"], len(c2t)), "deadline": PEER_DEADLINE,
          "start_delay_ms": sc["t_delay_ms"]}
    if cs["send_after_received"] and ts["send_after_received"]:
        ts["send_after_received"] = 0   # only one side waits for the other
    stopper = None
    if mode == "orderly":
        cs.update(close_when="sent-and-received", expect_len=len(t2c), close_how="fin")
        ts.update(close_when="sent-and-received", expect_len=len(c2t), close_how="fin")
    elif mode == "client-fin-first":
        cs.update(close_when="sent", close_how="fin")
        ts.update(close_when="peer-eof", close_how="close")
    elif mode == "target-fin-first":
        ts.update(close_when="sent", close_how="fin")
        cs.update(close_when="peer-eof", close_how="close")
    elif mode == "simultaneous-fin":
        cs.update(close_when="sent", close_how="fin")
        ts.update(close_when="sent", close_how="fin")
    else:
        who, how = mode.split("-")
        mine, other = (cs, ts) if who == "client" else (ts, cs)
        mine.update(close_when="sent", close_how=how, send_limit=len(mine["data"]) * sc["limit_permille"] // 1000)
        other.update(close_when="peer-eof", close_how="close")
        stopper = who

    holder = env.stub.expect(ts)
    c = client.Conn(base.port, timeout=15)
    cp = None
    try:
        head = ("CONNECT 127.0.0.1:%d HTTP/%s\r\nHost: 127.0.0.1:%d\r\n\r\n" % (env.stub.port, sc["version"], env.stub.port)).encode()
        c.send(head + c2t[:early], sc["head_segments"])
        deadline = time.time() + 15
        while b"\r\n\r\n" not in c.rbuf and c._fill(deadline):
            pass
        raw = bytes(c.rbuf)
        if b"\r\n\r\n" not in raw:
            env.stub.cancel(holder)
            if c.eof:
                r.label("connection-closed-before-connect-response")
            else:
                r.inconclusive = "no CONNECT response before the deadline"
            base.health(r)
            return r
        hend = raw.index(b"\r\n\r\n") + 4
        m = re.match(rb"^HTTP/1\.[01] (\d{3})", raw)
        if not m or m.group(1) != b"200":
            env.stub.cancel(holder)
            r.label("connect-answered-%s" % (m.group(1).decode() if m else "garbage"))
            base.health(r)
            return r
        if not holder.wait_accepted(5.0):   # the kernel completes the handshake; only the stub's accept() may lag
            env.stub.cancel(holder)
            r.inconclusive = "the target stub accepted no connection within 5 s of the proxy's 200 (slow accept thread?)"
            base.health(r)
            return r
        cp = tcpstub.Peer(c.s, cs, prefill=raw[hend:]).start()
        tp_ = holder.peer
        done_c = cp.finish()
        done_t = tp_.finish()
    finally:
        if cp is None:
            c.close()

    got_c = bytes(cp.received)
    got_t = bytes(tp_.received)
    # ---- always: prefix rule
    if t2c[:len(got_c)] != got_c:
        r.fail("client-received-bytes-not-a-prefix-of-target-stream", "client got %d bytes after the 200 head, first difference at %d (target stream %d bytes); mode %s" % (
            len(got_c), _first_diff(got_c, t2c), len(t2c), mode))
    if c2t[:len(got_t)] != got_t:
        r.fail("target-received-bytes-not-a-prefix-of-client-stream", "target got %d bytes, first difference at %d (client stream %d bytes, %d early); mode %s" % (
            len(got_t), _first_diff(got_t, c2t), len(c2t), early, mode))
    # ---- non-triviality
    both = len(c2t) > 0 and len(t2c) > 0
    if early:
        r.label("early-bytes")
    if both:
        r.label("both-directions")
    if (both and (sc["c_wait"] or sc["t_wait"] or len(sc["c_segments"]) > 1 or len(sc["t_segments"]) > 1)) or early or (mode != "orderly" and (len(c2t) + len(t2c)) > 0):
        r.nontrivial = True
    # ---- completeness where the statement gives it
    timed_out = (not done_c) or (not done_t) or cp.timed_out or tp_.timed_out
    if timed_out:
        r.inconclusive = "a tunnel end did not finish its script before its deadline"
    elif not r.violations:
        client_sent_all = (not cp.send_failed) and cp.sent == len(cs["data"]) and cs.get("send_limit") is None
        target_sent_all = (not tp_.send_failed) and tp_.sent == len(ts["data"]) and ts.get("send_limit") is None
        if mode == "orderly":
            if got_t != c2t:
                r.fail("orderly-tunnel-incomplete:client-to-target", "target got %d of %d bytes (client wrote %d+%d early, send_failed=%s; target eof=%s reset=%s)" % (
                    len(got_t), len(c2t), cp.sent, early, cp.send_failed, tp_.eof, tp_.reset))
            if got_c != t2c:
                r.fail("orderly-tunnel-incomplete:target-to-client", "client got %d of %d bytes (target wrote %d, send_failed=%s; client eof=%s reset=%s)" % (
                    len(got_c), len(t2c), tp_.sent, tp_.send_failed, cp.eof, cp.reset))
            if not r.violations:
                r.label("complete-both-directions")
        elif mode == "client-fin-first":
            if client_sent_all:
                r.label("fin-first-sender-wrote-everything")
                if got_t != c2t:
                    # was the target still sending towards the closing client (bytes the proxy had not read/delivered when it closed)?
                    toward_cut = tp_.send_failed or tp_.sent < len(ts["data"]) or len(got_c) < tp_.sent
                    r.fail("bytes-sent-before-client-fin-not-delivered" + (":while-target-still-sending" if toward_cut else ""), "client wrote all %d bytes (%d early) and then half-closed; target saw the end (eof=%s reset=%s) after %d bytes; target stream %d bytes, %d written" % (
                        len(c2t), early, tp_.eof, tp_.reset, len(got_t), len(t2c), tp_.sent))
                else:
                    r.label("complete-from-closing-side")
        elif mode == "target-fin-first":
            if target_sent_all:
                r.label("fin-first-sender-wrote-everything")
                if got_c != t2c:
                    # was the client still sending towards the closing target (bytes the proxy had not read/delivered when it closed)?
                    toward_cut = cp.send_failed or cp.sent < len(cs["data"]) or len(got_t) < cp.sent + early
                    r.fail("bytes-sent-before-target-fin-not-delivered" + (":while-client-still-sending" if toward_cut else ""), "target wrote all %d bytes and then half-closed; client saw the end (eof=%s reset=%s) after %d bytes; client stream %d bytes, %d written" % (
                        len(t2c), cp.eof, cp.reset, len(got_c), len(c2t), cp.sent))
                else:
                    r.label("complete-from-closing-side")
        else:
            r.label("prefix-only-mode")
    base.health(r)
    return r
