// C53 -- Ipc::Mem::PageStack never double-allocates or loses pages under any interleaving (E-sched).
//
// Real src/ipc/mem/PageStack.cc compiled against the scheduler-controlled atomic
// (compare_exchange_weak may also fail spuriously under generator control).  2..3 logical
// processes run programs of pop() / push(a page it holds); the schedule is part of the case.
// Oracle (from the statement):
//   safety, at every pop() return: the page id is valid for the stack and its owner -- in the
//     harness's own ownership table -- is "free" (a page is free from the moment its holder
//     CALLS push(); it is owned from the moment pop() RETURNS it);
//   linearizability of the recorded call/return history, by brute force, against the counting
//     specification {push: n+1; successful pop: n>0, n-1; failed pop: n==0}: this is "an
//     allocation fails only if at some point during it no page was free", where a page already
//     claimed by an allocation in progress does not count as free, and it tolerates "a pushed
//     page may not become available immediately" (a push takes effect somewhere before it
//     returns).  The identity-aware set specification of DESIGN.md 5.7 over-demands (pages are
//     interchangeable: an in-flight pop that claimed one page may be handed another one that is
//     being pushed concurrently); histories that only fail that stricter form are counted under
//     the label "id-swap-tolerated", not reported;
//   quiescence: after all programs ended, popping until failure returns exactly the free pages.
#include "squid.h"
#include "ipc/mem/Page.h"
#include "ipc/mem/PageStack.h"

#include "sched/sched_case.h"

#include <new>

namespace {

using Ipc::Mem::PageId;
using Ipc::Mem::PageStack;

const uint32_t PoolId = 7;

struct Params {
    unsigned capacity = 2;
    bool createFull = false;
    std::vector<unsigned> freeIds;                ///< 0-based ids pushed during setup (createFull=false)
    std::vector<std::vector<unsigned>> heldIds;   ///< per process: ids held at the start (createFull=false)
    std::vector<unsigned> heldCount;              ///< per process: pages popped for it during setup (createFull=true)
    std::vector<std::vector<int>> progs;          ///< 0 = pop, k>0 = push the ((k-1) mod #held)-th held page
};

struct OpRec {
    int proc;
    bool isPush;
    unsigned id;    ///< 1-based page number (push argument / pop result), 0 for a failed pop
    bool ok;
    unsigned inv, ret;
};

struct Stats {
    unsigned pops = 0, popFailed = 0, pushes = 0, skipped = 0, spurious = 0;
    bool idSwap = false;
    unsigned historyLen = 0;
};

enum { Outside = -2, Free = -1 };

struct World {
    std::vector<unsigned char> mem;
    PageStack *stack = nullptr;
    const Params &p;
    std::vector<int> owner;                  ///< index = page number (1-based); Outside, Free or process
    std::vector<std::vector<unsigned>> held; ///< per process, page numbers in acquisition order
    std::vector<OpRec> history;
    unsigned clock = 0;
    unsigned initialFree = 0;
    Stats st;

    explicit World(const Params &params) : p(params), owner(params.capacity + 1, Outside), held(params.progs.size())
    {
        PageStack::Config cfg;
        cfg.poolId = PoolId;
        cfg.pageSize = 32;
        cfg.capacity = p.capacity;
        cfg.createFull = p.createFull;
        mem.assign(PageStack::StackSize(p.capacity) + 64, 0); // a new shared segment is zero-filled
        stack = new (mem.data()) PageStack(cfg);
        // set-up runs outside the scheduler: sequential, through the real API
        if (p.createFull) {
            for (unsigned n = 1; n <= p.capacity; ++n) owner[n] = Free;
            initialFree = p.capacity;
            for (size_t pr = 0; pr < held.size(); ++pr) {
                const unsigned want = pr < p.heldCount.size() ? p.heldCount[pr] : 0;
                for (unsigned k = 0; k < want && initialFree > 0; ++k) {
                    PageId page;
                    if (!stack->pop(page)) break;
                    owner[page.number] = static_cast<int>(pr);
                    held[pr].push_back(page.number);
                    --initialFree;
                }
            }
        } else {
            for (const unsigned id : p.freeIds) {
                if (id >= p.capacity || owner[id + 1] != Outside) continue;
                PageId page;
                page.pool = PoolId;
                page.number = id + 1;
                stack->push(page);
                owner[id + 1] = Free;
                ++initialFree;
            }
            for (size_t pr = 0; pr < held.size() && pr < p.heldIds.size(); ++pr) {
                for (const unsigned id : p.heldIds[pr]) {
                    if (id >= p.capacity || owner[id + 1] != Outside) continue;
                    owner[id + 1] = static_cast<int>(pr);
                    held[pr].push_back(id + 1);
                }
            }
        }
    }

    std::string ownerName(int o) const { return o == Outside ? "outside" : o == Free ? "free" : "P" + std::to_string(o); }

    void doPop(int me)
    {
        OpRec r{me, false, 0, false, clock++, 0};
        PageId page;
        const bool ok = stack->pop(page);
        r.ret = clock++;
        r.ok = ok;
        ++st.pops;
        if (!ok) {
            ++st.popFailed;
            if (page.set())
                Sched::failRun("failed-pop-set-the-page", "pop returned false but set page number " + std::to_string(page.number));
            history.push_back(r);
            return;
        }
        r.id = page.number;
        history.push_back(r);
        if (page.pool != PoolId || page.number < 1 || page.number > p.capacity)
            Sched::failRun("popped-invalid-page-id", "pool " + std::to_string(page.pool) + " number " + std::to_string(page.number) + " capacity " + std::to_string(p.capacity));
        if (owner[page.number] != Free)
            Sched::failRun(owner[page.number] == Outside ? "popped-page-that-was-never-freed" : "double-allocation",
                           "pop by P" + std::to_string(me) + " returned page " + std::to_string(page.number) + " owned by " + ownerName(owner[page.number]));
        owner[page.number] = me;
        held[me].push_back(page.number);
        Sched::point(); // "I now hold this page": others run while the ownership table is non-trivial
    }

    void doPush(int me, int slot)
    {
        if (held[me].empty()) {
            ++st.skipped;
            return;
        }
        const size_t idx = static_cast<size_t>(slot) % held[me].size();
        const unsigned number = held[me][idx];
        held[me].erase(held[me].begin() + static_cast<long>(idx));
        owner[number] = Free; // the holder gives the page up before the call
        PageId page;
        page.pool = PoolId;
        page.number = number;
        OpRec r{me, true, number, true, clock++, 0};
        stack->push(page);
        r.ret = clock++;
        history.push_back(r);
        ++st.pushes;
        if (page.set())
            Sched::failRun("push-left-the-page-set", "push must reset the caller's PageId");
        Sched::point();
    }
};

/// brute-force linearizability of the history against the counting (idAware=false) or the
/// identity-aware set (idAware=true) specification; histories have <= 16 operations
bool linearizable(const std::vector<OpRec> &h, unsigned initialFree, const std::vector<char> &initialSet, bool idAware)
{
    const size_t n = h.size();
    if (n > 20) return true; // not judged (never generated)
    std::vector<char> dead(size_t(1) << n, 0);
    std::function<bool(uint32_t)> go = [&](uint32_t done) -> bool {
        if (done == (uint32_t(1) << n) - 1) return true;
        if (dead[done]) return false;
        // abstract state after the linearized operations
        long count = initialFree;
        std::vector<char> set;
        if (idAware) set = initialSet;
        unsigned minRet = UINT32_MAX;
        for (size_t i = 0; i < n; ++i) {
            if (done & (1u << i)) {
                if (h[i].isPush) { ++count; if (idAware) set[h[i].id] = 1; }
                else if (h[i].ok) { --count; if (idAware) set[h[i].id] = 0; }
            } else {
                minRet = std::min(minRet, h[i].ret);
            }
        }
        for (size_t i = 0; i < n; ++i) {
            if (done & (1u << i)) continue;
            if (h[i].inv > minRet) continue; // somebody not yet linearized returned before this one was called
            bool legal;
            if (h[i].isPush) legal = true;
            else if (h[i].ok) legal = idAware ? set[h[i].id] != 0 : count > 0;
            else legal = count == 0;
            if (legal && go(done | (1u << i))) return true;
        }
        dead[done] = 1;
        return false;
    };
    return go(0);
}

vs::Exec execute(const Params &p, Sched::Strategy &strategy, Stats *statsOut = nullptr)
{
    World w(p);
    std::vector<char> initialSet(p.capacity + 1, 0);
    for (unsigned nmb = 1; nmb <= p.capacity; ++nmb) initialSet[nmb] = w.owner[nmb] == Free;
    const unsigned initialFree = w.initialFree;
    std::vector<std::function<void()>> bodies;
    for (size_t pr = 0; pr < p.progs.size(); ++pr) {
        bodies.push_back([&w, &p, pr]() {
            for (const int op : p.progs[pr]) {
                if (op == 0) w.doPop(static_cast<int>(pr));
                else w.doPush(static_cast<int>(pr), op - 1);
            }
        });
    }
    vs::Exec e;
    e.outcome = Sched::run(bodies, strategy);
    w.st.spurious = e.outcome.spurious;
    w.st.historyLen = static_cast<unsigned>(w.history.size());
    auto finish = [&]() { if (statsOut) *statsOut = w.st; return e; };
    if (e.outcome.failed) {
        e.ok = false;
        e.sig = e.outcome.sig;
        e.detail = e.outcome.detail + " (in P" + std::to_string(e.outcome.failedIn) + ")";
        return finish();
    }
    if (!e.outcome.completed()) { // pop/push never wait: cannot happen, but never a violation
        e.inconclusive = true;
        return finish();
    }
    if (!linearizable(w.history, initialFree, initialSet, false)) {
        e.ok = false;
        e.sig = "history-not-linearizable-against-counting-spec";
        std::string d;
        for (const auto &r : w.history)
            d += "P" + std::to_string(r.proc) + (r.isPush ? ":push(" + std::to_string(r.id) + ")" : r.ok ? ":pop->" + std::to_string(r.id) : ":pop->fail") +
                 "@[" + std::to_string(r.inv) + "," + std::to_string(r.ret) + "] ";
        e.detail = "initially free " + std::to_string(initialFree) + "; " + d;
        return finish();
    }
    if (!linearizable(w.history, initialFree, initialSet, true))
        w.st.idSwap = true;
    // quiescence: everything that is free can be allocated again, and nothing else
    std::vector<char> got(p.capacity + 1, 0);
    unsigned expectFree = 0;
    for (unsigned nmb = 1; nmb <= p.capacity; ++nmb) if (w.owner[nmb] == Free) ++expectFree;
    for (unsigned k = 0; k <= p.capacity; ++k) {
        PageId page;
        if (!w.stack->pop(page)) break;
        if (page.number < 1 || page.number > p.capacity || page.pool != PoolId) {
            e.ok = false; e.sig = "quiescent-pop-invalid-page-id"; e.detail = std::to_string(page.number);
            return finish();
        }
        if (got[page.number] || w.owner[page.number] != Free) {
            e.ok = false;
            e.sig = got[page.number] ? "quiescent-pop-returned-page-twice" : "quiescent-pop-returned-held-page";
            e.detail = "page " + std::to_string(page.number) + " owner " + w.ownerName(w.owner[page.number]);
            return finish();
        }
        got[page.number] = 1;
    }
    unsigned gotCount = 0;
    for (unsigned nmb = 1; nmb <= p.capacity; ++nmb) gotCount += got[nmb];
    if (gotCount != expectFree) {
        e.ok = false;
        e.sig = "released-page-lost";
        std::string missing;
        for (unsigned nmb = 1; nmb <= p.capacity; ++nmb) if (w.owner[nmb] == Free && !got[nmb]) missing += std::to_string(nmb) + " ";
        e.detail = "after activity stopped " + std::to_string(expectFree) + " pages are free but only " + std::to_string(gotCount) + " could be allocated; missing: " + missing;
        return finish();
    }
    return finish();
}

// ------------------------------------------------------------------ text form

std::string progText(const std::vector<int> &prog)
{
    std::string s;
    for (size_t i = 0; i < prog.size(); ++i) {
        if (i) s += ' ';
        s += prog[i] == 0 ? std::string("pop") : "push" + std::to_string(prog[i] - 1);
    }
    return s;
}

void showParams(vp::Writer &w, const Params &p)
{
    w.u("capacity", p.capacity).u("create_full", p.createFull).u("procs", p.progs.size());
    if (p.createFull) w.s("held_count", vs::joinNums(p.heldCount));
    else {
        w.s("free_ids", vs::joinNums(p.freeIds));
        for (size_t i = 0; i < p.heldIds.size(); ++i) w.s("held_ids" + std::to_string(i), vs::joinNums(p.heldIds[i]));
    }
    for (size_t i = 0; i < p.progs.size(); ++i) w.s("P" + std::to_string(i), progText(p.progs[i]));
}

Params parseParams(const vp::Reader &r)
{
    Params p;
    p.capacity = static_cast<unsigned>(r.u("capacity"));
    p.createFull = r.u("create_full") != 0;
    const size_t n = static_cast<size_t>(r.u("procs"));
    p.heldCount = vs::splitNums<unsigned>(r.s("held_count"));
    p.freeIds = vs::splitNums<unsigned>(r.s("free_ids"));
    p.progs.resize(n);
    p.heldIds.resize(n);
    for (size_t i = 0; i < n; ++i) {
        p.heldIds[i] = vs::splitNums<unsigned>(r.s("held_ids" + std::to_string(i)));
        std::istringstream is(r.s("P" + std::to_string(i)));
        std::string tok;
        while (is >> tok) {
            if (tok == "pop") p.progs[i].push_back(0);
            else if (tok.compare(0, 4, "push") == 0) p.progs[i].push_back(1 + atoi(tok.c_str() + 4));
        }
    }
    return p;
}

/// Known finding (ubsan:shift-exponent:PageStack.cc): IdSet::leafTruncate() shifts a 64-bit node
/// by 64 when a stack is created full with a capacity that is a multiple of 64 but does not
/// fill all (power-of-two many) leaves: 64, 192, 320, ...  Excluded here by construction so
/// that the search continues; replays/C53/ keeps the reproducer.
bool createFullHitsKnownShiftUb(unsigned capacity)
{
    unsigned leaves = 2;
    while (leaves * 64 < capacity) leaves *= 2;
    return capacity % 64 == 0 && leaves * 64 != capacity;
}

std::vector<unsigned> interestingIds(unsigned capacity)
{
    static const unsigned all[] = {0, 1, 2, 62, 63, 64, 65, 126, 127, 128, 129, 190, 191, 192, 193, 199, 254, 255, 256};
    std::vector<unsigned> v;
    for (const unsigned id : all) if (id < capacity) v.push_back(id);
    if (capacity >= 1 && std::find(v.begin(), v.end(), capacity - 1) == v.end()) v.push_back(capacity - 1);
    return v;
}

rc::Gen<Params> genParams(int maxProcs, int maxOps)
{
    return rc::gen::exec([=]() {
        Params p;
        static const unsigned caps[] = {1, 2, 3, 4, 5, 6, 7, 8, 64, 65, 129, 200, 257};
        p.capacity = *rc::gen::elementOf(std::vector<unsigned>(std::begin(caps), std::end(caps)));
        const int n = *vp::range<int>(2, maxProcs);
        p.createFull = *vp::range<int>(0, 4) == 0 && !createFullHitsKnownShiftUb(p.capacity);
        if (p.createFull) {
            for (int i = 0; i < n; ++i) p.heldCount.push_back(*vp::range<unsigned>(0, 2));
        } else {
            // ids straddle leaves (64 per leaf) and subtrees; few enough that "empty" is reachable
            std::vector<unsigned> ids = interestingIds(p.capacity);
            const auto pick = [&]() -> int {
                if (ids.empty()) return -1;
                const size_t k = *vp::range<size_t>(0, ids.size() - 1);
                const unsigned id = ids[k];
                ids.erase(ids.begin() + static_cast<long>(k));
                return static_cast<int>(id);
            };
            const int nfree = *vp::range<int>(0, 4);
            for (int i = 0; i < nfree; ++i) { const int id = pick(); if (id >= 0) p.freeIds.push_back(static_cast<unsigned>(id)); }
            p.heldIds.resize(static_cast<size_t>(n));
            for (int i = 0; i < n; ++i) {
                const int nh = *vp::range<int>(0, 2);
                for (int k = 0; k < nh; ++k) { const int id = pick(); if (id >= 0) p.heldIds[static_cast<size_t>(i)].push_back(static_cast<unsigned>(id)); }
            }
        }
        for (int i = 0; i < n; ++i) {
            const int len = *vp::range<int>(1, maxOps);
            std::vector<int> prog;
            for (int k = 0; k < len; ++k) prog.push_back(*rc::gen::element(0, 0, 0, 1, 1, 2));
            p.progs.push_back(prog);
        }
        return p;
    });
}

void labelStats(vp::Ctx &ctx, const Params &p, const Stats &st, bool preempted)
{
    if (preempted) ctx.label("preempted");
    if (st.popFailed) ctx.label("pop-failed");
    if (st.pops > st.popFailed) ctx.label("pop-succeeded");
    if (st.pushes) ctx.label("pushed");
    if (st.spurious) ctx.label("spurious-cas-failure");
    if (st.idSwap) ctx.label("id-swap-tolerated");
    if (p.capacity > 128) ctx.label("three-level-tree");
    else if (p.capacity > 64) ctx.label("two-leaves-used");
    if (p.createFull) ctx.label("create-full");
    if (preempted && st.pushes && st.pops > st.popFailed) {
        ctx.label("nontrivial");
        ctx.nontrivial();
    }
}

// ------------------------------------------------------------------ random

struct Case {
    Params p;
    vs::Schedule sched;
};

std::string show(const Case &c)
{
    vp::Writer w;
    showParams(w, c.p);
    vs::showSchedule(w, c.sched);
    return w.str();
}

Case parse(const std::string &text)
{
    const vp::Reader r(text);
    Case c;
    c.p = parseParams(r);
    c.sched = vs::parseSchedule(r);
    return c;
}

rc::Gen<Case> gen()
{
    return rc::gen::exec([]() {
        Case c;
        c.p = *genParams(3, 4);
        c.sched = *vs::genSchedule(static_cast<int>(c.p.progs.size()), 90, 4);
        return c;
    });
}

vp::Verdict check(const Case &c, vp::Ctx &ctx)
{
    const auto strategy = vs::makeStrategy(c.sched);
    Stats st;
    const vs::Exec e = execute(c.p, *strategy, &st);
    ctx.label(c.sched.kind ? "schedule-pct" : "schedule-choices");
    if (e.inconclusive) { ctx.excluded("execution-abandoned"); return vp::pass(); }
    labelStats(ctx, c.p, st, e.outcome.preemptions > 0);
    return e.ok ? vp::pass() : vp::fail(e.sig, e.detail);
}

// ------------------------------------------------------------------ dfs

struct DfsCase {
    Params p;
    unsigned bound = 2, spurious = 1;
    uint64_t maxExec = 30000;
};

std::string showDfs(const DfsCase &c)
{
    vp::Writer w;
    showParams(w, c.p);
    w.u("preemption_bound", c.bound).u("spurious_bound", c.spurious).u("max_executions", c.maxExec);
    return w.str();
}

DfsCase parseDfs(const std::string &text)
{
    const vp::Reader r(text);
    DfsCase c;
    c.p = parseParams(r);
    c.bound = static_cast<unsigned>(r.u("preemption_bound"));
    c.spurious = static_cast<unsigned>(r.u("spurious_bound"));
    c.maxExec = r.u("max_executions");
    return c;
}

rc::Gen<DfsCase> genDfs()
{
    return rc::gen::exec([]() {
        DfsCase c;
        c.p = *genParams(3, 2);
        c.bound = c.p.progs.size() == 2 ? 3 : 2;
        c.spurious = *vp::range<unsigned>(0, 1);
        c.maxExec = 30000;
        return c;
    });
}

vp::Verdict explore(const Params &p, unsigned bound, unsigned spurious, uint64_t maxExec, vp::Ctx &ctx, vs::Explored &ex, bool labels)
{
    Stats sum;
    ex = vs::exploreAll([&](Sched::Strategy &s) {
        Stats st;
        const vs::Exec e = execute(p, s, &st);
        sum.popFailed += st.popFailed;
        sum.pops += st.pops;
        sum.pushes += st.pushes;
        sum.spurious += st.spurious;
        sum.idSwap = sum.idSwap || st.idSwap;
        return e;
    }, bound, spurious, maxExec);
    if (ex.executions > 1) ctx.evaluations += ex.executions - 1;
    if (ex.diverged) return vp::fail("harness-nondeterministic", "DFS prefix replay diverged");
    if (labels) {
        ctx.label(ex.complete ? "dfs-space-completed" : "dfs-space-truncated");
        labelStats(ctx, p, sum, ex.preempted > 0);
    } else if (sum.idSwap) {
        ctx.label("id-swap-tolerated");
    }
    if (ex.failed) return vp::fail(ex.sig, ex.detail);
    return vp::pass();
}

vp::Verdict checkDfs(const DfsCase &c, vp::Ctx &ctx)
{
    if (vs::pastBudget()) { ctx.excluded("budget-exhausted-before-exploration"); return vp::pass(); }
    vs::Explored ex;
    return explore(c.p, c.bound, c.spurious, c.maxExec, ctx, ex, true);
}

// ------------------------------------------------------------------ exhaustive (thorough tier)
// 2 processes x <= 2 operations from {pop, push0}; capacities {2, 65, 129, 257}; the two
// "corner" ids of each capacity each start free / held by P0 / held by P1 / outside;
// every schedule up to pre-emption bound 3 (no spurious failures).

struct ExhCase {
    unsigned bound = 3;
};

std::string showExh(const ExhCase &c) { vp::Writer w; w.u("preemption_bound", c.bound); return w.str(); }
ExhCase parseExh(const std::string &text) { const vp::Reader r(text); ExhCase c; c.bound = static_cast<unsigned>(r.u("preemption_bound")); return c; }

vp::Verdict checkExh(const ExhCase &c, vp::Ctx &ctx)
{
    const long shard = vs::envInt("VP_SHARD", 0), shards = std::max(1L, vs::envInt("VP_SHARDS", 1));
    const double deadline = vs::budgetDeadline() > 0 ? vs::budgetDeadline() : vp::nowS() + 3600; // relative to process start
    static const unsigned caps[4] = {2, 65, 129, 257};
    static const unsigned idA[4] = {0, 0, 63, 127}, idB[4] = {1, 64, 128, 256};
    std::vector<std::vector<int>> progs;
    for (int a = 0; a < 2; ++a) {
        progs.push_back({a});
        for (int b = 0; b < 2; ++b) progs.push_back({a, b});
    }
    uint64_t no = 0, visited = 0;
    bool complete = true;
    for (int ci = 0; ci < 4; ++ci)
        for (int sa = 0; sa < 4; ++sa)
            for (int sb = 0; sb < 4; ++sb)
                for (size_t p0 = 0; p0 < progs.size(); ++p0)
                    for (size_t p1 = 0; p1 < progs.size(); ++p1) {
                        if (static_cast<long>(no++ % static_cast<uint64_t>(shards)) != shard) continue;
                        if (vp::nowS() > deadline) { complete = false; continue; }
                        Params p;
                        p.capacity = caps[ci];
                        p.heldIds.resize(2);
                        const int st[2] = {sa, sb};
                        const unsigned ids[2] = {idA[ci], idB[ci]};
                        for (int k = 0; k < 2; ++k) { // 0 = free, 1 = held by P0, 2 = held by P1, 3 = outside
                            if (st[k] == 0) p.freeIds.push_back(ids[k]);
                            else if (st[k] == 1) p.heldIds[0].push_back(ids[k]);
                            else if (st[k] == 2) p.heldIds[1].push_back(ids[k]);
                        }
                        p.progs = {progs[p0], progs[p1]};
                        vs::Explored ex;
                        const vp::Verdict v = explore(p, c.bound, 0, UINT64_MAX, ctx, ex, false);
                        ++visited;
                        if (!v.ok) {
                            vp::Writer w;
                            showParams(w, p);
                            return vp::fail(v.sig, v.detail + " params: " + vp::esc(w.str()));
                        }
                        if (!ex.complete) complete = false;
                    }
    ctx.labels["configurations-visited"] += visited;
    ctx.label(complete ? "space-completed" : "space-incomplete");
    if (complete) ctx.nontrivial();
    return vp::pass();
}

// ------------------------------------------------------------------ create_full (sequential)
// A stack created full must hand out exactly the ids 1..capacity, once each, and take them back.

struct FullCase {
    unsigned capacity = 1;
    unsigned rotate = 0; ///< push order offset for the second round
    bool allowKnownUb = false; ///< only set by the committed reproducer of the known finding
};

std::string showFull(const FullCase &c) { vp::Writer w; w.u("capacity", c.capacity).u("rotate", c.rotate).u("allow_known_ub", c.allowKnownUb); return w.str(); }
FullCase parseFull(const std::string &text)
{
    const vp::Reader r(text);
    FullCase c;
    c.capacity = static_cast<unsigned>(r.u("capacity"));
    c.rotate = static_cast<unsigned>(r.u("rotate"));
    c.allowKnownUb = r.u("allow_known_ub") != 0;
    return c;
}

rc::Gen<FullCase> genFull()
{
    return rc::gen::exec([]() {
        FullCase c;
        const int kind = *vp::range<int>(0, 2);
        if (kind == 0) c.capacity = *vp::range<unsigned>(1, 600);
        else c.capacity = static_cast<unsigned>(std::max(1, 64 * *vp::range<int>(1, 9) + *vp::range<int>(-2, 2)));
        c.rotate = *vp::range<unsigned>(0, 70);
        return c;
    });
}

vp::Verdict checkFull(const FullCase &c, vp::Ctx &ctx)
{
    if (c.capacity < 1) return vp::pass();
    if (createFullHitsKnownShiftUb(c.capacity) && !c.allowKnownUb) { ctx.excluded("known-finding-createFull-shift-by-64"); return vp::pass(); }
    PageStack::Config cfg;
    cfg.poolId = PoolId;
    cfg.pageSize = 32;
    cfg.capacity = c.capacity;
    cfg.createFull = true;
    std::vector<unsigned char> mem(PageStack::StackSize(c.capacity) + 64, 0);
    PageStack *stack = new (mem.data()) PageStack(cfg);
    ctx.label(c.capacity % 64 == 0 ? "capacity-multiple-of-64" : c.capacity > 128 ? "three-or-more-levels" : "small");
    ctx.nontrivial();
    for (int round = 0; round < 2; ++round) {
        std::vector<char> got(c.capacity + 1, 0);
        unsigned n = 0;
        for (unsigned k = 0; k <= c.capacity; ++k) {
            PageId page;
            if (!stack->pop(page)) break;
            if (page.pool != PoolId || page.number < 1 || page.number > c.capacity) return vp::fail("full-stack-popped-invalid-page-id", std::to_string(page.number));
            if (got[page.number]) return vp::fail("full-stack-popped-page-twice", std::to_string(page.number));
            got[page.number] = 1;
            ++n;
        }
        if (n != c.capacity) return vp::fail(round ? "released-page-lost" : "full-stack-misses-pages", "got " + std::to_string(n) + " of " + std::to_string(c.capacity));
        for (unsigned k = 0; k < c.capacity; ++k) {
            PageId page;
            page.pool = PoolId;
            page.number = 1 + (k + c.rotate) % c.capacity;
            stack->push(page);
        }
    }
    return vp::pass();
}

void registerAll()
{
    vp::add<FullCase>("create_full", genFull(), checkFull, showFull, parseFull, 0.5);
    vp::add<Case>("random", gen(), check, show, parse, 6.0);
    vp::add<DfsCase>("dfs", genDfs(), checkDfs, showDfs, parseDfs, 4.0);
    vp::add<ExhCase>("exhaustive", rc::gen::just(ExhCase()), checkExh, showExh, parseExh, 1.0);
}

} // namespace

VP_MAIN(registerAll)
