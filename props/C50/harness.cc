// C50 Character sets and tokenizers follow set semantics.
// Domain : (1) command sequences over a pool of CharacterSets (constructors, add/remove/addRange,
//          +=, -=, +, -, complement, ==) and (2) operation sequences on one Parser::Tokenizer with
//          random sets over all 256 byte values, inputs built from in-set/out-of-set runs and
//          limits 0, 1, n, len, len+1, huge, npos.
// Oracle : std::bitset<256> model for the sets; for the tokenizer a (remaining string, parsed count)
//          model written from the statement: every operation consumes exactly the maximal (or
//          limit-capped) run the set defines, failed operations consume nothing.
//
// Caller preconditions respected by the generator (not judged otherwise):
//  * ranges are given as low <= high (every in-tree caller does);
//  * C-string constructors get NUL-free strings (a C string ends at its first NUL);
//  * the throwing wrappers (prefix(description,...), skipRequired) leave the tokenizer in an
//    unspecified state after a throw, so the harness re-seats the tokenizer on the model's
//    remainder after every expected throw (counted by label).
#include "squid.h"
#include "base/CharacterSet.h"
#include "base/TextException.h"
#include "parser/Tokenizer.h"
#include "parser/forward.h"
#include "sbuf/SBuf.h"

#include "verif_pbt.h"
#include "vp_seq.h"

#include <bitset>

using Bits = std::bitset<256>;

// rapidcheck allocates heavily; the default 256 MB ASan quarantine makes that page-fault bound (10x slower)
extern "C" const char *__asan_default_options() { return "quarantine_size_mb=16:malloc_context_size=6"; }

// ------------------------------------------------------------------ small text helpers

static std::vector<long long> ints(const std::string &v)
{
    std::vector<long long> r;
    std::istringstream is(v);
    long long x;
    while (is >> x) r.push_back(x);
    return r;
}

static std::string hexOf(const std::string &s)
{
    static const char *h = "0123456789abcdef";
    std::string o;
    for (unsigned char c : s) { o += h[c >> 4]; o += h[c & 15]; }
    return o;
}

static std::string unhex(const std::string &s)
{
    std::string o;
    for (size_t i = 0; i + 1 < s.size(); i += 2) o += static_cast<char>(vp::hexval(s[i]) * 16 + vp::hexval(s[i + 1]));
    return o;
}

static std::string bitsHex(const Bits &b)
{
    std::string raw(32, '\0');
    for (int i = 0; i < 256; ++i) if (b[i]) raw[i / 8] = static_cast<char>(raw[i / 8] | (1 << (i % 8)));
    return hexOf(raw);
}

static Bits bitsFromHex(const std::string &h)
{
    const std::string raw = unhex(h);
    Bits b;
    for (int i = 0; i < 256 && i / 8 < static_cast<int>(raw.size()); ++i) if (raw[i / 8] & (1 << (i % 8))) b.set(i);
    return b;
}

static int byteOf(vp::Dice &d)
{
    static const std::vector<int> edges = {0, 1, 9, 10, 13, 32, 47, 48, 57, 65, 90, 97, 122, 126, 127, 128, 129, 254, 255};
    if (d.chance(3, 5)) return d.pickFrom(edges);
    return static_cast<int>(d.range(0, 255));
}

/// a random subset of 0..255
static Bits bitsOf(vp::Dice &d)
{
    Bits b;
    const int kind = static_cast<int>(d.range(0, 9));
    if (kind <= 2) { // subset of a small alphabet
        static const char alpha[] = " \t,;=ab\r\n\x80\xff";
        const unsigned mask = static_cast<unsigned>(d.range(0, (1u << 11) - 1));
        for (int i = 0; i < 11; ++i) if (mask & (1u << i)) b.set(static_cast<unsigned char>(alpha[i]));
        if (kind == 2) b.flip();
    } else if (kind <= 4) { // a few ranges
        const int n = static_cast<int>(d.range(1, 3));
        for (int k = 0; k < n; ++k) {
            int lo = byteOf(d), hi = byteOf(d);
            if (lo > hi) std::swap(lo, hi);
            for (int i = lo; i <= hi; ++i) b.set(i);
        }
    } else if (kind <= 7) { // density 1/4, 1/2, 3/4
        for (int w = 0; w < 8; ++w) {
            uint32_t x = d.word();
            if (kind == 5) x &= d.word();
            if (kind == 7) x |= d.word();
            for (int i = 0; i < 32; ++i) if (x & (1u << i)) b.set(w * 32 + i);
        }
    } else if (kind == 8) { // single member / all but one
        b.set(byteOf(d));
        if (d.coin()) b.flip();
    } else { // empty or full
        if (d.coin()) b.flip();
    }
    return b;
}

// ================================================================== sub-property 1: set algebra

static const int PoolSize = 4;

struct SetCmd {
    std::string op;             // str range ranges add remove addRange pluseq minuseq plus minus compl copy eq
    std::vector<long long> a;   // integer arguments
    std::string s;              // for "str"
};
struct SetCase { std::vector<SetCmd> cmds; };

static std::string showSet(const SetCase &c)
{
    vp::Writer w;
    for (const auto &m : c.cmds) {
        std::string v;
        for (size_t i = 0; i < m.a.size(); ++i) v += (i ? " " : "") + std::to_string(m.a[i]);
        if (m.op == "str") v += " x" + hexOf(m.s);
        w.s(m.op, v);
    }
    return w.str();
}

static SetCase parseSet(const std::string &t)
{
    vp::Reader r(t);
    SetCase c;
    for (const auto &kv : r.ordered()) {
        if (kv.first == "prop") continue;
        SetCmd m;
        m.op = kv.first;
        std::string v = kv.second;
        const auto x = v.find('x');
        if (m.op == "str" && x != std::string::npos) { m.s = unhex(v.substr(x + 1)); v = v.substr(0, x); }
        m.a = ints(v);
        c.cmds.push_back(m);
    }
    return c;
}

static SetCmd setCmdOf(vp::Dice &d)
{
    SetCmd m;
    const size_t k = d.weighted({4, 2, 2, 1, 2, 2, 2, 3, 3, 3, 3, 1, 2});
    auto idx = [&d]() { return d.range(0, PoolSize - 1); };
    auto rangePair = [&m, &d]() {
        int lo = byteOf(d), hi = byteOf(d);
        if (lo > hi) std::swap(lo, hi);
        m.a.push_back(lo); m.a.push_back(hi);
    };
    switch (k) {
    case 0: m.op = "compl"; m.a = {idx(), idx()}; break;
    case 1: {
        m.op = "str"; m.a = {idx()};
        static const std::string alpha = " \t,;=ab\x80\xff\x7f\x01";
        const bool small = d.coin();
        const int n = static_cast<int>(d.range(0, 10));
        for (int i = 0; i < n; ++i) {
            const char ch = small ? alpha[d.range(0, alpha.size() - 1)] : static_cast<char>(byteOf(d));
            if (ch) m.s += ch;
        }
        break;
    }
    case 2: m.op = "range"; m.a = {idx()}; rangePair(); break;
    case 3: m.op = "ranges"; m.a = {idx()}; rangePair(); rangePair(); break;
    case 4: m.op = "add"; m.a = {idx(), byteOf(d)}; break;
    case 5: m.op = "remove"; m.a = {idx(), byteOf(d)}; break;
    case 6: m.op = "addRange"; m.a = {idx()}; rangePair(); break;
    case 7: m.op = "pluseq"; m.a = {idx(), idx()}; break;
    case 8: m.op = "minuseq"; m.a = {idx(), idx()}; break;
    case 9: m.op = "plus"; m.a = {idx(), idx(), idx()}; break;
    case 10: m.op = "minus"; m.a = {idx(), idx(), idx()}; break;
    case 11: m.op = "copy"; m.a = {idx(), idx()}; break;
    default: m.op = "eq"; m.a = {idx(), idx()}; break;
    }
    return m;
}

static SetCase decodeSet(vp::Dice &d)
{
    SetCase c;
    // the pool starts empty: begin with a few constructions so that later operators see mixed sets
    for (int i = 0; i < PoolSize && d.more(); ++i) {
        SetCmd m = setCmdOf(d);
        if (m.op == "str" || m.op == "range" || m.op == "ranges" || m.op == "addRange") m.a[0] = i;
        c.cmds.push_back(m);
    }
    while (d.more() && c.cmds.size() < 24) c.cmds.push_back(setCmdOf(d));
    return c;
}

static bool sameMembers(const CharacterSet &s, const Bits &m, int &where)
{
    for (int i = 0; i < 256; ++i) {
        if (s[static_cast<unsigned char>(i)] != m[i]) { where = i; return false; }
    }
    return true;
}

static vp::Verdict checkSet(const SetCase &c, vp::Ctx &ctx)
{
    std::vector<CharacterSet> pool(PoolSize);
    std::vector<Bits> model(PoolSize);
    std::set<std::string> labels;
    bool interesting = false;
    int step = 0;
    auto ix = [](long long v) { return static_cast<size_t>(((v % PoolSize) + PoolSize) % PoolSize); };
    auto by = [](long long v) { return static_cast<unsigned char>(v & 0xff); };
    auto mixed = [](const Bits &b) { return b.any() && !b.all(); };
    for (const auto &m : c.cmds) {
        ++step;
        if (m.a.empty()) continue;
        const size_t d = ix(m.a[0]);
        auto arg = [&m](size_t i) { return i < m.a.size() ? m.a[i] : 0; };
        bool judgedEq = false;
        if (m.op == "str") {
            const std::string s = m.s.substr(0, m.s.find('\0'));
            pool[d] = CharacterSet("str", s.c_str());
            model[d].reset();
            for (unsigned char ch : s) model[d].set(ch);
        } else if (m.op == "range" || m.op == "addRange") {
            unsigned char lo = by(arg(1)), hi = by(arg(2));
            if (lo > hi) std::swap(lo, hi);
            if (m.op == "range") { pool[d] = CharacterSet("range", lo, hi); model[d].reset(); }
            else pool[d].addRange(lo, hi);
            for (int i = lo; i <= hi; ++i) model[d].set(i);
            if (hi == 255) labels.insert("range-to-255");
            if (lo == 0) labels.insert("range-from-0");
        } else if (m.op == "ranges") {
            uint8_t l1 = by(arg(1)), h1 = by(arg(2)), l2 = by(arg(3)), h2 = by(arg(4));
            if (l1 > h1) std::swap(l1, h1);
            if (l2 > h2) std::swap(l2, h2);
            pool[d] = CharacterSet("ranges", {{l1, h1}, {l2, h2}});
            model[d].reset();
            for (int i = l1; i <= h1; ++i) model[d].set(i);
            for (int i = l2; i <= h2; ++i) model[d].set(i);
        } else if (m.op == "add") {
            pool[d].add(by(arg(1))); model[d].set(by(arg(1)));
        } else if (m.op == "remove") {
            pool[d].remove(by(arg(1))); model[d].reset(by(arg(1)));
        } else if (m.op == "pluseq" || m.op == "minuseq") {
            const size_t a = ix(arg(1));
            if (mixed(model[d]) && mixed(model[a]) && a != d) interesting = true;
            if (a == d) labels.insert("self-operand");
            if (m.op == "pluseq") { pool[d] += pool[a]; model[d] |= model[a]; }
            else { pool[d] -= pool[a]; const Bits x = model[a]; model[d] &= ~x; }
            labels.insert("binary-op");
        } else if (m.op == "plus" || m.op == "minus") {
            const size_t a = ix(arg(1)), b = ix(arg(2));
            if (mixed(model[a]) && mixed(model[b]) && a != b) interesting = true;
            const Bits ma = model[a], mb = model[b];
            if (m.op == "plus") { pool[d] = pool[a] + pool[b]; model[d] = ma | mb; }
            else { pool[d] = pool[a] - pool[b]; model[d] = ma & ~mb; }
            labels.insert("binary-op");
            // operands are left unchanged (unless one of them is the destination)
            int w = 0;
            if (a != d && !sameMembers(pool[a], ma, w)) return vp::fail("set:operand-modified", m.op + " step " + std::to_string(step));
            if (b != d && !sameMembers(pool[b], mb, w)) return vp::fail("set:operand-modified", m.op + " step " + std::to_string(step));
        } else if (m.op == "compl") {
            const size_t a = ix(arg(1));
            if (mixed(model[a])) interesting = true;
            const Bits ma = model[a];
            pool[d] = pool[a].complement();
            model[d] = ~ma;
            labels.insert("complement");
            int w = 0;
            if (a != d && !sameMembers(pool[a], ma, w)) return vp::fail("set:operand-modified", "complement step " + std::to_string(step));
        } else if (m.op == "copy") {
            const size_t a = ix(arg(1));
            const CharacterSet tmp(pool[a]);
            pool[d] = tmp;
            model[d] = model[a];
        } else if (m.op == "eq") {
            const size_t a = ix(arg(1));
            const bool want = model[d] == model[a];
            labels.insert(want ? "eq-true" : "eq-false");
            if ((pool[d] == pool[a]) != want) return vp::fail("set:equality-wrong", "operator== step " + std::to_string(step));
            if ((pool[d] != pool[a]) == want) return vp::fail("set:equality-wrong", "operator!= step " + std::to_string(step));
            judgedEq = true;
        } else {
            continue; // unknown line in a hand-edited replay file
        }
        if (!judgedEq) {
            int w = 0;
            if (!sameMembers(pool[d], model[d], w))
                return vp::fail("set:membership-differs-after-" + m.op,
                                "step " + std::to_string(step) + " byte " + std::to_string(w) + " model=" + std::to_string(model[d][w]));
        }
    }
    // everything, once more, at the end (an operation must not have disturbed a set it did not name)
    bool isEmptyDisagrees = false;
    for (int i = 0; i < PoolSize; ++i) {
        int w = 0;
        if (!sameMembers(pool[i], model[i], w))
            return vp::fail("set:bystander-set-changed", "set " + std::to_string(i) + " byte " + std::to_string(w));
        // CharacterSet::isEmpty() is not part of the statement (union, difference, complement, membership):
        // a disagreement is counted, not judged.
        if (pool[i].isEmpty() != model[i].none()) isEmptyDisagrees = true;
    }
    if (isEmptyDisagrees) ctx.excluded("isEmpty() disagrees with the model (outside the statement; chars_ is never empty())");
    for (const auto &l : labels) ctx.label(l);
    if (interesting) { ctx.nontrivial(); ctx.label("op-on-mixed-sets"); }
    return vp::pass();
}

// ================================================================== sub-property 2: tokenizer

struct TokOp {
    std::string op; // prefix suffix skipAll skipOne skipOneTrailing skipAllTrailing token skipStr skipChar skipSuffix prefixThrow skipRequired
    int set = 0;
    long long limit = -1; // -1 = npos
    int len = 0, mode = 0; // skipStr/skipSuffix/skipRequired/skipChar: argument derived from the model's remainder
};
struct TokCase {
    std::vector<Bits> sets;
    std::string input;
    std::vector<TokOp> ops;
};

static std::string showTok(const TokCase &c)
{
    vp::Writer w;
    for (const auto &s : c.sets) w.s("set", bitsHex(s));
    w.s("input", c.input);
    for (const auto &o : c.ops)
        w.s("op", o.op + " " + std::to_string(o.set) + " " + std::to_string(o.limit) + " " + std::to_string(o.len) + " " + std::to_string(o.mode));
    return w.str();
}

static TokCase parseTok(const std::string &t)
{
    vp::Reader r(t);
    TokCase c;
    for (size_t i = 0; i < r.count("set"); ++i) c.sets.push_back(bitsFromHex(r.s("set", i)));
    c.input = r.s("input");
    for (size_t i = 0; i < r.count("op"); ++i) {
        std::istringstream is(r.s("op", i));
        TokOp o;
        is >> o.op >> o.set >> o.limit >> o.len >> o.mode;
        c.ops.push_back(o);
    }
    return c;
}

static TokCase decodeTok(vp::Dice &d)
{
    TokCase c;
    const int nsets = d.pick<int>({1, 1, 2, 2, 3});
    for (int i = 0; i < nsets; ++i) c.sets.push_back(bitsOf(d));
    auto whichSet = [&d, nsets]() { return d.chance(3, 5) ? 0 : static_cast<int>(d.range(0, nsets - 1)); };
    // input = chunks that are runs of members / non-members of one of the sets, or arbitrary bytes
    const int chunks = static_cast<int>(d.range(0, 10));
    for (int k = 0; k < chunks; ++k) {
        const Bits &s = c.sets[whichSet()];
        const int how = static_cast<int>(d.range(0, 4)); // 0,1: members; 2,3: non-members; 4: any byte
        const int len = d.pick<int>({0, 1, 1, 1, 1, 2, 2, 2, 3, 3, 5, 5, 9});
        std::vector<int> pick;
        if (how <= 1) { for (int i = 0; i < 256; ++i) if (s[i]) pick.push_back(i); }
        else if (how <= 3) { for (int i = 0; i < 256; ++i) if (!s[i]) pick.push_back(i); }
        for (int i = 0; i < len; ++i) {
            if (pick.empty()) c.input += static_cast<char>(byteOf(d));
            else c.input += static_cast<char>(d.pickFrom(pick));
        }
    }
    const long long inLen = static_cast<long long>(c.input.size());
    static const std::vector<std::string> opNames = {"prefix", "prefix", "prefix", "prefix", "prefix", "suffix", "suffix", "suffix", "suffix", "suffix",
        "skipAll", "skipAll", "skipAll", "skipOne", "skipOne", "skipOneTrailing", "skipOneTrailing", "skipAllTrailing", "skipAllTrailing", "skipAllTrailing",
        "token", "token", "token", "token", "token", "skipStr", "skipChar", "skipSuffix", "prefixThrow", "prefixThrow", "skipRequired"};
    while (d.more() && c.ops.size() < 16) {
        TokOp o;
        o.op = d.pickFrom(opNames);
        o.set = whichSet();
        const int lk = static_cast<int>(d.range(0, 9));
        if (lk <= 2) o.limit = -1;
        else if (lk == 3) o.limit = 0;
        else if (lk == 4) o.limit = 1;
        else if (lk <= 6) o.limit = d.range(1, 6);
        else if (lk == 7) o.limit = inLen + d.range(-2, 1);
        else if (lk == 8) o.limit = d.pick<long long>({0x7fffffffLL, 0x80000000LL, 0xfffffffeLL, 0x0fffffffLL, 0x10000000LL});
        else o.limit = d.range(0, 40);
        if (o.limit < -1) o.limit = 0;
        o.len = static_cast<int>(d.range(0, 5));
        o.mode = static_cast<int>(d.weighted({3, 1, 1}));
        c.ops.push_back(o);
    }
    return c;
}

static std::string str(const SBuf &b) { return std::string(b.rawContent(), b.length()); }

static vp::Verdict checkTok(const TokCase &c, vp::Ctx &ctx)
{
    if (c.sets.empty()) return vp::pass();
    std::vector<CharacterSet> sets;
    for (const auto &b : c.sets) {
        CharacterSet s("generated");
        for (int i = 0; i < 256; ++i) if (b[i]) s.add(static_cast<unsigned char>(i));
        sets.push_back(s);
    }
    Parser::Tokenizer tok(SBuf(c.input.data(), c.input.size()));
    std::string rem = c.input;  // model: unparsed input
    uint64_t parsed = 0;        // model: parsedSize()
    uint64_t parsedBase = 0;    // parsedSize() is reset when the harness re-seats the tokenizer after a throw
    std::set<std::string> labels;
    bool interesting = false;
    int step = 0;

    for (const auto &o : c.ops) {
        ++step;
        const size_t si = static_cast<size_t>(o.set < 0 ? 0 : o.set) % sets.size();
        const Bits &mset = c.sets[si];
        const CharacterSet &set = sets[si];
        const SBuf::size_type limit = o.limit < 0 ? SBuf::npos : static_cast<SBuf::size_type>(o.limit);
        const uint64_t lim64 = o.limit < 0 ? UINT64_MAX : static_cast<uint64_t>(o.limit);
        const std::string where = o.op + " step " + std::to_string(step);
        auto in = [&mset](char ch) { return mset[static_cast<unsigned char>(ch)]; };
        size_t lead = 0;
        while (lead < rem.size() && in(rem[lead])) ++lead;
        size_t trail = 0;
        while (trail < rem.size() && in(rem[rem.size() - 1 - trail])) ++trail;

        // the argument of the string-skipping operations is derived from the model's remainder
        std::string needle;
        if (o.op == "skipStr" || o.op == "skipRequired" || o.op == "skipChar") {
            needle = rem.substr(0, static_cast<size_t>(o.len));
            if (o.mode == 1 && !needle.empty()) needle[needle.size() - 1] = static_cast<char>(needle[needle.size() - 1] + 1);
            if (o.mode == 2) needle += 'Z';
        } else if (o.op == "skipSuffix") {
            const size_t n = std::min(rem.size(), static_cast<size_t>(o.len));
            needle = rem.substr(rem.size() - n);
            if (o.mode == 1 && !needle.empty()) needle[0] = static_cast<char>(needle[0] + 1);
            if (o.mode == 2) needle = "Z" + needle;
        }

        // ---- reference outcome, from the statement
        bool wantOk = false;
        bool wantThrow = false;
        bool wantInsufficient = false; // which exception (only checked as "some documented exception")
        std::string wantToken;
        std::string wantRem = rem;
        uint64_t wantCount = 0; // value returned by the counting operations
        bool hasToken = false, hasCount = false;

        if (o.op == "prefix" || o.op == "prefixThrow") {
            const size_t n = static_cast<size_t>(std::min<uint64_t>(lead, lim64));
            hasToken = true;
            if (n > 0) { wantOk = true; wantToken = rem.substr(0, n); wantRem = rem.substr(n); }
            if (o.op == "prefixThrow") {
                // InsufficientInput when nothing but the prefix is there; a parsing error when there is no prefix
                if (rem.empty()) { wantThrow = true; wantInsufficient = true; }
                else if (n == 0) wantThrow = true;
                else if (n == rem.size()) { wantThrow = true; wantInsufficient = true; }
            }
            if (n > 0 && n < lead) labels.insert("prefix:limit-capped");
            if (n > 0 && n == lead && lead < rem.size()) labels.insert("prefix:maximal-run-inside");
        } else if (o.op == "suffix") {
            const size_t n = static_cast<size_t>(std::min<uint64_t>(trail, lim64));
            hasToken = true;
            if (n > 0) { wantOk = true; wantToken = rem.substr(rem.size() - n); wantRem = rem.substr(0, rem.size() - n); }
            if (n > 0 && n < trail) labels.insert("suffix:limit-capped");
            if (n > 0 && n == trail && trail < rem.size()) labels.insert("suffix:maximal-run-inside");
        } else if (o.op == "skipAll") {
            hasCount = true; wantCount = lead; wantOk = lead > 0; wantRem = rem.substr(lead);
        } else if (o.op == "skipAllTrailing") {
            hasCount = true; wantCount = trail; wantOk = trail > 0; wantRem = rem.substr(0, rem.size() - trail);
        } else if (o.op == "skipOne") {
            wantOk = lead > 0; if (wantOk) wantRem = rem.substr(1);
        } else if (o.op == "skipOneTrailing") {
            wantOk = trail > 0; if (wantOk) wantRem = rem.substr(0, rem.size() - 1);
        } else if (o.op == "token") {
            // leading delimiters, a non-empty run of non-delimiters, at least one trailing delimiter (all of them skipped)
            size_t i = lead;
            size_t j = i;
            while (j < rem.size() && !in(rem[j])) ++j;
            hasToken = true;
            if (j > i && j < rem.size()) {
                size_t k = j;
                while (k < rem.size() && in(rem[k])) ++k;
                wantOk = true; wantToken = rem.substr(i, j - i); wantRem = rem.substr(k);
                labels.insert(lead ? "token:leading-delimiters" : "token:no-leading-delimiters");
            } else if (j > i) labels.insert("token:unterminated");
        } else if (o.op == "skipStr" || o.op == "skipRequired") {
            const bool match = rem.compare(0, needle.size(), needle) == 0 && needle.size() <= rem.size();
            wantOk = match;
            if (match) wantRem = rem.substr(needle.size());
            if (o.op == "skipRequired" && !match) wantThrow = true;
        } else if (o.op == "skipChar") {
            if (needle.empty()) needle = "Z";
            needle = needle.substr(needle.size() - 1);
            wantOk = !rem.empty() && rem[0] == needle[0];
            if (wantOk) wantRem = rem.substr(1);
        } else if (o.op == "skipSuffix") {
            const bool match = needle.size() <= rem.size() && rem.compare(rem.size() - needle.size(), needle.size(), needle) == 0;
            wantOk = match;
            if (match) wantRem = rem.substr(0, rem.size() - needle.size());
        } else {
            continue;
        }

        // ---- the real thing
        bool ok = false, threw = false;
        SBuf got("untouched");
        uint64_t count = 0;
        try {
            if (o.op == "prefix") ok = tok.prefix(got, set, limit);
            else if (o.op == "prefixThrow") { got = tok.prefix("generated", set, limit); ok = true; }
            else if (o.op == "suffix") ok = tok.suffix(got, set, limit);
            else if (o.op == "skipAll") { count = tok.skipAll(set); ok = count > 0; }
            else if (o.op == "skipAllTrailing") { count = tok.skipAllTrailing(set); ok = count > 0; }
            else if (o.op == "skipOne") ok = tok.skipOne(set);
            else if (o.op == "skipOneTrailing") ok = tok.skipOneTrailing(set);
            else if (o.op == "token") ok = tok.token(got, set);
            else if (o.op == "skipStr") ok = tok.skip(SBuf(needle.data(), needle.size()));
            else if (o.op == "skipRequired") { tok.skipRequired("generated", SBuf(needle.data(), needle.size())); ok = true; }
            else if (o.op == "skipChar") ok = tok.skip(needle[0]);
            else if (o.op == "skipSuffix") ok = tok.skipSuffix(SBuf(needle.data(), needle.size()));
        } catch (const Parser::InsufficientInput &) {
            threw = true;
            if (!wantInsufficient && o.op == "prefixThrow" && wantThrow) return vp::fail("tok:wrong-exception-kind", where);
        } catch (const TextException &) {
            threw = true;
            if (wantInsufficient) return vp::fail("tok:wrong-exception-kind", where);
        }

        labels.insert(o.op + (wantThrow ? ":throws" : wantOk ? ":ok" : ":fail"));

        if (wantThrow || threw) {
            if (wantThrow != threw) return vp::fail(threw ? "tok:unexpected-throw" : "tok:missing-throw", where);
            // state after a throw is unspecified: continue from the model's pre-operation remainder
            tok.reset(SBuf(rem.data(), rem.size()));
            parsedBase = parsed;
            continue;
        }
        if (needle.empty() && (o.op == "skipStr" || o.op == "skipSuffix")) {
            // whether skipping an empty sequence "succeeds" is left open by the statement (no set, no run): accepted both ways
            ctx.excluded("result of skipping an empty sequence (left open)");
            wantOk = ok;
        }
        if (ok != wantOk)
            return vp::fail(ok ? "tok:" + o.op + "-succeeded-without-a-run" : "tok:" + o.op + "-failed-despite-a-run",
                            where + " lead=" + std::to_string(lead) + " trail=" + std::to_string(trail));
        const std::string gotRem = str(tok.remaining());
        if (!ok) {
            if (gotRem != rem) return vp::fail("tok:failed-op-consumed-input", where);
            if (tok.parsedSize() != parsed - parsedBase) return vp::fail("tok:failed-op-changed-parsedSize", where);
            continue;
        }
        if (hasCount && count != wantCount)
            return vp::fail("tok:" + o.op + "-wrong-count", where + " got " + std::to_string(count) + " want " + std::to_string(wantCount));
        if (hasToken && str(got) != wantToken)
            return vp::fail("tok:" + o.op + "-wrong-run", where + " got '" + vp::esc(str(got)) + "' want '" + vp::esc(wantToken) + "'");
        if (gotRem != wantRem)
            return vp::fail("tok:" + o.op + "-wrong-remainder", where + " got '" + vp::esc(gotRem) + "' want '" + vp::esc(wantRem) + "'");
        parsed += rem.size() - wantRem.size();
        if (tok.parsedSize() != parsed - parsedBase)
            return vp::fail("tok:parsedSize-mismatch", where + " got " + std::to_string(tok.parsedSize()) + " want " + std::to_string(parsed - parsedBase));
        if (tok.atEnd() != wantRem.empty()) return vp::fail("tok:atEnd-wrong", where);
        if (!wantRem.empty() && wantRem.size() < rem.size() && o.op != "skipStr" && o.op != "skipChar" && o.op != "skipSuffix" && o.op != "skipRequired")
            interesting = true; // a set-defined run ended strictly inside the buffer (or was capped by the limit)
        rem = wantRem;
    }
    for (const auto &l : labels) ctx.label(l);
    if (interesting) { ctx.nontrivial(); ctx.label("run-ends-inside-buffer"); }
    return vp::pass();
}

static void registerAll()
{
    vp::guardExit();
    vp::add<SetCase>("charset_algebra", vp::fromEntropy<SetCase>(decodeSet), checkSet, showSet, parseSet, 1.0, vp::fuzzFromEntropy<SetCase>(decodeSet));
    vp::add<TokCase>("tokenizer_ops", vp::fromEntropy<TokCase>(decodeTok, 3.0), checkTok, showTok, parseTok, 2.0, vp::fuzzFromEntropy<TokCase>(decodeTok));
}

VP_MAIN(registerAll)
