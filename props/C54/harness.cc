// C54 -- Ipc::ReadWriteLock provides mutual exclusion under any interleaving (E-sched).
//
// The real src/ipc/ReadWriteLock.cc is compiled with every std::atomic replaced by a
// scheduler-controlled atomic (engine/cxx/sched/sched_atomic.h).  2..3 logical processes run
// generated programs over the lock API; the schedule (who runs at every atomic operation) is
// part of the generated case.  Oracle = holder sets kept by the harness, written from the
// documented contract in ReadWriteLock.h, never from the level counters:
//   * a holder is added when the acquiring call RETURNS success and removed BEFORE the
//     releasing call starts; a call that converts a holding counts as the weaker of the two
//     while it is in progress;
//   * never two writers; a writer in exclusive mode never coexists with a shared holder;
//     at most one header updater; after everybody released, the lock can be acquired again.
// Preconditions (from the callers in ipc/StoreMap.cc, ipc/MemMap.cc): a process only releases
// or converts what it holds; stopAppendingAndRestoreExclusive() only while appending; after a
// failed restore the writer only unlocks (abortWriting) or switches to reading.
#include "squid.h"
#include "ipc/ReadWriteLock.h"

#include "sched/sched_case.h"

#include <new>

namespace {

enum Op { LS, LE, LH, US, UE, UH, X2S, S2X, SA, RA, OpCount };
const char *const OpName[OpCount] = {
    "lockShared", "lockExclusive", "lockHeaders", "unlockShared", "unlockExclusive", "unlockHeaders",
    "switchExclusiveToShared", "unlockSharedAndSwitchToExclusive", "startAppending", "stopAppendingAndRestoreExclusive"
};

enum Mode { None, Shared, Headers, WExcl, WAppend, WUnrestored, ModeCount };
const char *const ModeName[ModeCount] = {"none", "shared", "headers", "writer-exclusive", "writer-appending", "writer-unrestored"};

inline bool applicable(Mode m, Op o)
{
    switch (m) {
    case None: return o == LS || o == LE || o == LH;
    case Shared: return o == US || o == S2X;
    case Headers: return o == UH;
    case WExcl: return o == UE || o == X2S || o == SA;
    case WAppend: return o == UE || o == X2S || o == RA;
    case WUnrestored: return o == UE || o == X2S;
    default: return false;
    }
}

typedef std::vector<std::vector<int>> Programs;

struct Stats {
    unsigned acquireFailed = 0;   ///< a try-lock returned false
    unsigned acquired = 0;
    unsigned multiHolder = 0;     ///< holder set had >= 2 members at some acquisition
    unsigned readerWithAppender = 0;
    unsigned restoreTrue = 0, restoreFalse = 0;
    unsigned skipped = 0;         ///< program ops not applicable in the state reached (no-ops)
    unsigned executedOps = 0;
};

/// everything one controlled execution shares between its logical processes
struct World {
    alignas(64) unsigned char mem[sizeof(Ipc::ReadWriteLock)];
    Ipc::ReadWriteLock *lock = nullptr;
    std::vector<Mode> mode;
    Stats st;

    explicit World(size_t n) : mode(n, None)
    {
        memset(mem, 0, sizeof mem); // a new shared segment is zero-filled
        lock = new (mem) Ipc::ReadWriteLock();
    }

    std::string holders() const
    {
        std::string s;
        for (size_t i = 0; i < mode.size(); ++i)
            s += "P" + std::to_string(i) + "=" + ModeName[mode[i]] + " ";
        return s;
    }

    /// the invariant of the statement, over the harness's own holder sets
    void checkHolders(const char *after)
    {
        unsigned writers = 0, exclusive = 0, shared = 0, updaters = 0, appenders = 0;
        for (const Mode m : mode) {
            if (m == WExcl || m == WAppend || m == WUnrestored) ++writers;
            if (m == WExcl) ++exclusive;
            if (m == WAppend) ++appenders;
            if (m == Shared || m == Headers) ++shared;
            if (m == Headers) ++updaters;
        }
        if (writers + shared >= 2) ++st.multiHolder;
        if (appenders && shared) ++st.readerWithAppender;
        if (writers > 1)
            Sched::failRun("two-writers", std::string("after ") + after + ": " + holders());
        if (exclusive && shared)
            Sched::failRun("exclusive-writer-with-shared-holder", std::string("after ") + after + ": " + holders());
        if (updaters > 1)
            Sched::failRun("two-header-updaters", std::string("after ") + after + ": " + holders());
    }

    /// "I now hold X": record, judge, and let the others run while the holder set is non-trivial
    void hold(int me, Mode m, const char *after)
    {
        mode[me] = m;
        checkHolders(after);
        Sched::point();
    }

    void step(int me, Op op)
    {
        const Mode m = mode[me];
        if (!applicable(m, op)) {
            ++st.skipped;
            return;
        }
        ++st.executedOps;
        switch (op) {
        case LS:
            if (lock->lockShared()) { ++st.acquired; hold(me, Shared, OpName[op]); }
            else ++st.acquireFailed;
            break;
        case LE:
            if (lock->lockExclusive()) { ++st.acquired; hold(me, WExcl, OpName[op]); }
            else ++st.acquireFailed;
            break;
        case LH:
            if (lock->lockHeaders()) { ++st.acquired; hold(me, Headers, OpName[op]); }
            else ++st.acquireFailed;
            break;
        case US:
            mode[me] = None;
            lock->unlockShared();
            break;
        case UE:
            mode[me] = None;
            lock->unlockExclusive();
            break;
        case UH:
            mode[me] = None;
            lock->unlockHeaders();
            break;
        case X2S:
            mode[me] = Shared; // weaker of (writer, shared) while the call is in progress
            lock->switchExclusiveToShared();
            hold(me, Shared, OpName[op]);
            break;
        case S2X:
            mode[me] = None;
            if (lock->unlockSharedAndSwitchToExclusive()) { ++st.acquired; hold(me, WExcl, OpName[op]); }
            else ++st.acquireFailed;
            break;
        case SA:
            mode[me] = WAppend; // readers are welcome from the moment the call starts
            lock->startAppending();
            hold(me, WAppend, OpName[op]);
            break;
        case RA:
            if (lock->stopAppendingAndRestoreExclusive()) { ++st.restoreTrue; hold(me, WExcl, OpName[op]); }
            else { ++st.restoreFalse; hold(me, WUnrestored, OpName[op]); }
            break;
        default:
            break;
        }
    }

    void release(int me)
    {
        switch (mode[me]) {
        case Shared: step(me, US); break;
        case Headers: step(me, UH); break;
        case WExcl: case WAppend: case WUnrestored: step(me, UE); break;
        default: break;
        }
    }
};

vs::Exec execute(const Programs &progs, Sched::Strategy &strategy, Stats *statsOut = nullptr)
{
    World w(progs.size());
    std::vector<std::function<void()>> bodies;
    for (size_t p = 0; p < progs.size(); ++p) {
        bodies.push_back([&w, &progs, p]() {
            for (const int op : progs[p])
                w.step(static_cast<int>(p), static_cast<Op>(op));
            w.release(static_cast<int>(p));
        });
    }
    vs::Exec e;
    e.outcome = Sched::run(bodies, strategy);
    if (statsOut) *statsOut = w.st;
    if (e.outcome.failed) {
        e.ok = false;
        e.sig = e.outcome.sig;
        e.detail = e.outcome.detail + " (in P" + std::to_string(e.outcome.failedIn) + ")";
        return e;
    }
    if (!e.outcome.completed()) { // no waiting in this API: cannot happen, but never a violation
        e.inconclusive = true;
        return e;
    }
    // everybody released: the lock must be idle and acquirable again, in every mode
    Ipc::ReadWriteLock &l = *w.lock;
    auto bad = [&](const char *what) {
        e.ok = false;
        e.sig = std::string("not-idle-after-release:") + what;
        e.detail = std::string(what) + " failed after every holder released";
    };
    if (l.readers != 0 || l.writing || l.appending) bad("public-counters-nonzero");
    else if (!l.lockExclusive()) bad("lockExclusive");
    else {
        l.unlockExclusive();
        if (!l.lockHeaders()) bad("lockHeaders");
        else {
            l.unlockHeaders();
            if (!l.lockShared()) bad("lockShared");
            else l.unlockShared();
        }
    }
    return e;
}

// ------------------------------------------------------------------ text form

std::string showPrograms(vp::Writer &w, const Programs &progs)
{
    w.u("procs", progs.size());
    for (size_t p = 0; p < progs.size(); ++p) {
        std::string s;
        for (size_t i = 0; i < progs[p].size(); ++i) {
            if (i) s += ' ';
            s += OpName[progs[p][i]];
        }
        w.s("P" + std::to_string(p), s);
    }
    return std::string();
}

Programs parsePrograms(const vp::Reader &r)
{
    Programs progs(static_cast<size_t>(r.u("procs")));
    for (size_t p = 0; p < progs.size(); ++p) {
        std::istringstream is(r.s("P" + std::to_string(p)));
        std::string tok;
        while (is >> tok) {
            for (int o = 0; o < OpCount; ++o)
                if (tok == OpName[o]) progs[p].push_back(o);
        }
    }
    return progs;
}

/// the possible-modes abstraction used to generate programs whose ops are applicable in at
/// least one outcome of the preceding try-locks (real callers only release what they hold)
unsigned after(unsigned modes, Op o)
{
    unsigned out = 0;
    for (int m = 0; m < ModeCount; ++m) {
        if (!(modes & (1u << m))) continue;
        if (!applicable(static_cast<Mode>(m), o)) { out |= 1u << m; continue; }
        switch (o) {
        case LS: out |= (1u << None) | (1u << Shared); break;
        case LE: out |= (1u << None) | (1u << WExcl); break;
        case LH: out |= (1u << None) | (1u << Headers); break;
        case US: case UE: case UH: out |= 1u << None; break;
        case X2S: out |= 1u << Shared; break;
        case S2X: out |= (1u << None) | (1u << WExcl); break;
        case SA: out |= 1u << WAppend; break;
        case RA: out |= (1u << WExcl) | (1u << WUnrestored); break;
        default: break;
        }
    }
    return out;
}

bool plausible(unsigned modes, Op o)
{
    for (int m = 0; m < ModeCount; ++m)
        if ((modes & (1u << m)) && applicable(static_cast<Mode>(m), o)) return true;
    return false;
}

/// role 0 = free; 1 = appending writer (starts with lockExclusive startAppending);
/// 2 = reader (starts with lockShared or lockHeaders)
rc::Gen<std::vector<int>> genProgram(int maxOps, int role = 0)
{
    return rc::gen::exec([=]() {
        std::vector<int> prog;
        const int n = *vp::range<int>(role == 1 ? 2 : 1, maxOps);
        unsigned modes = 1u << None;
        if (role == 1) prog = {LE, SA};
        if (role == 2) prog = {*vp::range<int>(0, 3) ? LS : LH};
        for (const int o : prog) modes = after(modes, static_cast<Op>(o));
        for (int i = static_cast<int>(prog.size()); i < n; ++i) {
            // appending-related operations are weighted up: they need a successful lockExclusive first
            static const size_t weight[OpCount] = {3, 3, 2, 2, 2, 2, 2, 2, 5, 5};
            std::vector<int> cands;
            for (int o = 0; o < OpCount; ++o)
                if (plausible(modes, static_cast<Op>(o))) cands.insert(cands.end(), weight[o], o);
            const int o = *rc::gen::elementOf(cands);
            prog.push_back(o);
            modes = after(modes, static_cast<Op>(o));
        }
        return prog;
    });
}

void allPrograms(unsigned modes, int left, std::vector<int> &cur, std::vector<std::vector<int>> &out)
{
    if (!cur.empty()) out.push_back(cur);
    if (!left) return;
    for (int o = 0; o < OpCount; ++o) {
        if (!plausible(modes, static_cast<Op>(o))) continue;
        cur.push_back(o);
        allPrograms(after(modes, static_cast<Op>(o)), left - 1, cur, out);
        cur.pop_back();
    }
}

void labelStats(vp::Ctx &ctx, const Stats &st, const Sched::Outcome &o)
{
    if (o.preemptions) ctx.label("preempted");
    if (st.acquireFailed) ctx.label("acquire-failed");
    if (st.multiHolder) ctx.label("multi-holder");
    if (st.readerWithAppender) ctx.label("reader-with-appender");
    if (st.restoreTrue) ctx.label("restore-true");
    if (st.restoreFalse) ctx.label("restore-false");
    if (st.skipped) ctx.label("has-skipped-op");
    if (o.preemptions && (st.acquireFailed || st.multiHolder)) {
        ctx.label("nontrivial");
        ctx.nontrivial();
    }
}

// ------------------------------------------------------------------ sub-property: random (programs, schedule)

struct Case {
    Programs progs;
    vs::Schedule sched;
};

std::string show(const Case &c)
{
    vp::Writer w;
    showPrograms(w, c.progs);
    vs::showSchedule(w, c.sched);
    return w.str();
}

Case parse(const std::string &text)
{
    const vp::Reader r(text);
    Case c;
    c.progs = parsePrograms(r);
    c.sched = vs::parseSchedule(r);
    return c;
}

rc::Gen<Case> gen()
{
    return rc::gen::exec([]() {
        Case c;
        const int n = *vp::range<int>(2, 3);
        // one case in three is an "appending" scenario: one writer that starts appending, the others readers
        const bool appending = *vp::range<int>(0, 2) == 0;
        const int writer = *vp::range<int>(0, n - 1);
        for (int p = 0; p < n; ++p)
            c.progs.push_back(*genProgram(n == 2 ? 5 : 4, appending ? (p == writer ? 1 : 2) : 0));
        c.sched = *vs::genSchedule(n, 70, 0);
        return c;
    });
}

vp::Verdict check(const Case &c, vp::Ctx &ctx)
{
    const auto strategy = vs::makeStrategy(c.sched);
    Stats st;
    const vs::Exec e = execute(c.progs, *strategy, &st);
    ctx.label(c.sched.kind ? "schedule-pct" : "schedule-choices");
    ctx.label(c.progs.size() == 2 ? "procs-2" : "procs-3");
    if (e.inconclusive) { ctx.excluded("execution-abandoned"); return vp::pass(); }
    labelStats(ctx, st, e.outcome);
    return e.ok ? vp::pass() : vp::fail(e.sig, e.detail);
}

// ------------------------------------------------------------------ sub-property: dfs (programs; ALL schedules up to a bound)

struct DfsCase {
    Programs progs;
    unsigned bound = 2;
    uint64_t maxExec = 20000;
};

std::string showDfs(const DfsCase &c)
{
    vp::Writer w;
    showPrograms(w, c.progs);
    w.u("preemption_bound", c.bound);
    w.u("max_executions", c.maxExec);
    return w.str();
}

DfsCase parseDfs(const std::string &text)
{
    const vp::Reader r(text);
    DfsCase c;
    c.progs = parsePrograms(r);
    c.bound = static_cast<unsigned>(r.u("preemption_bound"));
    c.maxExec = r.u("max_executions");
    return c;
}

rc::Gen<DfsCase> genDfs()
{
    return rc::gen::exec([]() {
        DfsCase c;
        const int n = *vp::range<int>(2, 3);
        const bool appending = *vp::range<int>(0, 2) == 0;
        for (int p = 0; p < n; ++p)
            c.progs.push_back(*genProgram(n == 2 ? 3 : 2, appending ? (p == 0 ? 1 : 2) : 0));
        c.bound = 2;
        c.maxExec = 20000;
        return c;
    });
}

vp::Verdict exploreProgram(const Programs &progs, unsigned bound, uint64_t maxExec, vp::Ctx &ctx, vs::Explored &ex, bool labels)
{
    Stats sum;
    ex = vs::exploreAll([&](Sched::Strategy &s) {
        Stats st;
        const vs::Exec e = execute(progs, s, &st);
        sum.acquireFailed += st.acquireFailed;
        sum.multiHolder += st.multiHolder;
        sum.readerWithAppender += st.readerWithAppender;
        sum.restoreFalse += st.restoreFalse;
        sum.restoreTrue += st.restoreTrue;
        return e;
    }, bound, 0, maxExec);
    if (ex.executions > 1) ctx.evaluations += ex.executions - 1; // the driver adds one per case
    if (ex.diverged) return vp::fail("harness-nondeterministic", "DFS prefix replay diverged");
    if (labels) {
        ctx.label(ex.complete ? "dfs-space-completed" : "dfs-space-truncated");
        if (sum.acquireFailed) ctx.label("acquire-failed");
        if (sum.multiHolder) ctx.label("multi-holder");
        if (sum.readerWithAppender) ctx.label("reader-with-appender");
        if (sum.restoreFalse) ctx.label("restore-false");
        if (ex.preempted && (sum.acquireFailed || sum.multiHolder)) { ctx.label("nontrivial"); ctx.nontrivial(); }
    }
    if (ex.failed) return vp::fail(ex.sig, ex.detail);
    return vp::pass();
}

vp::Verdict checkDfs(const DfsCase &c, vp::Ctx &ctx)
{
    // the driver checks its budget only between batches: stop exploring once this process is past it
    if (vs::pastBudget()) { ctx.excluded("budget-exhausted-before-exploration"); return vp::pass(); }
    vs::Explored ex;
    return exploreProgram(c.progs, c.bound, c.maxExec, ctx, ex, true);
}

// ------------------------------------------------------------------ sub-property: exhaustive (thorough tier)
// ALL programs of the family (procs x <= ops plausible operations each, unordered process
// tuples) x ALL schedules up to the pre-emption bound.  Sharded by VP_SHARD/VP_SHARDS;
// "space-completed" is only labelled when this shard visited its whole part within VP_BUDGET_S.

struct Family {
    unsigned procs, ops, bound;
};

struct ExhCase {
    std::vector<Family> families;
};

std::string showExh(const ExhCase &c)
{
    vp::Writer w;
    for (const auto &f : c.families)
        w.s("family", std::to_string(f.procs) + " " + std::to_string(f.ops) + " " + std::to_string(f.bound));
    return w.str();
}

ExhCase parseExh(const std::string &text)
{
    const vp::Reader r(text);
    ExhCase c;
    for (size_t i = 0; i < r.count("family"); ++i) {
        std::istringstream is(r.s("family", i));
        Family f{2, 3, 3};
        is >> f.procs >> f.ops >> f.bound;
        c.families.push_back(f);
    }
    return c;
}

/// families: (processes, max operations per process, pre-emption bound)
rc::Gen<ExhCase> genExh()
{
    ExhCase c;
    c.families = {{2, 3, 3}, {3, 2, 2}};
    return rc::gen::just(c);
}

/// -> false when the budget ran out
bool exploreFamily(const Family &fam, vp::Ctx &ctx, double deadline, vp::Verdict &verdict)
{
    const long shard = vs::envInt("VP_SHARD", 0), shards = std::max(1L, vs::envInt("VP_SHARDS", 1));
    std::vector<std::vector<int>> family;
    std::vector<int> cur;
    allPrograms(1u << None, static_cast<int>(fam.ops), cur, family);
    const std::string tag = std::to_string(fam.procs) + "x" + std::to_string(fam.ops) + "b" + std::to_string(fam.bound);
    // unordered tuples of family members (processes are symmetric; the first decision of every
    // execution picks who starts)
    std::vector<size_t> idx(fam.procs, 0);
    uint64_t tupleNo = 0, visited = 0;
    bool complete = true;
    for (;;) {
        if (static_cast<long>(tupleNo % static_cast<uint64_t>(shards)) == shard) {
            if (vp::nowS() > deadline) { complete = false; break; }
            Programs progs;
            for (const size_t i : idx) progs.push_back(family[i]);
            vs::Explored ex;
            const vp::Verdict v = exploreProgram(progs, fam.bound, UINT64_MAX, ctx, ex, false);
            ++visited;
            if (!v.ok) {
                vp::Writer w;
                showPrograms(w, progs);
                verdict = vp::fail(v.sig, v.detail + " programs: " + vp::esc(w.str()));
                return true;
            }
            if (!ex.complete) complete = false;
        }
        ++tupleNo;
        // next non-decreasing index tuple
        int k = static_cast<int>(fam.procs) - 1;
        while (k >= 0 && idx[k] + 1 >= family.size()) --k;
        if (k < 0) break;
        const size_t v = idx[k] + 1;
        for (size_t j = static_cast<size_t>(k); j < idx.size(); ++j) idx[j] = v;
    }
    ctx.labels["family-" + tag + "-programs"] = family.size();
    ctx.labels["family-" + tag + "-tuples-visited"] += visited;
    return complete;
}

vp::Verdict checkExh(const ExhCase &c, vp::Ctx &ctx)
{
    const double deadline = vs::budgetDeadline() > 0 ? vs::budgetDeadline() : vp::nowS() + 3600; // relative to process start
    bool complete = true;
    for (const auto &fam : c.families) {
        vp::Verdict v = vp::pass();
        if (!exploreFamily(fam, ctx, deadline, v)) complete = false;
        if (!v.ok) return v;
    }
    ctx.label(complete ? "space-completed" : "space-incomplete");
    if (complete) ctx.nontrivial();
    return vp::pass();
}

void registerAll()
{
    vp::add<Case>("random", gen(), check, show, parse, 6.0);
    vp::add<DfsCase>("dfs", genDfs(), checkDfs, showDfs, parseDfs, 4.0);
    vp::add<ExhCase>("exhaustive", genExh(), checkExh, showExh, parseExh, 1.0);
}

} // namespace

VP_MAIN(registerAll)
