"""C39 ICP, HTCP and SNMP listeners tolerate arbitrary datagrams (end-to-end part).

Each example is a batch of UDP datagrams built by reference encoders (ICP v2/v3, HTCP 0.0/0.1 TST/CLR/MON/SET/NOP requests
and responses, SNMP v1/v2c Get/GetNext/Set/GetBulk/Response over Squid's MIB) and then mutated (every encoder reports
where its length/count fields are, so they can be lied about; byte substitution, insertion, deletion, duplication,
truncation, padding up to 64 KB), sent from a configured ICP peer address, a configured HTCP peer address or a stranger.
Oracle after every batch: no sanitizer report / assertion / FATAL, the proxy is alive, and a plain HTTP GET is served.
"""
import select
import socket
import struct
import time

from hypothesis import strategies as st

from vlib.e2e.env import ProxyEnv, fetch
from vlib.e2e.squidproc import free_port
from vlib.e2e_runner import Result

# --------------------------------------------------------------------------------------------------- reference encoders
ICP_OPS = {"INVALID": 0, "QUERY": 1, "HIT": 2, "MISS": 3, "ERR": 4, "SEND": 5, "SENDA": 6, "DATABEG": 7, "DATA": 8, "DATAEND": 9, "SECHO": 10, "DECHO": 11,
           "NOTIFY": 12, "INVALIDATE": 13, "DELETE": 14, "MISS_NOFETCH": 21, "DENIED": 22, "HIT_OBJ": 23, "END": 24, "X255": 255}


def enc_icp(d, url):
    op = ICP_OPS[d["op"]]
    u = url.encode("latin-1")
    if d["op"] == "QUERY":
        payload = socket.inet_aton("127.0.0.1") + u + (b"\0" if d["nul"] else b"")
    elif d["op"] == "HIT_OBJ":
        obj = b"O" * d["objlen"]
        payload = u + b"\0" + struct.pack(">H", d["objlen"]) + obj
    else:
        payload = u + (b"\0" if d["nul"] else b"")
    head = struct.pack(">BBHIIII", op, d["version"], 20 + len(payload), d["reqnum"], d["flags"], d["pad"], 0x7f000001)
    return head + payload, [(2, 2)]


def _countstr(s, lens, base):
    lens.append((base, 2))
    return struct.pack(">H", len(s)) + s


def enc_htcp(d, url):
    lens = []
    op = d["op"]
    opdata = bytearray()
    base0 = 4 + 8        # header(4) + data length(2) + op/resp(1) + flags(1) + trans-id(4)

    def specifier():
        for s in (d["method"].encode(), url.encode("latin-1"), d["http_version"].encode(), d["req_hdrs"].encode("latin-1")):
            opdata.extend(_countstr(s, lens, base0 + len(opdata)))

    def detail():
        for s in (d["resp_hdrs"].encode("latin-1"), b"Content-Type: text/plain\r\n", b"Cache-Vary: x\r\n"):
            opdata.extend(_countstr(s, lens, base0 + len(opdata)))

    if op == 1:       # TST
        if d["rr"] == 0:
            specifier()
        elif d["response"] == 0:
            detail()
    elif op == 2:     # MON
        opdata.append(d["pad"] & 0xff)
    elif op == 3:     # SET
        specifier()
        detail()
    elif op == 4:     # CLR
        opdata.extend(struct.pack(">H", d["pad"] & 0xf))
        specifier()
    data = struct.pack(">HBBI", 8 + len(opdata), ((op & 0xf) << 4) | (d["response"] & 0xf), ((d["f1"] & 1) << 1) | (d["rr"] & 1), d["reqnum"]) + bytes(opdata)
    if d["auth"]:
        auth_body = struct.pack(">II", 0, 0xffffffff) + struct.pack(">H", 3) + b"key" + struct.pack(">H", 4) + b"sig!"
        auth = struct.pack(">H", 2 + len(auth_body)) + auth_body
    else:
        auth = struct.pack(">H", 2)
    total = 4 + len(data) + len(auth)
    msg = struct.pack(">HBB", total, d["major"], d["minor"]) + data + auth
    lens += [(0, 2), (4, 2), (4 + len(data), 2)]
    return msg, lens


def _ber_len(n):
    if n < 0x80:
        return bytes([n])
    if n < 0x100:
        return bytes([0x81, n])
    return bytes([0x82, n >> 8, n & 0xff])


def _tlv(tag, content):
    return bytes([tag]) + _ber_len(len(content)) + content


def _ber_int(v):
    v = int(v)
    out = v.to_bytes(max(1, (v.bit_length() + 8) // 8), "big", signed=True)
    return _tlv(0x02, out)


def _ber_oid(ids):
    ids = list(ids) if len(ids) >= 2 else [1, 3]
    body = bytearray([40 * min(ids[0], 2) + min(ids[1], 39)])
    for x in ids[2:]:
        x = int(x) & 0xffffffff
        chunk = [x & 0x7f]
        x >>= 7
        while x:
            chunk.append(0x80 | (x & 0x7f))
            x >>= 7
        body.extend(reversed(chunk))
    return _tlv(0x06, bytes(body))


SQUID_MIB = [1, 3, 6, 1, 4, 1, 3495, 1]
OIDS = [SQUID_MIB + x for x in ([1, 1, 0], [1, 2, 0], [1, 3, 0], [2, 1, 0], [2, 5, 1, 0], [3, 1, 1, 0], [3, 1, 13, 0], [3, 2, 1, 1, 0], [3, 2, 2, 1, 2, 5], [3, 2, 2, 1, 10, 60],
                                [4, 1, 1, 0], [4, 2, 0], [4, 3, 0], [5, 1, 1, 1, 127, 0, 0, 1], [5, 1, 2, 0], [5, 2, 1, 1, 1, 127, 0, 0, 1], [5, 2, 2, 0], [], [1], [9, 9, 9], [3, 2, 2, 1, 99, 4294967295])] + \
    [[1, 3, 6, 1, 2, 1, 1, 1, 0], [1, 3], [2, 39, 4294967295, 4294967295], [1, 3, 6, 1, 4, 1, 3495] + [1] * 40, [1, 3, 6, 1, 4, 1, 3495, 1, 5, 1, 1, 1] + [255] * 16] + \
    [SQUID_MIB + [1 + (k % 3) * 200] * (n - len(SQUID_MIB)) for k, n in enumerate([62, 63, 64, 65, 66, 67, 127, 128, 129, 130, 200])]   # around MAX_NAME_LEN (64) / MAX_OID_LEN (128)
PDU_TAGS = {"get": 0xa0, "getnext": 0xa1, "response": 0xa2, "set": 0xa3, "trap": 0xa4, "getbulk": 0xa5, "inform": 0xa6, "trap2": 0xa7}


def enc_snmp(d, url):
    binds = b""
    for i in d["oids"]:
        oid = _ber_oid(OIDS[i % len(OIDS)])
        vk = d["value"]
        if vk == "null":
            val = _tlv(0x05, b"")
        elif vk == "int":
            val = _ber_int(d["reqnum"])
        elif vk == "str":
            val = _tlv(0x04, url.encode("latin-1")[:200])
        elif vk == "counter":
            val = _tlv(0x41, b"\x00\xff\xff\xff\xff")
        elif vk == "ip":
            val = _tlv(0x40, b"\x7f\x00\x00\x01")
        else:
            val = _tlv(0x06, b"")
        binds += _tlv(0x30, oid + val)
    pdu = _tlv(PDU_TAGS[d["pdu"]], _ber_int(d["reqnum"]) + _ber_int(d["errstat"]) + _ber_int(d["errindex"]) + _tlv(0x30, binds))
    comm = d["community"].encode("latin-1")
    msg = _tlv(0x30, _ber_int(d["version"]) + _tlv(0x04, comm) + pdu)
    # length octets: every byte that follows a tag.  A linear rescan finds them (the encoder's own output is well formed).
    lens = []

    def walk(buf, off, end, depth):
        while off < end and depth < 6:
            tag = buf[off]
            lo = off + 1
            if lo >= end:
                return
            first = buf[lo]
            if first < 0x80:
                n, hl = first, 1
            else:
                k = first & 0x7f
                n, hl = int.from_bytes(buf[lo + 1:lo + 1 + k], "big"), 1 + k
            lens.append((lo, 1))
            if hl > 1:
                lens.append((lo + 1, hl - 1))
            if tag & 0x20:
                walk(buf, lo + hl, lo + hl + n, depth + 1)
            off = lo + hl + n

    walk(msg, 0, len(msg), 0)
    return msg, lens


# --------------------------------------------------------------------------------------------------- generator
URLS = ["http://example.test/", "http://127.0.0.1:1/a/b?c=d", "", "x", "http://" + "h" * 300 + "/", "http://example.test/" + "p" * 1500, "http://example.test/" + "q" * 9000,
        "ftp://u:p@example.test/%00%ff", "http://example.test/a b\tc", "urn:x:y", "http://[::1]:80/", "http://example.test:99999/", "cache_object://localhost/info", "\xff\xfe\x00",
        "http://example.test/\r\nX: y"]
LEN_LIES = [0, 1, 2, 3, 19, 20, 21, 0x7f, 0x80, 0x81, 0x82, 0x84, 0xff, 0x100, 0x7fff, 0x8000, 0xfffe, 0xffff]

mutation = st.one_of(
    st.tuples(st.just("len"), st.integers(0, 40), st.integers(0, len(LEN_LIES) - 1)),
    st.tuples(st.just("lendelta"), st.integers(0, 40), st.sampled_from([-2, -1, 1, 2, 4, 8])),
    st.tuples(st.just("sub"), st.integers(0, 999), st.integers(0, 255)),
    st.tuples(st.just("ins"), st.integers(0, 999), st.integers(0, 255)),
    st.tuples(st.just("del"), st.integers(0, 999), st.integers(1, 40)),
    st.tuples(st.just("dup"), st.integers(0, 999), st.integers(1, 200)),
    st.tuples(st.just("trunc"), st.integers(0, 999), st.just(0)),
    st.tuples(st.just("pad"), st.integers(0, 999), st.sampled_from([1, 16, 500, 1400, 4000, 8100, 8192, 20000, 60000])),
).map(list)

# mostly well-formed messages (so that they pass the gates of the handlers) with occasional odd field values; the mutations do the rest
def W(common_values, rare_values, weight=6):
    return st.sampled_from(list(common_values) * weight + list(rare_values))


common = {"reqnum": st.sampled_from([0, 1, 0x7fffffff, 0x80000000, 0xffffffff, 12345]), "url": W([0, 1], range(len(URLS)), 8), "src": st.sampled_from([0, 0, 1, 1, 2]),
          "mut": st.lists(mutation, min_size=0, max_size=3), "pad": st.sampled_from([0, 0, 0, 1, 0xff, 0xffffffff])}
icp_d = st.fixed_dictionaries(dict(common, proto=st.just("icp"), op=W(["QUERY", "QUERY", "QUERY", "HIT", "MISS", "HIT_OBJ"], sorted(ICP_OPS), 4), version=W([2, 2, 3], [0, 1, 4, 255]),
                                   flags=W([0], [0x80000000, 0x40000000, 0xc0000000, 0xffffffff], 3), nul=W([True], [False]),
                                   objlen=st.sampled_from([0, 1, 100, 4000, 16000])))
htcp_d = st.fixed_dictionaries(dict(common, proto=st.just("htcp"), op=W([1, 1, 1, 4], [0, 2, 3, 5, 15]), rr=W([0, 0, 1], []), response=W([0], [1, 2, 5, 15]),
                                    f1=W([1], [0]), major=W([0], [1, 255]), minor=W([1, 1, 0], [2, 255]), auth=st.booleans(),
                                    method=W(["GET"], ["HEAD", "PURGE", "", "X" * 300, "G T"]), http_version=W(["1.1"], ["1.0", "", "HTTP/1.1", "9" * 50]),
                                    req_hdrs=st.sampled_from(["", "Accept: */*\r\n", "Host: example.test\r\nCache-Control: no-cache\r\n", "X: " + "y" * 3000 + "\r\n", "broken", ":\r\n\r\n"]),
                                    resp_hdrs=st.sampled_from(["", "Date: Tue, 22 Sep 2026 00:00:00 GMT\r\nAge: 5\r\n", "Expires: 0\r\nLast-Modified: x\r\n", "Z" * 2000])))
snmp_d = st.fixed_dictionaries(dict(common, proto=st.just("snmp"), version=W([0, 1], [2, 3, -1, 0x7fffffff]),
                                    community=W(["public"], ["private", "", "p" * 127, "p" * 128, "p" * 129, "p" * 300, "pub\x00lic"]),
                                    pdu=W(["get", "getnext", "getnext", "getbulk"], sorted(PDU_TAGS), 3), errstat=W([0], [1, 5, 50, -1, 0x7fffffff]),
                                    errindex=W([0], [1, 10, 1000, -1, 0x7fffffff]), oids=st.lists(st.integers(0, len(OIDS) - 1), min_size=0, max_size=8),
                                    value=W(["null"], ["int", "str", "counter", "ip", "emptyoid"], 3)))


def strategy(tp):
    n = int(tp.get("batch", 40))
    return st.fixed_dictionaries({"dgrams": st.lists(st.one_of(icp_d, htcp_d, snmp_d), min_size=max(1, n // 4), max_size=n)})


def mutate(data, lens, muts):
    data = bytearray(data)
    touched_header = False
    for op, a, b in muts:
        n = len(data)
        if op in ("len", "lendelta"):
            if not lens:
                continue
            off, size = lens[a % len(lens)]
            if off + size > len(data):
                continue
            cur = int.from_bytes(data[off:off + size], "big")
            v = LEN_LIES[b] if op == "len" else cur + b
            data[off:off + size] = (v % (1 << (8 * size))).to_bytes(size, "big")
            continue
        p = (n * a) // 1000 if n else 0
        if p < 4:
            touched_header = True
        if op == "sub" and n:
            data[min(p, n - 1)] = b
        elif op == "ins":
            data[p:p] = bytes([b])
        elif op == "del":
            del data[p:p + b]
        elif op == "dup":
            data[p:p] = data[p:p + b]
        elif op == "trunc":
            del data[p:]
        elif op == "pad":
            data[p:p] = b"\xa5" * b
    return bytes(data[:65000]), touched_header


ENC = {"icp": enc_icp, "htcp": enc_htcp, "snmp": enc_snmp}


# --------------------------------------------------------------------------------------------------- environment
class Env(ProxyEnv):
    pass


def _udp(host):
    s = socket.socket(socket.AF_INET, socket.SOCK_DGRAM)
    s.bind((host, 0))
    s.setblocking(False)
    try:
        s.setsockopt(socket.SOL_SOCKET, socket.SO_RCVBUF, 1 << 20)
    except OSError:
        pass
    return s


def setup(ctx):
    socks = [_udp("127.0.0.4"), _udp("127.0.0.2"), _udp("127.0.0.3")]
    ports = {"icp": free_port(udp=True), "htcp": free_port(udp=True), "snmp": free_port(udp=True)}
    dead = free_port()
    conf = "\n".join([
        "icp_port %d" % ports["icp"], "htcp_port %d" % ports["htcp"], "snmp_port %d" % ports["snmp"],
        "udp_incoming_address 127.0.0.1", "snmp_incoming_address 127.0.0.1",
        "icp_access allow all", "htcp_access allow all", "htcp_clr_access allow all",
        "acl snmppublic snmp_community public", "snmp_access allow snmppublic all",
        "log_icp_queries on", "icp_hit_stale on",
        # the two sender sockets are configured peers, so ICP/HTCP *replies* from them reach the neighbour code too
        "cache_peer 127.0.0.4 sibling %d %d name=picp no-digest no-netdb-exchange" % (dead, socks[0].getsockname()[1]),
        "cache_peer 127.0.0.2 sibling %d %d name=phtcp htcp no-digest no-netdb-exchange" % (dead, socks[1].getsockname()[1]),
        "cache_peer_access picp deny all", "cache_peer_access phtcp deny all",
        "dead_peer_timeout 1 second",
    ]) + "\n"
    env = Env(ctx, conf=conf, cache_mem="8 MB")
    env.socks, env.ports = socks, ports
    return env


def teardown(env):
    for s in env.socks:
        s.close()
    env.close()


def drain(env):
    got = {"icp": 0, "htcp": 0, "snmp": 0}
    last = []
    while True:
        rl, _, _ = select.select(env.socks, [], [], 0)
        if not rl:
            break
        for s in rl:
            try:
                data, peer = s.recvfrom(65535)
            except OSError:
                continue
            for k, p in env.ports.items():
                if peer[1] == p:
                    got[k] += 1
            last.append((peer, data))
    return got, last


def valid_probe(env, proto, tries=2):
    """A well-formed request of the protocol is still answered. -> bool"""
    s = env.socks[2]
    for attempt in range(tries):
        drain(env)
        rq = 0x51000000 + attempt
        if proto == "icp":
            msg, _ = enc_icp({"op": "QUERY", "version": 2, "reqnum": rq, "flags": 0, "pad": 0, "nul": True, "objlen": 0}, "http://probe.test/%d" % attempt)
        elif proto == "htcp":
            msg, _ = enc_htcp({"op": 1, "rr": 0, "response": 0, "f1": 0, "major": 0, "minor": 1, "auth": False, "method": "GET", "http_version": "1.1", "req_hdrs": "", "resp_hdrs": "",
                               "reqnum": rq, "pad": 0}, "http://probe.test/%d" % attempt)
            msg = msg[:7] + bytes([msg[7] | 2]) + msg[8:]      # F1 = response desired
        else:
            msg, _ = enc_snmp({"version": 0, "community": "public", "pdu": "get", "reqnum": rq & 0x7fffffff, "errstat": 0, "errindex": 0, "oids": [0], "value": "null"}, "")
        try:
            s.sendto(msg, ("127.0.0.1", env.ports[proto]))
        except OSError:
            pass
        deadline = time.time() + 1.0
        while time.time() < deadline:
            rl, _, _ = select.select([s], [], [], max(0.0, deadline - time.time()))
            if not rl:
                break
            try:
                data, peer = s.recvfrom(65535)
            except OSError:
                continue
            if peer[1] == env.ports[proto]:
                return True
    return False


def execute(env, sc):
    r = Result()
    ns = env.ns()
    drain(env)
    sent = {"icp": 0, "htcp": 0, "snmp": 0}
    mutated_behind_gate = 0
    for i, d in enumerate(sc["dgrams"]):
        msg, lens = ENC[d["proto"]](d, URLS[d["url"] % len(URLS)])
        out, touched_header = mutate(msg, lens, d["mut"])
        if d["mut"] and not touched_header and len(out) >= 4:
            mutated_behind_gate += 1
        s = env.socks[d["src"] % 3]
        try:
            s.sendto(out, ("127.0.0.1", env.ports[d["proto"]]))
            sent[d["proto"]] += 1
        except OSError:
            r.label("sendto-refused(oversize)")
        if i % 8 == 7:
            time.sleep(0.002)        # do not overrun the proxy's socket buffer: dropped datagrams test nothing
    r.sub_evaluations = len(sc["dgrams"])
    # ---- give the proxy time to work through the batch, then look
    time.sleep(0.03)
    answers, _ = drain(env)
    okpath = "/%s/ok" % ns
    env.origin.script(okpath, {"status": 200, "body_tag": okpath, "body_len": 10, "headers": [["Cache-Control", "no-store"]]})
    healthy = env.health(r)
    if healthy:
        good = False
        for attempt in range(3):
            try:
                m = fetch(env, okpath, timeout=15)
            except OSError:
                m = None            # not listening: dead (found by health_problems() below) or not served
            if m is not None and m.status == 200 and m.complete:
                good = True
                break
            time.sleep(0.3)
        if not good:
            if env.squid.health_problems():
                env.health(r)
            else:
                r.fail("http-not-served-after-datagrams", "plain GET failed three times after the batch")
        else:
            more, _ = drain(env)           # answers that arrived while the HTTP probe ran
            for k in more:
                answers[k] += more[k]
            # the listeners themselves still answer well-formed requests (reported, not part of the statement)
            for proto in ("icp", "htcp", "snmp"):
                if sent[proto]:
                    if valid_probe(env, proto):
                        r.label("listener-still-answers:" + proto)
                    else:
                        if env.squid.health_problems():
                            env.health(r)
                        else:
                            r.label("listener-probe-unanswered:" + proto)
    for k in sent:
        if sent[k]:
            r.label("sent:" + k)
        if answers[k]:
            r.label("answered:" + k)
    if mutated_behind_gate and sum(answers.values()) > 0:
        r.nontrivial = True
    if mutated_behind_gate:
        r.label("mutated-behind-version-gate")
    return r
