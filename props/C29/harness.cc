// C29 Cache-Control directives parse and re-serialise faithfully.
// Domain : Cache-Control field values: 0-10 members from the known directive set (random case), extension
//          directives, arguments (digits at 2^31/2^32 boundaries, 20 digits, signs, trailing garbage, quoted lists,
//          empty, tokens), duplicates, OWS, empty list members.  CTLs other than HTAB are not generated.
// Oracle : reference directive parser written from RFC 9111 5.2 / RFC 9110 5.6 (token, quoted-string, #list) and
//          the statement: known flags, numeric values iff 1*DIGIT that fits int32, quoted field lists, first
//          (valid) occurrence wins, invalid numeric values are absent; then packInto() -> parse() must give an
//          object with equal accessors.
// Left open (accepted both ways, counted): members that do not match `token [ "=" ( token / quoted-string ) ]`,
//          a flag directive carrying an argument, an unquoted argument of private/no-cache, a quoted numeric
//          argument, max-stale with an invalid argument (either absent or "any").
#include "squid.h"
#include "HttpHdrCc.h"
#include "MemBuf.h"
#include "mem/forward.h"
#include "SquidString.h"

#include "verif_pbt.h"

#include <climits>

extern "C" const char *__asan_default_options() { return "quarantine_size_mb=2:malloc_context_size=2"; }

enum Dir { D_PUBLIC, D_PRIVATE, D_NO_CACHE, D_NO_STORE, D_NO_TRANSFORM, D_MUST_REVALIDATE, D_PROXY_REVALIDATE, D_MAX_AGE,
           D_S_MAXAGE, D_MAX_STALE, D_MIN_FRESH, D_ONLY_IF_CACHED, D_STALE_IF_ERROR, D_IMMUTABLE, D_N };
static const char *const DirName[D_N] = { "public", "private", "no-cache", "no-store", "no-transform", "must-revalidate",
                                           "proxy-revalidate", "max-age", "s-maxage", "max-stale", "min-fresh", "only-if-cached", "stale-if-error", "immutable" };
enum Kind { K_FLAG, K_LIST, K_NUM, K_MAXSTALE };
static Kind kindOf(int d)
{
    switch (d) {
    case D_PRIVATE: case D_NO_CACHE: return K_LIST;
    case D_MAX_AGE: case D_S_MAXAGE: case D_MIN_FRESH: case D_STALE_IF_ERROR: return K_NUM;
    case D_MAX_STALE: return K_MAXSTALE;
    default: return K_FLAG;
    }
}
static const int32_t Any = 0x7fffffff; // valueless max-stale (documented in HttpHdrCc.h as MAX_STALE_ANY)

struct Case { std::string value; };
static std::string show(const Case &c) { return vp::Writer().s("value", c.value).str(); }
static Case parse(const std::string &t) { vp::Reader r(t); Case c; c.value = r.s("value"); return c; }

// ------------------------------------------------------------------ reference

static bool isTchar(unsigned char c)
{
    if (isalnum(c)) return true;
    return c && strchr("!#$%&'*+-.^_`|~", c) != nullptr;
}
static bool isToken(const std::string &s)
{
    if (s.empty()) return false;
    for (unsigned char c : s) if (!isTchar(c)) return false;
    return true;
}
/// DQUOTE *( qdtext / quoted-pair ) DQUOTE spanning all of s; out = unescaped content
static bool isQuotedString(const std::string &s, std::string &out)
{
    out.clear();
    if (s.size() < 2 || s[0] != '"' || s.back() != '"') return false;
    for (size_t i = 1; i + 1 < s.size(); ++i) {
        const unsigned char c = s[i];
        if (c == '\\') {
            if (i + 2 >= s.size()) return false; // the backslash would escape the closing quote
            const unsigned char n = s[++i];
            if (!(n == '\t' || n == ' ' || (n >= 0x21 && n != 0x7f))) return false;
            out += static_cast<char>(n);
        } else if (c == '"') return false;
        else if (c == '\t' || c == ' ' || c == 0x21 || (c >= 0x23 && c <= 0x5b) || (c >= 0x5d && c <= 0x7e) || c >= 0x80) out += static_cast<char>(c);
        else return false;
    }
    return true;
}

/// #list splitting: commas outside quoted-strings separate; members are OWS-trimmed; empty members are dropped
static std::vector<std::string> splitList(const std::string &v, bool &danglingQuote)
{
    std::vector<std::string> out;
    std::string cur;
    bool inq = false;
    auto flush = [&]() {
        size_t b = 0, e = cur.size();
        while (b < e && (cur[b] == ' ' || cur[b] == '\t')) ++b;
        while (e > b && (cur[e - 1] == ' ' || cur[e - 1] == '\t')) --e;
        if (e > b) out.push_back(cur.substr(b, e - b));
        cur.clear();
    };
    for (size_t i = 0; i < v.size(); ++i) {
        const char c = v[i];
        if (inq) {
            cur += c;
            if (c == '\\' && i + 1 < v.size()) cur += v[++i];
            else if (c == '"') inq = false;
        } else if (c == '"') { inq = true; cur += c; }
        else if (c == ',') flush();
        else cur += c;
    }
    danglingQuote = inq;
    flush();
    return out;
}

struct Exp {
    enum St { Absent, Present, Open } st = Absent;
    int32_t value = -1;
    std::string list;
    bool escapedSpecial = false; ///< the quoted list has a quoted-pair of DQUOTE or backslash
};

struct NumInfo {
    bool strictOk = false;   // 1*DIGIT and <= INT32_MAX
    int32_t strictValue = 0;
    bool lenientOk = false;  // [+] 1*DIGIT then anything, digit prefix <= INT32_MAX
    int32_t lenientValue = 0;
    bool plus = false, garbage = false, tooBig = false, boundary = false;
};

static NumInfo numInfo(const std::string &tok)
{
    NumInfo n;
    size_t i = 0;
    if (i < tok.size() && tok[i] == '+') { n.plus = true; ++i; }
    unsigned __int128 v = 0;
    size_t nd = 0;
    while (i < tok.size() && isdigit(static_cast<unsigned char>(tok[i]))) {
        if (v < (static_cast<unsigned __int128>(1) << 100)) v = v * 10 + (tok[i] - '0');
        ++i; ++nd;
    }
    if (!nd) return n;
    n.garbage = i < tok.size();
    n.tooBig = v > static_cast<unsigned __int128>(INT32_MAX);
    const unsigned __int128 p31 = static_cast<unsigned __int128>(1) << 31, p32 = static_cast<unsigned __int128>(1) << 32;
    auto near = [&](unsigned __int128 x) { return (v > x ? v - x : x - v) <= 2; };
    n.boundary = near(p31) || near(p32) || nd >= 11;
    if (!n.tooBig) {
        n.lenientOk = true;
        n.lenientValue = static_cast<int32_t>(v);
        if (!n.plus && !n.garbage) { n.strictOk = true; n.strictValue = n.lenientValue; }
    }
    return n;
}

struct Ref {
    Exp d[D_N];
    std::vector<std::string> other;
    bool otherOpen = false;
    bool splitUnsafe = false; // a quote outside the `name="..."` form: list splitting itself is not defined
    // labels
    bool dup = false, boundary = false, anyMalformed = false, tooBig = false, leniencyInput = false;
    /// per directive: (value a prefix-reading number parser would produce, why the argument is invalid) of every
    /// numeric argument that is not 1*DIGIT but starts with [+]digits -- used to classify findings only
    std::vector<std::pair<int32_t, const char *>> lenientReadings[D_N];
};

static int knownDir(const std::string &name)
{
    for (int d = 0; d < D_N; ++d)
        if (strcasecmp(name.c_str(), DirName[d]) == 0) return d;
    return -1;
}

static Ref reference(const std::string &value, bool maxStaleInvalidIsAny)
{
    Ref r;
    bool dangling = false;
    const auto members = splitList(value, dangling);
    if (dangling) r.splitUnsafe = true;
    bool seen[D_N] = {};
    for (const auto &m : members) {
        const size_t eq = m.find('=');
        const std::string name = m.substr(0, eq);
        const bool hasArg = eq != std::string::npos;
        const std::string arg = hasArg ? m.substr(eq + 1) : std::string();
        std::string unq;
        const bool argToken = hasArg && isToken(arg);
        const bool argQuoted = hasArg && !argToken && isQuotedString(arg, unq);
        const bool wellFormed = isToken(name) && (!hasArg || argToken || argQuoted);
        if (!wellFormed) {
            r.anyMalformed = true;
            if (m.find('"') != std::string::npos) r.splitUnsafe = true;
        }
        const int d = isToken(name) ? knownDir(name) : -1;
        if (d < 0) {
            if (!wellFormed) r.otherOpen = true;
            r.other.push_back(m);
            continue;
        }
        if (seen[d]) r.dup = true;
        seen[d] = true;
        Exp &e = r.d[d];
        if (e.st != Exp::Absent) continue; // first occurrence that counted wins; an undecided one stays undecided
        if (!wellFormed) { e.st = Exp::Open; continue; }
        switch (kindOf(d)) {
        case K_FLAG:
            if (hasArg) e.st = Exp::Open;
            else e.st = Exp::Present;
            break;
        case K_LIST:
            if (!hasArg) { e.st = Exp::Present; e.list.clear(); }
            else if (argQuoted) {
                e.st = Exp::Present;
                e.list = unq;
                e.escapedSpecial = arg.find("\\\"") != std::string::npos || arg.find("\\\\") != std::string::npos;
            }
            else e.st = Exp::Open;
            break;
        case K_NUM:
        case K_MAXSTALE: {
            if (!hasArg) {
                if (kindOf(d) == K_MAXSTALE) { e.st = Exp::Present; e.value = Any; }
                break; // a numeric directive without its value is invalid: absent
            }
            if (argQuoted) { e.st = Exp::Open; break; } // recipients "ought to accept both forms"
            const NumInfo n = numInfo(arg);
            if (n.boundary) r.boundary = true;
            if (n.tooBig) r.tooBig = true;
            if (n.lenientOk && !n.strictOk) {
                r.leniencyInput = true;
                r.lenientReadings[d].emplace_back(n.lenientValue, n.garbage ? "trailing-garbage" : "plus-sign");
            }
            if (n.strictOk) { e.st = Exp::Present; e.value = n.strictValue; }
            else if (kindOf(d) == K_MAXSTALE && maxStaleInvalidIsAny) { e.st = Exp::Present; e.value = Any; }
            // else: invalid numeric value => treated as absent (a later occurrence may still count)
            break;
        }
        }
    }
    return r;
}

// ------------------------------------------------------------------ Squid side

struct Snap {
    bool has[D_N] = {};
    int32_t value[D_N];
    std::string list[D_N];
    std::string other;
    bool operator==(const Snap &o) const
    {
        for (int d = 0; d < D_N; ++d) {
            if (has[d] != o.has[d]) return false;
            if (has[d] && (value[d] != o.value[d] || list[d] != o.list[d])) return false;
        }
        return other == o.other;
    }
};

static std::string str(const String &s) { return s.size() ? std::string(s.rawBuf(), s.size()) : std::string(); }

static Snap snapshot(const HttpHdrCc &cc)
{
    Snap s;
    for (int d = 0; d < D_N; ++d) s.value[d] = -1;
    s.has[D_PUBLIC] = cc.hasPublic();
    const String *l = nullptr;
    if ((s.has[D_PRIVATE] = cc.hasPrivate(&l))) s.list[D_PRIVATE] = str(*l);
    if ((s.has[D_NO_CACHE] = cc.hasNoCache(&l))) s.list[D_NO_CACHE] = str(*l);
    s.has[D_NO_STORE] = cc.hasNoStore();
    s.has[D_NO_TRANSFORM] = cc.hasNoTransform();
    s.has[D_MUST_REVALIDATE] = cc.hasMustRevalidate();
    s.has[D_PROXY_REVALIDATE] = cc.hasProxyRevalidate();
    s.has[D_MAX_AGE] = cc.hasMaxAge(&s.value[D_MAX_AGE]);
    s.has[D_S_MAXAGE] = cc.hasSMaxAge(&s.value[D_S_MAXAGE]);
    s.has[D_MAX_STALE] = cc.hasMaxStale(&s.value[D_MAX_STALE]);
    s.has[D_MIN_FRESH] = cc.hasMinFresh(&s.value[D_MIN_FRESH]);
    s.has[D_ONLY_IF_CACHED] = cc.hasOnlyIfCached();
    s.has[D_STALE_IF_ERROR] = cc.hasStaleIfError(&s.value[D_STALE_IF_ERROR]);
    s.has[D_IMMUTABLE] = cc.hasImmutable();
    s.other = str(cc.other);
    return s;
}

static bool matches(const Exp &e, const Snap &s, int d)
{
    if (e.st == Exp::Open) return true;
    if (e.st == Exp::Absent) return !s.has[d];
    if (!s.has[d]) return false;
    switch (kindOf(d)) {
    case K_FLAG: return true;
    case K_LIST: return s.list[d] == e.list;
    default: return s.value[d] == e.value;
    }
}

static std::string describe(const Snap &s, int d)
{
    if (!s.has[d]) return "absent";
    if (kindOf(d) == K_FLAG) return "present";
    if (kindOf(d) == K_LIST) return "present list=" + vp::esc(s.list[d]);
    return "present value=" + std::to_string(s.value[d]);
}

static vp::Verdict check(const Case &c, vp::Ctx &ctx)
{
    static bool inited = false;
    if (!inited) { Mem::Init(); inited = true; }
    for (unsigned char ch : c.value)
        if ((ch < 0x20 && ch != '\t') || ch == 0x7f) { ctx.excluded("CTL in field value"); return vp::pass(); }

    const Ref strictAny = reference(c.value, true);
    const Ref strictSkip = reference(c.value, false);
    const Ref &ref = strictAny;

    int present = 0;
    for (int d = 0; d < D_N; ++d) if (ref.d[d].st == Exp::Present) ++present;
    if (ref.dup) ctx.label("duplicate-known-directive");
    if (ref.boundary) ctx.label("numeric-at-boundary");
    if (ref.tooBig) ctx.label("numeric-above-int32");
    if (ref.leniencyInput) ctx.label("numeric-with-sign-or-trailing-garbage");
    if (ref.anyMalformed) ctx.label("malformed-member");
    if (!ref.other.empty()) ctx.label("extension-directive");
    if (ref.d[D_PRIVATE].st == Exp::Present && !ref.d[D_PRIVATE].list.empty()) ctx.label("private-with-list");
    if (ref.d[D_NO_CACHE].st == Exp::Present && !ref.d[D_NO_CACHE].list.empty()) ctx.label("no-cache-with-list");
    if (present >= 3) ctx.label("three-or-more-known-present");
    if (!present) ctx.label("no-known-present");
    if (ref.dup || ref.boundary) ctx.nontrivial();

    HttpHdrCc cc;
    const String value(c.value.c_str());
    const bool ok = cc.parse(value);
    const Snap got = snapshot(cc);

    if (ref.splitUnsafe) {
        ctx.label("stray-quote");
        ctx.excluded("a double quote outside name=\"...\": list splitting is not defined by the grammar; accessors not judged");
    } else {
        for (int d = 0; d < D_N; ++d) {
            if (matches(strictAny.d[d], got, d) || matches(strictSkip.d[d], got, d)) {
                if (strictAny.d[d].st == Exp::Open) ctx.excluded(std::string("directive left open by the statement: ") + DirName[d]);
                continue;
            }
            const std::string detail = std::string(DirName[d]) + " in " + vp::esc(c.value) + ": got " + describe(got, d);
            if (got.has[d] && (kindOf(d) == K_NUM || kindOf(d) == K_MAXSTALE)) {
                // Squid's value is what reading the digit prefix of an invalid argument gives?
                for (const auto &lr : ref.lenientReadings[d])
                    if (lr.first == got.value[d]) return vp::fail(std::string("cc:invalid-numeric-accepted:") + lr.second, detail);
            }
            if (kindOf(d) == K_LIST && strictAny.d[d].st == Exp::Present && strictAny.d[d].list.find('\t') != std::string::npos)
                return vp::fail("cc:field-list:htab-in-quoted-string-rejected", detail);
            if (kindOf(d) == K_LIST && strictAny.d[d].st == Exp::Present && strictAny.d[d].escapedSpecial && got.has[d])
                return vp::fail("cc:field-list:quoted-pair-of-dquote-or-backslash-misdecoded", detail + " want list=" + vp::esc(strictAny.d[d].list));
            const char *cls = kindOf(d) == K_FLAG ? "flag" : (kindOf(d) == K_LIST ? "field-list" : "numeric");
            const Exp &e = strictAny.d[d];
            const char *dir = e.st == Exp::Absent ? "present-but-expected-absent" : (got.has[d] ? "wrong-value" : "absent-but-expected-present");
            return vp::fail(std::string("cc:") + cls + ":" + dir, detail);
        }
        if (!ref.otherOpen) {
            bool dq = false;
            const auto gotOther = splitList(got.other, dq);
            if (gotOther != ref.other) return vp::fail("cc:extension-directives-differ", "other=" + vp::esc(got.other) + " for " + vp::esc(c.value));
        }
        if (present && !ok) return vp::fail("cc:parse-returned-false-with-known-directives");
    }

    // packInto -> parse round trip (what HttpHeader::putCc() + getCc() do); only objects callers keep (parse() true)
    if (ok) {
        MemBuf mb;
        mb.init();
        cc.packInto(&mb);
        const std::string packed(mb.content(), mb.contentSize());
        mb.clean();
        HttpHdrCc again;
        const String value2(packed.c_str());
        const bool ok2 = again.parse(value2);
        const Snap got2 = snapshot(again);
        if (!ok2 || !(got2 == got)) {
            std::string what = "return-value";
            if (ok2) {
                what = "other";
                for (int d = 0; d < D_N; ++d)
                    if (got.has[d] != got2.has[d] || (got.has[d] && (got.value[d] != got2.value[d] || got.list[d] != got2.list[d]))) { what = DirName[d]; break; }
            }
            return vp::fail("cc:roundtrip-differs:" + what, "value " + vp::esc(c.value) + " packed " + vp::esc(packed));
        }
        ctx.label("roundtrip-checked");
    }
    return vp::pass();
}

// ------------------------------------------------------------------ generator

static std::string randomCase(const std::string &s, unsigned bits)
{
    std::string o = s;
    for (size_t i = 0; i < o.size(); ++i)
        if (bits & (1u << (i % 16))) o[i] = static_cast<char>(toupper(static_cast<unsigned char>(o[i])));
    return o;
}

static rc::Gen<std::string> numArg()
{
    using namespace rc;
    return gen::exec([]() -> std::string {
        const int k = *vp::range<int>(0, 23);
        const int d = *vp::range<int>(-2, 2);
        auto around = [&](unsigned long long b) { return std::to_string(b + d); };
        switch (k) {
        case 0: return "0";
        case 1: return std::to_string(*vp::range<int>(0, 100000));
        case 2: return std::to_string(*vp::range<int>(0, INT_MAX - 1));
        case 3: case 4: return around(1ULL << 31);
        case 5: case 6: return around(1ULL << 32);
        case 7: return "99999999999999999999";
        case 8: return "18446744073709551617";
        case 9: return "000" + std::to_string(*vp::range<int>(0, 999));
        case 10: return "-" + std::to_string(*vp::range<int>(0, 99));
        case 11: return "+" + std::to_string(*vp::range<int>(0, 99));
        case 12: return std::to_string(*vp::range<int>(0, 99)) + *gen::element(std::string("abc"), std::string("x"), std::string(".5"), std::string("-1"), std::string("e3"));
        case 13: return *gen::element(std::string("abc"), std::string("x5"), std::string("-"), std::string("0x10"));
        case 14: return "\"" + std::to_string(*vp::range<int>(0, 99)) + "\"";
        case 15: return " " + std::to_string(*vp::range<int>(0, 99));
        case 16: return "";
        case 17: return around(1ULL << 31) + "s";
        case 18: return std::to_string((1ULL << 32) + *vp::range<int>(0, 100000)) ;
        default: return std::to_string(*vp::range<int>(0, 4000));
        }
    });
}

static rc::Gen<std::string> listArg()
{
    using namespace rc;
    return gen::weightedOneOf<std::string>({
        {8, gen::element(std::string("\"Set-Cookie\""), std::string("\"A, B\""), std::string("\"x-foo,x-bar\""), std::string("\"\""), std::string("\" a \""))},
        {2, gen::element(std::string("foo"), std::string("Set-Cookie"))},
        {1, gen::element(std::string("\"a\\\"b\""), std::string("\"a\\\\b\""), std::string("\"a\\b\""), std::string("\"a\tb\""), std::string("\"a,\tb\""))},
        {1, gen::element(std::string("\"abc"), std::string("\"a\"x"), std::string("a\"b\""), std::string(""))},
        {1, gen::map(vp::bytes(6, "ab,\" \\=\t"), [](const std::string &s) { return "\"" + s + "\""; })}});
}

static rc::Gen<Case> gen()
{
    using namespace rc;
    return gen::exec([]() {
        Case c;
        const int n = *gen::weightedElement<int>({{1, 0}, {4, 1}, {5, 2}, {5, 3}, {4, 4}, {3, 5}, {2, 7}, {1, 10}});
        // a small palette makes duplicates frequent
        const bool narrow = *vp::range<int>(0, 2) == 0;
        const int paletteBase = *vp::range<int>(0, D_N - 1);
        std::string v;
        for (int i = 0; i < n; ++i) {
            if (i) v += *gen::weightedElement<std::string>({{8, ", "}, {6, ","}, {1, " ,"}, {1, " , "}, {1, ",\t"}, {1, ",,"}, {1, ", ,"}});
            else if (*vp::range<int>(0, 29) == 0) v += ", ";
            const int which = *vp::range<int>(0, 9);
            if (which == 0) { // extension directive
                std::string m = *gen::element(std::string("ext"), std::string("community"), std::string("x-1"), std::string("maxage"), std::string("max-age2"),
                                              std::string("no_cache"), std::string("Other"), std::string("pre-check"), std::string("max-age "), std::string("pub lic"));
                const int a = *vp::range<int>(0, 5);
                if (a == 1) m += "=" + *numArg();
                else if (a == 2) m += "=" + *listArg();
                else if (a == 3) m += "=tok";
                v += m;
                continue;
            }
            int d = narrow ? (paletteBase + *vp::range<int>(0, 2)) % D_N : *vp::range<int>(0, D_N - 1);
            if (*vp::range<int>(0, 2) == 0) d = *gen::element<int>(D_MAX_AGE, D_S_MAXAGE, D_MAX_STALE, D_MIN_FRESH, D_STALE_IF_ERROR, D_PRIVATE, D_NO_CACHE);
            std::string m = *vp::range<int>(0, 3) == 0 ? randomCase(DirName[d], *vp::range<unsigned>(0, 65535)) : std::string(DirName[d]);
            switch (kindOf(d)) {
            case K_FLAG:
                if (*vp::range<int>(0, 11) == 0) m += *gen::element(std::string("=1"), std::string("=\"x\""), std::string("="));
                break;
            case K_LIST:
                if (*vp::range<int>(0, 2) != 0) m += "=" + *listArg();
                break;
            case K_NUM:
                if (*vp::range<int>(0, 14) != 0) m += "=" + *numArg();
                break;
            case K_MAXSTALE:
                if (*vp::range<int>(0, 2) != 0) m += "=" + *numArg();
                break;
            }
            v += m;
        }
        if (*vp::range<int>(0, 29) == 0) v += *gen::element(std::string(","), std::string(" "), std::string(", "));
        c.value = v;
        return c;
    });
}

#ifdef VP_FUZZ
static Case fuzzCase(FuzzedDataProvider &fdp)
{
    Case c;
    c.value = fdp.ConsumeRemainingBytesAsString();
    const size_t z = c.value.find('\0');
    if (z != std::string::npos) c.value.resize(z);
    return c;
}
#else
static std::function<Case(FuzzedDataProvider &)> fuzzCase = nullptr;
#endif

static void registerAll()
{
    vp::add<Case>("cache_control", gen(), check, show, parse, 1.0, fuzzCase);
}

VP_MAIN(registerAll)
