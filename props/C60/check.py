"""C60 ICAP adaptation delivers exactly the virgin or the adapted message.

One proxy with 40 ICAP services (REQMOD/RESPMOD x bypass on/off x Preview none/0/16/1024/4096 x Allow-204 on/off) that all
point at the harness ICAP stub; a path segment of the URL selects the service.  Virgin and adapted messages carry different
marker headers and keyed_stream bodies of different tags, so any splice is visible.  The message is observed where it is
delivered: at the client (RESPMOD, REQMOD request satisfaction) or at the origin stub (REQMOD).
"""
import base64
import os
import time

from hypothesis import strategies as st

from vlib.e2e import client, httpref, icapstub, origin as originmod
from vlib.e2e.env import ProxyEnv
from vlib.e2e_runner import Result

PREVIEWS = [None, 0, 16, 1024, 4096]
SERVICES = []          # (vector, bypass, preview, allow204)
for vec in ("reqmod", "respmod"):
    for bypass in (0, 1):
        for pv in PREVIEWS:
            for a204 in (0, 1):
                SERVICES.append((vec, bypass, pv, a204))
SIZES = [0, 1, 15, 16, 17, 100, 1023, 1024, 1025, 4095, 4096, 4097, 8192, 16384, 32768, 65535, 65536, 65537, 100000, 131072, 200000, 300000]
# bodies the proxy keeps whole while the ICAP transaction runs (documented: "Not all ICAP errors can be bypassed"): the
# bypass clause is asserted for virgin bodies up to this size, larger ones are labelled and only the no-mixture rule applies
BYPASS_ASSERT_MAX = 16384


def svc_name(i):
    vec, bypass, pv, a204 = SERVICES[i]
    return "%s%d" % ("Q" if vec == "reqmod" else "P", i)


def svc_path(i):
    vec, bypass, pv, a204 = SERVICES[i]
    return "/%s-b%d-p%s-a%d" % (vec, bypass, "x" if pv is None else pv, a204)


def strategy(tp):
    maxb = int(tp.get("max_body", 300000))
    size = st.one_of(st.sampled_from([s for s in SIZES if s <= maxb]), st.integers(0, min(maxb, 70000)))
    fault = st.one_of(
        st.none(), st.none(),
        st.fixed_dictionaries({"kind": st.just("abort"), "where": st.sampled_from(["icap-head", "http-head", "body", "body", "last-chunk"]),
                               "frac": st.integers(0, 999), "rst": st.booleans()}),
        st.fixed_dictionaries({"kind": st.just("status"), "code": st.sampled_from([400, 403, 404, 405, 408, 418, 500, 501, 502, 503, 505, 100, 199, 201, 206, 299, 999])}),
        st.fixed_dictionaries({"kind": st.just("close")}),
        st.fixed_dictionaries({"kind": st.just("garbage"), "what": st.sampled_from(["text", "http", "binary", "icap-bad-status-line", "icap-truncated-head", "empty-line"])}),
    )
    return st.fixed_dictionaries({
        "svc": st.integers(0, len(SERVICES) - 1),
        "vlen": size,
        "vframing": st.sampled_from(["length", "length", "chunked"]),
        "mode": st.sampled_from(["200", "200", "204", "204"]),
        "alen": st.one_of(st.none(), size),
        "a_cl": st.booleans(),
        "achunks": st.lists(st.one_of(st.integers(1, 64), st.integers(100, 20000)), min_size=0, max_size=4),
        "in_preview": st.booleans(),
        "early": st.booleans(),
        "satisfy": st.sampled_from([False, False, False, True]),
        # a 204 where RFC 3507 forbids it (no Allow: 204 from the client, not inside a preview): rare on purpose
        "illegal204": st.sampled_from([False] * 9 + [True]),
        "fault": fault,
        "segments": st.lists(st.one_of(st.integers(1, 80), st.integers(100, 5000)), min_size=0, max_size=5),
        "pauses": st.lists(st.sampled_from([0, 0, 1, 5]), min_size=0, max_size=5),
        "client_version": st.sampled_from(["HTTP/1.1", "HTTP/1.1", "HTTP/1.0"]),
        # REQMOD only: a large request body towards an origin that reads slowly through a tiny receive window, so the proxy's
        # pipes between the ICAP transaction and the server side fill up (a consumer that accepts less than it is offered)
        "pushback": st.sampled_from([None, None, None, None, 400000, 1000000, 2500000]),
    })


def setup(ctx):
    stub = icapstub.IcapServer()
    lines = ["icap_enable on", "icap_preview_enable on", "icap_service_failure_limit -1", "icap_io_timeout 8 seconds", "icap_connect_timeout 5 seconds",
             "icap_persistent_connections on", "cache deny all", "read_timeout 20 seconds", "request_timeout 20 seconds"]
    if ctx.worker % 2 == 1:
        lines += ["icap_retry allow all", "icap_retry_limit 2"]
    for i, (vec, bypass, pv, a204) in enumerate(SERVICES):
        stub.options[svc_path(i)] = {"methods": "REQMOD" if vec == "reqmod" else "RESPMOD", "preview": pv, "allow204": bool(a204),
                                     "transfer_preview": "*" if pv is not None else None}
        lines.append("icap_service %s %s_precache icap://127.0.0.1:%d%s bypass=%s" % (svc_name(i), vec, stub.port, svc_path(i), "on" if bypass else "off"))
        lines.append("acl a_%s urlpath_regex /%s/" % (svc_name(i), svc_name(i)))
    for i in range(len(SERVICES)):
        lines.append("adaptation_access %s allow a_%s" % (svc_name(i), svc_name(i)))
    env = ProxyEnv(ctx, conf="\n".join(lines) + "\n", cache_mem="0 MB")
    env.icap = stub
    env.slow_origin = originmod.Origin(env.clock, rcvbuf=4096)
    return env


def teardown(env):
    try:
        env.icap.stop()
        env.slow_origin.stop()
    finally:
        env.close()


GARBAGE = {
    "text": b"hello this is not ICAP at all\r\n\r\n",
    "http": b"HTTP/1.1 200 OK\r\nContent-Length: 5\r\n\r\nhello",
    "binary": bytes(range(256)) * 3,
    "icap-bad-status-line": b"ICAP/9.9 abc def\r\n\r\n",
    "icap-truncated-head": b"ICAP/1.0 200 OK\r\nISTag: \"x\"\r\nEncapsul",
    "empty-line": b"\r\n\r\n",
}


def header(m, name):
    v = m.get(name)
    return v.decode("latin-1") if v is not None else None


def judge(r, what, m_headers_get, body, complete, framing, V, A, ns, sc, where):
    """Apply the no-mixture rule to one delivered message. -> 'virgin' | 'adapted' | None"""
    mv = m_headers_get("X-C60-V")
    ma = m_headers_get("X-C60-A")
    if mv is not None and ma is not None:
        r.fail("mixed:virgin-and-adapted-header-fields", "%s carries both marker fields (%s)" % (what, where))
        return None
    if mv is None and ma is None:
        return None
    kind, ref = ("virgin", V) if mv is not None else ("adapted", A)
    other = A if kind == "virgin" else V
    if (mv or ma) != ns:
        r.fail("message-of-another-transaction-delivered", "%s marker %r, expected %r" % (what, mv or ma, ns))
        return None
    if body != ref[:len(body)]:
        # which stream do the bytes after the common prefix belong to?
        k = 0
        n = min(len(body), len(ref))
        while k < n and body[k] == ref[k]:
            k += 1
        rest = body[k:k + 64]
        splice = "bytes of the %s body" % ("adapted" if kind == "virgin" else "virgin") if other.find(rest[:32]) >= 0 and len(rest) >= 16 else "foreign bytes"
        r.fail("mixed:%s-head-with-altered-body" % kind, "%s: %s head, body diverges from the %s body at offset %d (%s; got %d bytes, reference %d) (%s)" % (
            what, kind, kind, k, splice, len(body), len(ref), where))
        return None
    if complete and framing != "close" and len(body) != len(ref):
        r.fail("short-%s-body-presented-as-complete" % kind, "%s: complete by its framing (%s) with %d of %d body bytes (%s)" % (what, framing, len(body), len(ref), where))
        return None
    return kind


def execute(env, sc):
    r = Result()
    ns = env.ns()
    vec, bypass, pv, a204 = SERVICES[sc["svc"]]
    name = svc_name(sc["svc"])
    path = "/%s/%s" % (name, ns)
    pushback = sc.get("pushback") if vec == "reqmod" and not sc["fault"] else None
    origin = env.slow_origin if pushback else env.origin
    V = httpref.keyed_stream("V" + ns, pushback or sc["vlen"])
    null_body = sc["alen"] is None
    A = b"" if null_body else httpref.keyed_stream("A" + ns, sc["alen"])
    satisfy = vec == "reqmod" and sc["satisfy"] and sc["mode"] == "200"
    fault = sc["fault"]

    # ---- ICAP behaviour
    def behaviour(txn):
        b = {"mode": sc["mode"], "in_preview": sc["in_preview"], "early": sc["early"], "segments": sc["segments"], "pause_ms": sc["pauses"],
             "chunks": sc["achunks"], "strict204": not sc.get("illegal204")}
        if sc["mode"] == "200":
            cl = "Content-Length: %d\r\n" % len(A) if (sc["a_cl"] or null_body) else ""
            if vec == "respmod" or satisfy:
                b["http_head"] = "HTTP/1.1 200 OK\r\nX-C60-A: %s\r\nContent-Type: application/octet-stream\r\nCache-Control: no-store\r\n%s\r\n" % (ns, cl)
                b["satisfy"] = satisfy
            else:
                first = txn.req_hdr.split(b"\r\n", 1)[0].decode("latin-1")
                hostport = "127.0.0.1:%d" % origin.port
                if not cl:
                    cl = "Transfer-Encoding: chunked\r\n"
                b["http_head"] = "%s\r\nHost: %s\r\nX-C60-A: %s\r\n%s\r\n" % (first, hostport, ns, cl)
            b["http_body"] = None if null_body else A
        if fault:
            if fault["kind"] == "status":
                b["mode"], b["status"] = "error", fault["code"]
            elif fault["kind"] == "close":
                b["mode"] = "close"
            elif fault["kind"] == "garbage":
                b["mode"], b["garbage_b64"] = "garbage", base64.b64encode(GARBAGE[fault["what"]]).decode()
            elif fault["kind"] == "abort":
                b["abort_region"] = [fault["where"], fault["frac"]]
                b["abort_rst"] = fault["rst"]
        return b

    env.icap.script(ns, behaviour)
    # ---- origin
    vhead = [["X-C60-V", ns], ["Cache-Control", "no-store"], ["Content-Type", "application/octet-stream"]]
    if vec == "respmod":
        beh = {"status": 200, "headers": vhead, "body_b64": base64.b64encode(V).decode(), "framing": sc["vframing"], "chunks": [7000]}
    else:
        beh = {"status": 200, "headers": [["X-C60-Origin", ns], ["Cache-Control", "no-store"]], "body_b64": base64.b64encode(b"origin-ok").decode()}
    if pushback:
        beh["slow_read"] = {"bytes": 16384, "pause_ms": 4, "initial_stall_ms": 400}
        r.label("pushback")
    origin.script(path, beh)
    # ---- client
    url = "http://127.0.0.1:%d%s" % (origin.port, path)
    if vec == "respmod":
        lines = ["GET %s %s" % (url, sc["client_version"]), "Host: 127.0.0.1:%d" % origin.port, "Connection: close"]
        data = ("\r\n".join(lines) + "\r\n\r\n").encode()
        method = b"GET"
    else:
        lines = ["POST %s HTTP/1.1" % url, "Host: 127.0.0.1:%d" % origin.port, "X-C60-V: " + ns, "Content-Type: application/octet-stream", "Connection: close"]
        if sc["vframing"] == "chunked":
            lines.append("Transfer-Encoding: chunked")
            payload = icapstub.chunked(V, [9000])
        else:
            lines.append("Content-Length: %d" % len(V))
            payload = V
        data = ("\r\n".join(lines) + "\r\n\r\n").encode() + payload
        method = b"POST"
    try:
        c = client.Conn(env.port, timeout=40)
    except OSError:
        env.icap.forget(ns)
        if env.health(r):
            r.inconclusive = "could not connect to the proxy"
        return r
    try:
        c.send(data)
        m = c.read_response(method, timeout=40)
    finally:
        c.close()
    # let the stubs finish their bookkeeping
    deadline = time.time() + 3
    while time.time() < deadline:
        txns = env.icap.transactions_for(ns)
        if txns and all(t.done for t in txns):
            break
        time.sleep(0.01)
    txns = env.icap.transactions_for(ns)
    r.label("vector:" + vec)
    r.label("icap-transactions-%d" % min(len(txns), 3))
    where = "service %s bypass=%d preview=%s allow204=%d mode=%s fault=%s vlen=%d alen=%s txns=%s" % (name, bypass, pv, a204, sc["mode"], fault, len(V), sc["alen"], txns[:3])
    if m is None or getattr(m, "timed_out", False):
        r.inconclusive = "client timed out"
        env.icap.forget(ns)
        env.health(r)
        return r
    if getattr(m, "bad", False) or m.status is None:
        r.label("client-got-no-parsable-response")
        outcome = "error"
    else:
        outcome = None
        is_squid_error = m.has("X-Squid-Error")
        if vec == "respmod" or satisfy or header(m, "X-C60-A") is not None or header(m, "X-C60-V") is not None:
            if is_squid_error and header(m, "X-C60-A") is None and header(m, "X-C60-V") is None:
                outcome = "error"
            else:
                k = judge(r, "response at the client", lambda n: header(m, n), m.body or b"", m.complete, m.framing, V, A, ns, sc, where)
                if k:
                    outcome = k + ("" if m.complete else "-truncated")
                elif not r.violations:
                    if vec == "respmod":
                        r.fail("neither-virgin-nor-adapted-nor-error", "client got status %s without marker fields and without X-Squid-Error (%s)" % (m.status, where))
                    else:
                        outcome = "error" if is_squid_error else "origin-reply"
        else:
            outcome = "error" if is_squid_error else "origin-reply"
    if vec == "reqmod":
        time.sleep(0.02)
        arrs = origin.arrivals_for(path)
        r.label("origin-arrivals-%d" % min(len(arrs), 3))
        kinds = []
        for a in arrs:
            deadline = time.time() + 2
            while not a.body_done and time.time() < deadline:
                time.sleep(0.01)
            k = judge(r, "request at the origin", lambda n, a=a: header(a.msg, n), bytes(a.msg.body or b""), a.msg.complete, a.msg.framing, V, A, ns, sc, where)
            if k:
                kinds.append(k + ("" if a.msg.complete else "-truncated"))
            elif not r.violations:
                r.fail("neither-virgin-nor-adapted-nor-error", "origin got a request without marker fields (%s)" % where)
        if satisfy and arrs and not fault and any(t.reply_sent == t.reply_len and t.reply_len for t in txns):
            r.label("satisfied-request-also-forwarded")
        if kinds:
            outcome = kinds[-1]
        elif outcome in (None, "origin-reply"):
            outcome = outcome or "error"
    if outcome:
        r.label("outcome:" + outcome)
    # ---- bypass clause
    saw = [t for t in txns if t.method in ("REQMOD", "RESPMOD")]
    failure_before_adapted = bool(fault) and saw and not any(t.adapted_bytes_sent for t in saw)
    if fault and fault["kind"] == "status" and fault["code"] in (100, 199, 201, 206, 299):
        failure_before_adapted = False      # odd 1xx/2xx codes: not clearly a failure, accepted either way
    if bypass and failure_before_adapted and not r.violations:
        if len(V) <= BYPASS_ASSERT_MAX:
            r.label("bypass-clause-asserted")
            if outcome != "virgin":
                # stable classes of the failing input (they key known_findings.json); everything else is reported as it is
                if any(t.continued for t in saw):
                    fclass = "failure-after-100-continue"
                elif fault["kind"] == "status" and any(t.preview is not None or t.allow204 for t in saw):
                    fclass = "unsupported-status-while-virgin-backup-was-planned"
                elif fault["kind"] == "abort" and fault.get("rst"):
                    fclass = "connection-reset-by-icap-server"
                else:
                    fclass = "other:" + fault["kind"]
                r.fail("bypass-on-but-virgin-not-delivered:" + fclass, "ICAP failure before any adapted byte, bypass=on, virgin body %d bytes, outcome %s (%s)" % (len(V), outcome, where))
            else:
                r.label("bypass-ok:" + fault["kind"] + ("-rst" if fault.get("rst") else ""))
        else:
            r.label("bypass-clause-large-body:" + str(outcome))
    if saw:
        body_beyond_preview = len(V) > (pv or 0)
        if body_beyond_preview and (fault or sc["mode"] == "200" or (pv is not None and sc["mode"] == "204")):
            r.nontrivial = True
        if fault and any(t.continued or t.preview is None for t in saw) and body_beyond_preview:
            r.label("fault-after-preview")
        if any(t.preview is not None and not t.ieof for t in saw):
            r.label("preview-shorter-than-body")
        if any(t.preview is not None and not t.ieof and not t.continued for t in saw) and sc["mode"] == "204" and not fault:
            r.label("204-inside-preview")
        if any(t.continued for t in saw):
            r.label("100-continue")
    else:
        r.label("icap-not-consulted")
    if fault:
        r.label("fault:" + fault["kind"])
    env.icap.forget(ns)
    env.health(r)
    return r
