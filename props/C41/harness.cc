// C41 Domain-name ACLs match exactly the configured domain sets.
// Domain : "acl NAME dstdomain|srcdomain v..." lines (values ".dom" and "host", any order, duplicates, overlaps,
//          mixed case, several lines per name) fed through ConfigParser::SetCfgLine + Acl::Node::ParseNamedAcl
//          into the real ACLDomainData (splay tree + Acl::SplayInserter<char*> + matchDomainName).
// Oracle : host matches <=> some value v: (v = "." + d and (host == d or host ends with v)) or host == v,
//          case-insensitively (written from the statement); a permuted twin ACL answers identically.
#include "squid.h"
#include "acl/Acl.h"
#include "acl/DomainData.h"
#include "acl/Node.h"
#include "acl/ParameterizedNode.h"
#include "anyp/PortCfg.h"
#include "ConfigParser.h"
#include "debug/Stream.h"
#include "SquidConfig.h"

#include "verif_pbt.h"
#include "../C43/acl_memstub.h"

#include <cctype>

/* globals required to resolve link issues (as in tests/testACLMaxUserIP.cc) */
AnyP::PortCfgPointer HttpPortList;

// a smaller quarantine than ASan's 256 MB default keeps the working set (and page-fault cost) small
extern "C" const char *__asan_default_options() { return "quarantine_size_mb=16:malloc_context_size=2"; }

namespace {

/// The dstdomain/srcdomain ACL node as AclRegs.cc builds it (ParameterizedNode over ACLDomainData), minus the
/// HttpRequest/DNS-dependent host extraction: probe() hands the host name to the parameters object directly.
class DomNode: public Acl::ParameterizedNode< ACLData<char const *> >
{
    MEMPROXY_CLASS(DomNode);
public:
    explicit DomNode(const char *t): type_(t) { data.reset(new ACLDomainData); }
    char const *typeString() const override { return type_; }
    bool probe(const std::string &host) { return data->match(host.c_str()); }
private:
    int match(ACLChecklist *) override { return 0; }
    const char *type_;
};

int aclCounter = 0;

void feedLine(const std::string &text)
{
    std::vector<char> line(text.begin(), text.end());
    line.push_back('\0');
    ConfigParser::SetCfgLine(line.data());
    ConfigParser parser;
    Acl::Node::ParseNamedAcl(parser, Config.namedAcls);
    ConfigParser::SetCfgLine(nullptr);
}

/// feeds `acl <name> <type> values...` lines exactly as the configuration parser does; cuts[i] = number of
/// values on line i (the rest goes on a final line)
DomNode *build(const std::string &name, const char *type, const std::vector<std::string> &items, const std::vector<int> &cuts)
{
    size_t pos = 0, lineNo = 0;
    bool first = true;
    while (first || pos < items.size()) {
        size_t n = items.size() - pos;
        if (lineNo < cuts.size() && cuts[lineNo] >= 0 && static_cast<size_t>(cuts[lineNo]) < n) n = cuts[lineNo];
        if (!first && n == 0) n = 1;
        std::string text = name + " " + type;
        for (size_t i = 0; i < n; ++i) text += (i % 2 ? "\t" : " ") + items[pos + i];
        feedLine(text);
        pos += n;
        ++lineNo;
        first = false;
    }
    return dynamic_cast<DomNode *>(Acl::Node::FindByName(SBuf(name)));
}

void resetAcls()
{
    // squid.conf default "configuration_includes_quoted_values off" (what default_all() sets before parsing)
    ConfigParser::RecognizeQuotedValues = false;
    ConfigParser::StrictMode = false;
    if (Config.namedAcls) Acl::FreeNamedAcls(&Config.namedAcls);
}

std::string lower(std::string s)
{
    for (auto &ch : s) ch = static_cast<char>(tolower(static_cast<unsigned char>(ch)));
    return s;
}

// ---- reference model (from the statement)

/// both arguments already lower-cased
bool valueMatchesLc(const std::string &v, const std::string &h)
{
    if (!v.empty() && v[0] == '.') {
        if (h == v.substr(1)) return true;                                            // the domain itself
        return h.size() > v.size() && h.compare(h.size() - v.size(), v.size(), v) == 0; // a subdomain
    }
    return h == v;
}

bool valueMatches(const std::string &valueRaw, const std::string &hostRaw)
{
    return valueMatchesLc(lower(valueRaw), lower(hostRaw));
}

std::vector<std::string> lowerAll(const std::vector<std::string> &in)
{
    std::vector<std::string> out;
    for (const auto &s : in) out.push_back(lower(s));
    return out;
}

/// want[p] for every probe
std::vector<char> modelAll(const std::vector<std::string> &values, const std::vector<std::string> &probes)
{
    const auto lv = lowerAll(values), lp = lowerAll(probes);
    std::vector<char> want(lp.size(), 0);
    for (size_t p = 0; p < lp.size(); ++p)
        for (const auto &v : lv) if (valueMatchesLc(v, lp[p])) { want[p] = 1; break; }
    return want;
}

/// the generator's promise: `.`? label (`.` label)*, labels over [A-Za-z0-9_-], not starting with '-'
/// (a leading '-' token is an ACL option in squid.conf)
bool wellFormed(const std::string &s, const bool value)
{
    size_t i = 0;
    if (value && !s.empty() && s[0] == '.') i = 1;
    if (i >= s.size() || s[i] == '-') return false;
    bool labelStart = true;
    for (; i < s.size(); ++i) {
        const unsigned char ch = s[i];
        if (ch == '.') { if (labelStart) return false; labelStart = true; continue; }
        if (!(isalnum(ch) || ch == '-' || ch == '_')) return false;
        labelStart = false;
    }
    return !labelStart;
}

/// whether the list has a dotted value that covers or collides with another value (non-triviality rule)
bool dottedCollision(const std::vector<std::string> &values)
{
    for (size_t i = 0; i < values.size(); ++i) {
        if (values[i].empty() || values[i][0] != '.') continue;
        for (size_t j = 0; j < values.size(); ++j) {
            if (i == j) continue;
            const std::string other = values[j][0] == '.' ? values[j].substr(1) : values[j];
            if (valueMatches(values[i], other)) return true;
            // textual near-collision: x-y.z against .y.z (the splay's special '.' ordering)
            const std::string v = lower(values[i]).substr(1), o = lower(other);
            if (o.size() > v.size() + 1 && o.compare(o.size() - v.size(), v.size(), v) == 0 && o[o.size() - v.size() - 1] != '.') return true;
        }
    }
    return false;
}

vp::Verdict judge(DomNode *a, DomNode *b, const std::vector<char> &wants, const std::vector<std::string> &probes,
                  int &hits, int &misses)
{
    for (size_t i = 0; i < probes.size(); ++i) {
        const auto &p = probes[i];
        const bool want = wants[i];
        const bool got = a->probe(p);
        want ? ++hits : ++misses;
        if (got != want)
            return vp::fail(want ? "domain:listed-name-not-matched" : "domain:unlisted-name-matched", "probe " + p);
        if (b && b->probe(p) != got)
            return vp::fail("domain:order-dependent-answer", "probe " + p);
    }
    return vp::pass();
}

// ------------------------------------------------------------------ random lists

struct RCase {
    std::vector<std::string> values;
    std::vector<int> cuts, perm, cuts2;
    std::vector<std::string> probes;
    int type = 0;
};

std::string showR(const RCase &c)
{
    vp::Writer w;
    w.i("type", c.type);
    for (const auto &v : c.values) w.s("value", v);
    for (int x : c.cuts) w.i("cut", x);
    for (int x : c.perm) w.i("perm", x);
    for (int x : c.cuts2) w.i("cut2", x);
    for (const auto &p : c.probes) w.s("probe", p);
    return w.str();
}

RCase parseR(const std::string &t)
{
    vp::Reader r(t);
    RCase c;
    c.type = static_cast<int>(r.i("type"));
    for (size_t i = 0; i < r.count("value"); ++i) c.values.push_back(r.s("value", i));
    for (size_t i = 0; i < r.count("cut"); ++i) c.cuts.push_back(static_cast<int>(r.i("cut", i)));
    for (size_t i = 0; i < r.count("perm"); ++i) c.perm.push_back(static_cast<int>(r.i("perm", i)));
    for (size_t i = 0; i < r.count("cut2"); ++i) c.cuts2.push_back(static_cast<int>(r.i("cut2", i)));
    for (size_t i = 0; i < r.count("probe"); ++i) c.probes.push_back(r.s("probe", i));
    return c;
}

std::string randomCase(const std::string &s, int mode, unsigned bits)
{
    if (mode == 0) return s;
    std::string o = s;
    for (size_t i = 0; i < o.size(); ++i) {
        const bool up = mode == 1 ? true : ((bits >> (i % 31)) & 1);
        if (up) o[i] = static_cast<char>(toupper(static_cast<unsigned char>(o[i])));
    }
    return o;
}

rc::Gen<RCase> genR()
{
    using namespace rc;
    return gen::exec([]() {
        RCase c;
        c.type = *vp::range<int>(0, 1);
        // a small vocabulary so that names share suffixes and collide
        static const std::vector<std::string> labels = {"a", "b", "x", "y", "z", "ab", "xa", "a-b", "x-y", "a_b", "_x", "x_", "0", "a0", "0a", "a-", "com", "co", "om", "foo", "oo", "xfoo", "x-foo", "foo-x"};
        static const std::vector<std::string> joiners = {".", ".", ".", "-", "_", "", "0"};
        auto label = [&]() { return *gen::elementOf(labels); };
        std::vector<std::string> names; // dot-free-prefixed names built so far (without leading dot)
        const int nBases = *vp::range<int>(1, 2);
        for (int i = 0; i < nBases; ++i) {
            std::string b = label();
            if (b[0] == '-') b = "a" + b;
            if (*vp::range<int>(0, 2) != 0) b += "." + label();
            names.push_back(b);
        }
        const int n = *gen::weightedElement<int>({{1, 1}, {2, 2}, {3, 3}, {3, 4}, {3, 6}, {2, 9}, {1, 14}, {1, 20}});
        for (int i = 0; i < n; ++i) {
            const int how = *vp::range<int>(0, 9);
            std::string name;
            const std::string &base = names[*vp::range<int>(0, static_cast<int>(names.size()) - 1)];
            if (how <= 1) name = base;                                      // duplicate / dotted twin
            else if (how <= 6) name = label() + *gen::elementOf(joiners) + base; // subdomain or look-alike ("x-" + base ...)
            else if (how == 7) {                                            // drop the first label
                const auto d = base.find('.');
                name = d == std::string::npos ? base : base.substr(d + 1);
            } else if (how == 8) name = base + *gen::elementOf(joiners) + label(); // different suffix sharing a prefix
            else name = label();
            if (name.empty() || name[0] == '-') name = "a" + name;
            names.push_back(name);
            const bool dotted = *vp::range<int>(0, 9) < 5;
            const int cm = *gen::weightedElement<int>({{6, 0}, {1, 1}, {2, 2}});
            c.values.push_back((dotted ? "." : "") + randomCase(name, cm, *gen::arbitrary<unsigned>()));
        }
        auto cutsGen = [&](std::vector<int> &cuts) {
            const int lines = *gen::weightedElement<int>({{3, 1}, {2, 2}, {1, 3}});
            for (int i = 1; i < lines; ++i) cuts.push_back(*vp::range<int>(0, n));
        };
        cutsGen(c.cuts);
        cutsGen(c.cuts2);
        for (int i = 0; i < n; ++i) c.perm.push_back(i);
        for (int i = n - 1; i > 0; --i) std::swap(c.perm[i], c.perm[*vp::range<int>(0, i)]);
        // probes: every name seen, plus neighbours (label added / removed, look-alike joiners, case flipped)
        std::set<std::string> pr;
        for (const auto &nm : names) {
            pr.insert(nm);
            const auto d = nm.find('.');
            if (d != std::string::npos && d + 1 < nm.size() && nm[d + 1] != '-') pr.insert(nm.substr(d + 1));
        }
        const int extra = *vp::range<int>(2, 8);
        for (int i = 0; i < extra; ++i) {
            const std::string &base = names[*vp::range<int>(0, static_cast<int>(names.size()) - 1)];
            std::string p = label() + *gen::elementOf(joiners) + base;
            if (p[0] == '-') p = "a" + p;
            const int cm = *gen::weightedElement<int>({{4, 0}, {1, 1}, {1, 2}});
            pr.insert(randomCase(p, cm, *gen::arbitrary<unsigned>()));
        }
        c.probes.assign(pr.begin(), pr.end());
        return c;
    });
}

vp::Verdict checkR(const RCase &c, vp::Ctx &ctx)
{
    resetAcls();
    if (c.values.empty() || c.perm.size() != c.values.size()) { ctx.excluded("malformed case"); return vp::pass(); }
    for (const auto &v : c.values) if (!wellFormed(v, true)) { ctx.excluded("value outside the generated syntax"); return vp::pass(); }
    std::vector<std::string> probes;
    for (const auto &p : c.probes) if (wellFormed(p, false)) probes.push_back(p);
    std::vector<std::string> permuted;
    for (int i : c.perm) {
        if (i < 0 || static_cast<size_t>(i) >= c.values.size()) { ctx.excluded("malformed case"); return vp::pass(); }
        permuted.push_back(c.values[i]);
    }
    const char *type = c.type ? "srcdomain" : "dstdomain";
    const std::string n1 = "vpA" + std::to_string(++aclCounter), n2 = "vpB" + std::to_string(aclCounter);
    DomNode *a = build(n1, type, c.values, c.cuts);
    DomNode *b = build(n2, type, permuted, c.cuts2);
    if (!a || !b) { resetAcls(); return vp::fail("domain:acl-not-created"); }
    if (dottedCollision(c.values)) { ctx.nontrivial(); ctx.label("dotted-value-covers-or-collides"); }
    if (!c.cuts.empty()) ctx.label("multi-line");
    bool mixed = false;
    for (const auto &v : c.values) if (v != lower(v)) mixed = true;
    if (mixed) ctx.label("upper-case-in-values");
    int hits = 0, misses = 0;
    const vp::Verdict v = judge(a, b, modelAll(c.values, probes), probes, hits, misses);
    if (hits && misses) ctx.label("probes-both-ways");
    resetAcls();
    return v;
}

// ------------------------------------------------------------------ exhaustive small scope

constexpr int UN = 14; // values per universe
const char *const Universes[][UN] = {
    // suffix sharing, dotted/undotted twins, and '-' (the only alphabet character below '.') next to a label boundary
    {"y.z", ".y.z", "x.y.z", ".x.y.z", "a.x.y.z", "x-y.z", ".x-y.z", "a-x.y.z", "xy.z", "z", ".z", "b.z", "y-z", ".a.x.y.z"},
    // case, digits and '_' (above '.'), shorter/longer suffixes of the same text
    {"Foo.Com", ".foo.com", "FOO.COM", "x.foo.com", "x_foo.com", "x0foo.com", "x-foo.com", "_foo.com", ".X.foo.com", "foo.co", ".oo.com", "oo.com", "o.com", ".com"},
    // single labels and deep chains
    {"a", ".a", "b.a", ".b.a", "c.b.a", ".c.b.a", "d.c.b.a", "a.a", ".a.a", "a.a.a", "b-a", ".b-a", "b.a-a", "ba"},
};
constexpr int NU = sizeof(Universes) / sizeof(Universes[0]);
constexpr long ChunksPerU = static_cast<long>(UN) * UN * UN;
constexpr long Chunks = ChunksPerU * NU;

/// One case = universe u and the first three values (i, j, k): the check enumerates the lists (i), (i j), (i j k),
/// (i j k l) and (i j k l m) for all l, m, i.e. every list of <= 5 values (repetitions allowed) in every order
/// (VP_C41_DEPTH=4, used by the quick tier, stops at four values).
struct ECase { int u = 0, i = 0, j = 0, k = 0; };

std::string showE(const ECase &c) { return vp::Writer().i("u", c.u).i("i", c.i).i("j", c.j).i("k", c.k).str(); }
ECase parseE(const std::string &t)
{
    vp::Reader r(t);
    ECase c;
    c.u = static_cast<int>(r.i("u")); c.i = static_cast<int>(r.i("i")); c.j = static_cast<int>(r.i("j")); c.k = static_cast<int>(r.i("k"));
    return c;
}

int envInt(const char *name, int dflt)
{
    const char *v = getenv(name);
    return (v && *v) ? atoi(v) : dflt;
}

long myChunks()
{
    const long shards = std::max(1, envInt("VP_SHARDS", 1)), shard = envInt("VP_SHARD", 0) % shards;
    return (Chunks - shard + shards - 1) / shards;
}

rc::Gen<ECase> genE()
{
    using namespace rc;
    return gen::exec([]() {
        // deterministic enumeration (no randomness): shard s of n takes chunks s, s+n, s+2n, ... cyclically;
        // consecutive chunk numbers alternate between the universes so that a cut-short run samples all of them
        static const long shards = std::max(1, envInt("VP_SHARDS", 1)), shard = envInt("VP_SHARD", 0) % shards;
        static long n = 0;
        const long q = (shard + (n++ % myChunks()) * shards) % Chunks;
        ECase c;
        c.u = static_cast<int>(q % NU);
        long r = q / NU;
        c.k = static_cast<int>(r % UN); r /= UN;
        c.j = static_cast<int>(r % UN); r /= UN;
        c.i = static_cast<int>(r % UN);
        return c;
    });
}

const std::vector<std::string> &universeProbes(const int u)
{
    static std::vector<std::string> cache[NU];
    if (!cache[u].empty()) return cache[u];
    std::set<std::string> pr;
    for (int i = 0; i < UN; ++i) {
        std::string nm = Universes[u][i];
        if (nm[0] == '.') nm = nm.substr(1);
        pr.insert(lower(nm));
        pr.insert("q." + lower(nm));
        pr.insert("q-" + lower(nm));
        pr.insert("q" + lower(nm));
        std::string up = nm;
        for (auto &ch : up) ch = static_cast<char>(toupper(static_cast<unsigned char>(ch)));
        pr.insert(up);
        const auto d = nm.find('.');
        if (d != std::string::npos) pr.insert(lower(nm.substr(d + 1)));
    }
    cache[u].assign(pr.begin(), pr.end());
    return cache[u];
}

vp::Verdict checkE(const ECase &c, vp::Ctx &ctx)
{
    static std::set<long> seen;
    resetAcls();
    if (c.u < 0 || c.u >= NU || c.i < 0 || c.i >= UN || c.j < 0 || c.j >= UN || c.k < 0 || c.k >= UN) { ctx.excluded("malformed case"); return vp::pass(); }
    if (!seen.insert(((c.u * 100L + c.i) * 100 + c.j) * 100 + c.k).second) {
        // the cyclic enumeration came round again: nothing new to learn in this process
        ctx.excluded("chunk already enumerated by this process");
        return vp::pass();
    }
    if (seen.size() == static_cast<size_t>(myChunks())) ctx.label("shard-enumeration-complete");
    ctx.nontrivial();
    ctx.label(std::string("universe-") + std::to_string(c.u));
    const auto &U = Universes[c.u];
    const auto &probes = universeProbes(c.u);
    static std::vector< std::vector<char> > matrix[NU]; // matrix[u][value][probe] = the model's verdict for a single value
    if (matrix[c.u].empty()) {
        for (int i = 0; i < UN; ++i) matrix[c.u].push_back(modelAll({U[i]}, probes));
    }
    std::vector<int> idx; // indices of the values in `list`
    std::vector<char> wants(probes.size());
    auto one = [&](const std::vector<std::string> &list, const int layout) -> vp::Verdict {
        for (size_t p = 0; p < probes.size(); ++p) {
            wants[p] = 0;
            for (const int i : idx) if (matrix[c.u][i][p]) { wants[p] = 1; break; }
        }
        std::vector<int> cuts;
        if (list.size() >= 3 && layout % 3 == 1) cuts.push_back(1);
        else if (list.size() >= 3 && layout % 3 == 2) cuts.push_back(2);
        DomNode *a = build("vpE" + std::to_string(++aclCounter), (layout & 1) ? "srcdomain" : "dstdomain", list, cuts);
        if (!a) { resetAcls(); return vp::fail("domain:acl-not-created"); }
        int hits = 0, misses = 0;
        vp::Verdict v = judge(a, nullptr, wants, probes, hits, misses);
        resetAcls();
        if (!v.ok) {
            std::string txt;
            for (const auto &s : list) txt += s + " ";
            v.detail = "list " + txt + v.detail;
        }
        return v;
    };
    static const int depth = envInt("VP_C41_DEPTH", 5); // longest enumerated list (quick tier: 4, thorough: 5)
    ctx.label(depth >= 5 ? "lists-up-to-5" : "lists-up-to-4");
    std::vector<std::string> list = {U[c.i]};
    idx = {c.i};
    vp::Verdict v = one(list, 0);
    if (!v.ok) return v;
    list.push_back(U[c.j]); idx.push_back(c.j);
    v = one(list, 0);
    if (!v.ok) return v;
    list.push_back(U[c.k]); idx.push_back(c.k);
    v = one(list, c.k);
    if (!v.ok) return v;
    for (int l = 0; l < UN; ++l) {
        list.resize(3); idx.resize(3);
        list.push_back(U[l]); idx.push_back(l);
        v = one(list, l);
        if (!v.ok) return v;
        for (int m = 0; m < UN && depth >= 5; ++m) {
            list.resize(4); idx.resize(4);
            list.push_back(U[m]); idx.push_back(m);
            v = one(list, l + m);
            if (!v.ok) return v;
        }
    }
    return vp::pass();
}

} // namespace

static void registerAll()
{
    for (auto &l : Debug::Levels) l = -1; // the stub debug stream would print the "Ignoring ... already covered" warnings to stderr
    Acl::RegisterMaker("dstdomain", [](Acl::TypeName name)->Acl::Node* { return new DomNode(name); });
    Acl::RegisterMaker("srcdomain", [](Acl::TypeName name)->Acl::Node* { return new DomNode(name); });
    vp::add<RCase>("random_domain_lists", genR(), checkR, showR, parseR, 3.0);
    vp::add<ECase>("small_scope_exhaustive", genE(), checkE, showE, parseE, 1.0);
}

VP_MAIN(registerAll)
