"""C16 Disk cache crash consistency (fault enumeration).

Every scenario runs its own proxy instance (cache_mem 0, one cache_dir) under the LD_PRELOAD shim
(engine/preload/shim.c): the shim counts write-like calls (write/pwrite/writev/ftruncate/rename/unlink) on
files below the cache_dir, in squid itself and in its diskd/unlinkd children, and at call number N kills the
whole process group -- before the call, or after writing only the first p bytes of it.  The workload
(stores, overwrites by new versions, purges; optionally a tiny cache that evicts) runs until the proxy dies
(or is SIGKILLed after the workload when N lies beyond it).  The proxy is then started again without the
crash environment.
Oracle: it starts and finishes rebuilding (deadline misses are inconclusive); every only-if-cached 200 is
byte-identical to a version the origin had sent completely for that URL before the crash (504 = miss is fine).
quick tier: generated workloads and crash points; thorough tier: every crash index x {before, partial} x
store for three fixed workloads (finite set, partitioned over the workers).
"""
import os
import re
import struct
import time

from hypothesis import strategies as st

from vlib.e2e import diskstore as ds
from vlib.e2e_runner import Result

STORE_DIRS = dict(ds.STORE_DIRS)
STORE_DIRS["rock-tiny"] = "rock {run}/rock 1 slot-size=4096 max-size=262144"     # ~250 slots: the workload evicts
STORE_DIRS["ufs-tiny"] = "ufs {run}/ufs 1 2 2"

SIZES = st.one_of(st.sampled_from([9000, 100, 4000, 4056, 4200, 8200, 12288, 20000, 40000, 0, 1]), st.integers(0, 9000), st.integers(0, 60000))
PARTIALS = [-1, 39, -1, 1, 8, 40, 41, 71, 100, 512, 2048, 4095]
PERMILLES = [((k * 379) % 1100) + 1 for k in range(1, 111)]       # 380, 759, 38, 417, ...
STARTUP_WRITES = {"rock": 0, "rock-tiny": 0}                       # others: 3 (swap.state header and friends)

# ---- thorough tier: finite set
FIXED = [
    # (op, url, size)
    [("get", 0, 100), ("get", 1, 9000), ("refresh", 0, 5000), ("get", 2, 20000), ("purge", 1, 0), ("refresh", 2, 3000)],
    [("get", 0, 12288), ("refresh", 0, 4200), ("refresh", 0, 300), ("get", 1, 4056), ("purge", 0, 0), ("get", 0, 8200)],
    [("get", 0, 30000), ("get", 1, 30000), ("get", 2, 100), ("refresh", 1, 100), ("refresh", 2, 30000), ("purge", 0, 0), ("get", 3, 5000)],
]
ENUM_STORES = ["rock", "ufs", "aufs", "diskd"]
ENUM_PARTIALS = [-1, 1000]
ENUM_NMAX = 36


_WORKER = [0, 1]      # (index, count) of this harness worker, set by setup() before strategy() is called


def enum_points():
    """The finite set of the thorough tier, in a fixed order."""
    return [{"store": s, "fixed": f, "partial": p, "crash_at": n}
            for s in ENUM_STORES for f in range(len(FIXED)) for p in ENUM_PARTIALS for n in range(1, ENUM_NMAX + 1)]


def strategy(tp):
    if tp.get("enumerate"):
        # Deterministic enumeration: this worker's share of the finite set, one point per example, in order (Hypothesis only
        # supplies the ticks; random sampling of a 1056-point product does not visit every point).  When the share is used
        # up the remaining examples are no-ops.
        mine = [pt for i, pt in enumerate(enum_points()) if i % _WORKER[1] == _WORKER[0]]
        queue = iter(mine)
        return st.integers(0, 2 ** 60).map(lambda _tick: next(queue, {"enum_done": True}))
    op = st.fixed_dictionaries({
        "op": st.sampled_from(["get", "refresh", "get", "refresh", "purge"]),
        "u": st.integers(0, 3),
        "size": SIZES,
    })
    return st.fixed_dictionaries({
        "store": st.sampled_from(["rock", "ufs", "aufs", "diskd", "rock", "ufs", "rock-tiny", "ufs-tiny"]),
        "ops": st.lists(op, min_size=4, max_size=12),
        # crash point as permille of the estimated number of write-like calls of the workload (> 1000: beyond it); a fixed
        # scrambled list, so that also the "simple" values Hypothesis starts with are spread over the workload
        "crash_permille": st.sampled_from(PERMILLES),
        # 1..3: crash at that write of the start-up phase instead (ufs-family stores create swap.state files there)
        "startup_crash": st.sampled_from([0, 0, 0, 0, 0, 0, 0, 1, 2, 3]),
        "partial": st.sampled_from(PARTIALS),
    })


def setup(ctx):
    _WORKER[0], _WORKER[1] = ctx.worker, max(1, int(ctx.params.get("workers", 1)))
    env = ds.DiskEnv(ctx)
    env.calibrated = {}
    return env


def teardown(env):
    env.close()


def _estimate_writes(store, ops):
    """Rough number of write-like calls the workload itself causes (the start-up writes not counted): stores write,
    cache hits do not, a PURGE of a cached object costs the ufs family one swap.state record and rock nothing."""
    n = 0
    cached = set()
    rock = store.startswith("rock")
    for op in ops:
        u = op["u"]
        if op["op"] == "purge":
            if u in cached and not rock:
                n += 1
            cached.discard(u)
        elif op["op"] == "get" and u in cached:
            continue
        else:
            if rock:
                n += (op["size"] + 400) // 4056 + 1
            else:
                n += 3 + op["size"] // 4096 + (1 if u in cached else 0)
            cached.add(u)
    return max(1, n)


def execute(env, sc):
    r = Result()
    t0 = time.time()  # harness trace only
    if sc.get("enum_done"):
        if not getattr(env, "enum_done_seen", False):
            env.enum_done_seen = True
            r.label("enum-share-of-worker-completed")
        r.sub_evaluations = 0
        return r
    store = sc["store"]
    if "fixed" not in sc and env.duplicate_minimal_example():
        r.label("minimal-example-left-to-worker-0")
        r.sub_evaluations = 0
        return r
    if "fixed" in sc:
        ops = [{"op": o, "u": u, "size": n} for (o, u, n) in FIXED[sc["fixed"]]]
        crash_at = sc["crash_at"]
        known = env.calibrated.get((store, sc["fixed"]))
        if known is not None and crash_at > known + 2:
            r.label("enum-point-beyond-workload")
            r.sub_evaluations = 0
            return r
    else:
        ops = sc["ops"]
        startup = STARTUP_WRITES.get(store, 3)
        if sc.get("startup_crash") and startup:
            crash_at = min(sc["startup_crash"], startup)
        else:
            crash_at = startup + 1 + sc["crash_permille"] * _estimate_writes(store, ops) // 1000
    r.label("store:" + store)
    try:
        sq = env.new_squid(STORE_DIRS[store], started=False)
    except Exception as e:
        r.inconclusive = "instance preparation failed: %s" % str(e)[:60]
        return r
    try:
        return _run(env, sc, sq, r, ops, crash_at)
    finally:
        env.discard(sq)
        ds.trace("C16 %s ops=%d crash_at=%d %.1fs %s %s" % (store, len(ops), crash_at, time.time() - t0, r.inconclusive or "", [v[0] for v in r.violations]))


def _count(cf):
    try:
        with open(cf, "rb") as f:
            return struct.unpack("q", f.read(8))[0]
    except (OSError, struct.error):
        return -1


def _run(env, sc, sq, r, ops, crash_at):
    store = sc["store"]
    partial = sc["partial"]
    cf = os.path.join(sq.run, "wcount")
    with open(cf, "wb") as f:
        f.write(b"\0" * 4096)
    os.chmod(cf, 0o666)
    sq.extra_env = {"VERIF_CRASH_DIR": sq.cache_sub, "VERIF_CRASH_COUNT_FILE": cf, "VERIF_CRASH_AT": str(crash_at)}
    if partial >= 0:
        sq.extra_env["VERIF_CRASH_PARTIAL"] = str(partial)
    early = False
    try:
        sq.start(fresh=False, timeout=90)
    except Exception as e:
        if sq.proc is not None and sq.proc.poll() is not None and _count(cf) >= crash_at:
            early = True        # the crash point lies in the start-up writes (swap.state creation): a legitimate crash point
        else:
            r.inconclusive = "first start failed: %s" % str(e)[:60]
            return r
    port = sq.ports[0]
    content = ds.Content(env, env.ns())
    in_flight_multi = False
    if not early:
        ds.wait_finished_rebuilding(sq, 60)
        for op in ops:
            if not sq.alive():
                break
            u = op["u"]
            path = content.path(u)
            c0 = _count(cf)
            if op["op"] == "purge":
                ds.get(env, port, path, method="PURGE", timeout=5)
            else:
                content.set_next(u, op["size"])
                hdrs = [("Cache-Control", "no-cache")] if op["op"] == "refresh" else []
                ds.get(env, port, path, hdrs, timeout=5)
                # let the swap-out of this object make progress before the next operation (bounded, no verdict depends on it)
                for _ in range(10):
                    if not sq.alive() or ds.store_log_state(sq).get(env.url(path), {}).get("swapouts", 0) >= content.arrivals(u):
                        break
                    time.sleep(0.02)
                if not sq.alive() and op["size"] > 4000 and crash_at >= c0 + 2:
                    in_flight_multi = True
        # wait for the tail of asynchronous writes (bounded)
        last = _count(cf)
        for _ in range(8):
            if not sq.alive():
                break
            time.sleep(0.05)
            now = _count(cf)
            if now == last:
                break
            last = now
    total = _count(cf)
    fired = not sq.alive()
    if "fixed" in sc and not fired:
        env.calibrated[(store, sc["fixed"])] = max(total, env.calibrated.get((store, sc["fixed"]), 0))
    sq.kill()       # SIGKILL of whatever is left of the process group; removes stale shm segments
    if fired:
        r.label("crash-at-write-point")
        r.label("crash-partial-write" if partial >= 0 else "crash-before-write")
        if early:
            r.label("crash-during-startup")
    else:
        r.label("killed-after-workload")
    if fired and not early and not ds.health(sq, r, expect_alive=False, prefix="before-crash:memory-safety:"):
        return r
    # ---- restart without the crash environment
    sq.extra_env = {}
    try:
        sq.start(fresh=False, timeout=90)
    except Exception as e:
        probs = sq.health_problems(expect_alive=False)
        if sq.proc is not None and sq.proc.poll() is not None:
            sig = probs[0][0] if probs else "exit-code-%s" % sq.proc.returncode
            r.fail("restart-after-crash-failed:%s:%s" % (store.split("-")[0], sig), "squid exited while starting on the crashed cache_dir (crash_at=%d partial=%d)\n%s" % (
                crash_at, partial, sq.cache_log_since_start()[-1500:]))
        else:
            r.inconclusive = "restart not ready in time: %s" % str(e)[:40]
        return r
    if not ds.wait_finished_rebuilding(sq, 90):
        if sq.alive():
            r.inconclusive = "rebuild not finished in time"
        else:
            probs = sq.health_problems(expect_alive=False)
            sig = probs[0][0] if probs else "exit-code-%s" % sq.proc.returncode
            r.fail("rebuild-after-crash-died:%s:%s" % (store.split("-")[0], sig), "squid exited while rebuilding (crash_at=%d partial=%d)\n%s" % (
                crash_at, partial, sq.cache_log_since_start()[-1500:]))
        return r
    hits = 0
    urls = sorted(set(op["u"] for op in ops))
    r.sub_evaluations = max(1, len(urls))
    for u in urls:
        path = content.path(u)
        if path not in content.served:
            continue
        m = ds.oic(env, port, path)
        if not ds.judged(m):
            r.inconclusive = "probe after restart not answered"
            continue
        if m.status != 200:
            continue
        served = content.served_versions(u)
        k = content.match_version(u, m.body) if m.complete else None
        if k is not None:
            hits += 1
            continue
        if not m.complete and any(content.body(u, v).startswith(m.body) for v in served):
            # the client can tell (framing not satisfied), but the hit is not byte-identical to a complete response
            # after a *partial* write into a rock slot (header and payload go out in one write()) the same torn slot that can
            # make a hit differ (listed finding) can also make it end early: a new header, or part of one, over old bytes
            tcls = ":torn-slot-after-partial-write" if store.startswith("rock") and fired and partial >= 0 else ""
            r.fail("hit-truncated:" + store.split("-")[0] + tcls, "u%d: only-if-cached 200 after the crash delivered only %d body bytes (a correct prefix) and ended early; crash_at=%d partial=%d" % (
                u, len(m.body), crash_at, partial))
            continue
        cls = ""
        if store.startswith("rock") and fired and partial >= 0 and any(content.served[path][v] == len(m.body) for v in content.all_versions(u)):
            # rock writes a slot (header + payload) with one write(); a partial write leaves a sane header over a torn payload
            cls = ":torn-slot-after-partial-write"
        elif store.startswith("rock") and fired:
            # crash between the slot writes of one entry: the next-slot link of a written slot points at a slot that still
            # holds an older chain of the same key; the db then has no complete chain for the key (engine/vlib/e2e/rockdb.py:
            # every member names the inode, sizes add up) and the hit was assembled from slots of different chains
            try:
                from vlib.e2e import rockdb
                c = rockdb.chains_of(rockdb.RockDb(os.path.join(sq.cache_sub, "rock")), env.url(path))
                if c["slots"] and not c["complete"]:
                    cls = ":no-complete-chain-in-db"
                elif c["complete"]:
                    # A complete chain by its slot headers whose first slot carries another response than the rest: the
                    # entry's slots were freed and taken again, in the same order, by a newer version of the URL, and only the
                    # first slot(s) of the newer version reached the disk (Rock::Rebuild::sameEntry() compares keys only, so
                    # DbCellHeader::version does not separate the two).  Told apart by the stored reply head: its Content-Length
                    # does not fit the entry size recorded at the end of the chain.
                    db = rockdb.RockDb(os.path.join(sq.cache_sub, "rock"))
                    chain = c["complete"][0]
                    slots = dict(db.by_key().get(rockdb.store_key(env.url(path)), []))
                    data = b"".join(bytes(slots[k].payload[:slots[k].payload_size]) for k in chain)
                    total = [slots[k].entry_size for k in chain if slots[k].entry_size][0]
                    eoh = data.find(b"\r\n\r\n")
                    mm = re.search(rb"\r\nContent-Length: (\d+)\r\n", data[:eoh + 2]) if eoh > 0 else None
                    if mm and total - (eoh + 4) != int(mm.group(1)):
                        cls = ":first-slots-of-newer-version-over-older-chain"
                    if not cls and os.environ.get("VERIF_C16_DEBUG"):
                        open(os.environ["VERIF_C16_DEBUG"], "a").write("chains %r total %r eoh %r mm %r versions %r head %r\n" % (
                            c, total, eoh, mm and mm.group(1), [slots[k].version for k in chain], data[:400]))
            except Exception as e:
                if os.environ.get("VERIF_C16_DEBUG"):
                    open(os.environ["VERIF_C16_DEBUG"], "a").write("exc %r\n" % e)
        r.fail("hit-is-not-a-complete-origin-version:" + store.split("-")[0] + cls,
               "u%d: only-if-cached 200 after the crash with %d body bytes (complete=%s) matching none of the %d completely served versions (sizes %s); crash_at=%d partial=%d" % (
                   u, len(m.body), m.complete, len(served), [content.served[path][v] for v in served], crash_at, partial))
    if hits:
        r.label("hits-after-crash")
    if fired and in_flight_multi:
        r.label("crash-inside-multi-write-entry")
    if fired and not early and (in_flight_multi or hits):
        r.nontrivial = True
    ds.health(sq, r)
    if "fixed" in sc:
        r.label("enum-point-run")
    return r
