"""C05 Pipelined responses are delivered in request order, one per request.

One client connection, 1-10 tagged requests (GET/HEAD/POST with bodies) written back-to-back or in groups with gaps
while earlier responses are still in flight; the origin answers each tag after a generated delay (so later requests
finish first), some tags are pre-cached (hits are ready immediately); pipeline_prefetch in {0,1,3,10} (one proxy
instance per value, started lazily, the value is part of the scenario so replays are faithful).

Oracle (from the statement): the response stream parsed by the strict reader is, position by position, the response to
the request at that position: it carries the X-Tag header the origin put on that request's response and exactly that
request's body keyed_stream(tag) (HEAD: head only); never more responses than requests; when the connection ends early
what was received is a prefix of that sequence.  A proxy-generated error page counts as the one response for its
position.  Missed deadlines are inconclusive.
"""
import socket
import time

from hypothesis import strategies as st

from vlib.e2e import client, httpref, squidproc
from vlib.e2e.env import ProxyEnv, fetch
from vlib.e2e_runner import Result

DEADLINE = 15.0
PREFETCH = [0, 1, 3, 10]
CONF = "pipeline_prefetch %d\nread_timeout 30 seconds\nrequest_timeout 30 seconds\n"


def strategy(tp):
    req = st.fixed_dictionaries({
        "method": st.sampled_from(["GET", "GET", "GET", "HEAD", "POST"]),
        "body_len": st.sampled_from([0, 1, 100, 3000]),
        "delay_ms": st.sampled_from([0, 0, 3, 10, 30, 80, 150]),
        "resp_len": st.sampled_from([0, 10, 10, 1000, 5000, 20000, 70000]),
        "framing": st.sampled_from(["length", "length", "chunked"]),
        "status": st.sampled_from([200, 200, 200, 404, 204]),
        "cached": st.sampled_from([False, False, True]),
    })
    return st.fixed_dictionaries({
        "prefetch": st.sampled_from(PREFETCH + [3, 10]),
        "reqs": st.one_of(st.lists(req, min_size=1, max_size=10), st.lists(req, min_size=3, max_size=6)),
        "groups": st.lists(st.integers(1, 5), min_size=0, max_size=5),       # how many requests per client write burst
        "gaps_ms": st.lists(st.sampled_from([0, 0, 1, 5, 20, 60]), min_size=0, max_size=5),
        "segments": st.lists(st.one_of(st.integers(1, 30), st.integers(1, 400)), min_size=0, max_size=6),
        "last_close": st.booleans(),
    })


class Env:
    def __init__(self, ctx):
        self.base = ProxyEnv(ctx, conf=CONF % 0, cache_mem="32 MB")
        self.ctx = ctx
        self.extra = {}

    def squid(self, pf):
        if pf == 0:
            return self.base.squid
        if pf not in self.extra:
            s = squidproc.Squid("%s-w%d-pf%d" % (self.ctx.pid, self.ctx.worker, pf), conf=CONF % pf, clock=self.base.clock, cache_mem="32 MB")
            s.start()
            self.extra[pf] = s
        return self.extra[pf]

    def health(self, r, pf):
        if pf == 0:
            return self.base.health(r)
        s = self.extra.get(pf)
        if s is None:
            return True
        probs = s.health_problems()
        for sig, detail in probs:
            r.fail("memory-safety/liveness:" + sig, detail)
        if probs:
            try:
                s.destroy()
            except Exception:
                pass
            del self.extra[pf]
            self.base.restarts += 1
        return not probs

    def close(self):
        for s in self.extra.values():
            try:
                s.stop()
                s.destroy()
            except Exception:
                pass
        self.base.close()


def setup(ctx):
    return Env(ctx)


def teardown(env):
    env.close()


def execute(env, sc):
    r = Result()
    base = env.base
    origin = base.origin
    ns = base.ns()
    pf = sc["prefetch"]
    sq = env.squid(pf)
    port = sq.ports[0]
    reqs = sc["reqs"]
    n = len(reqs)
    r.label("prefetch-%d" % pf)
    r.label("requests-%s" % (n if n < 3 else "3+"))

    # ---- script the origin, pre-populate the cache for "cached" tags
    paths, bodies, req_bodies, hits = [], [], [], []
    for i, q in enumerate(reqs):
        path = "/%s/t%d" % (ns, i)
        paths.append(path)
        has_body = q["status"] != 204
        rlen = q["resp_len"] if has_body else 0
        bodies.append(httpref.keyed_stream(path + "#resp", rlen))
        req_bodies.append(httpref.keyed_stream(path + "#req", q["body_len"]) if q["method"] == "POST" else b"")
        cacheable = q["cached"] and q["method"] in ("GET", "HEAD") and q["status"] == 200
        # HEAD: Content-Length framing only (a chunked HEAD response makes the proxy close the connection, which would cut most pipelines short)
        framing = "length" if q["method"] == "HEAD" else q["framing"]
        beh = {"status": q["status"], "reason": "Whatever", "framing": framing if has_body else "none", "body_tag": path + "#resp", "body_len": rlen,
               "chunks": [4096, 13], "headers": [["X-Tag", path], ["Cache-Control", "max-age=3600" if cacheable else "no-store"]]}
        delayed = dict(beh)
        delayed["delay_ms"] = q["delay_ms"]
        if cacheable:
            origin.script(path, [beh, delayed])
            m = fetch(base, path, port=port, timeout=DEADLINE)
            hits.append(m is not None and not getattr(m, "timed_out", False) and m.status == 200 and m.complete)
        else:
            origin.script(path, delayed)
            hits.append(False)
    arrivals_before = [origin.arrival_count(p) for p in paths]

    # ---- the pipeline
    msgs = []
    for i, q in enumerate(reqs):
        lines = ["%s http://127.0.0.1:%d%s HTTP/1.1" % (q["method"], origin.port, paths[i]), "Host: 127.0.0.1:%d" % origin.port, "X-Req: %d" % i]
        if q["method"] == "POST":
            lines.append("Content-Length: %d" % len(req_bodies[i]))
        if i == n - 1 and sc["last_close"]:
            lines.append("Connection: close")
        msgs.append(("\r\n".join(lines) + "\r\n\r\n").encode() + req_bodies[i])
    bursts = []
    i = 0
    for g in sc["groups"]:
        if i >= n:
            break
        bursts.append(b"".join(msgs[i:i + g]))
        i += g
    if i < n:
        bursts.append(b"".join(msgs[i:]))
    if len(bursts) > 1:
        r.label("written-in-bursts")

    c = client.Conn(port, timeout=DEADLINE)
    got = []
    closed_early = False
    try:
        for bi, b in enumerate(bursts):
            c.send(b, sc["segments"] if bi == 0 else None)
            if bi < len(bursts) - 1:
                gap = sc["gaps_ms"][bi] if bi < len(sc["gaps_ms"]) else 0
                if gap:
                    time.sleep(gap / 1000.0)
        for i, q in enumerate(reqs):
            m = c.read_response(q["method"].encode(), timeout=DEADLINE)
            if m is None or m.timed_out:
                # A missed deadline alone is inconclusive.  It becomes a verdict only when the harness can show the response
                # is being WITHHELD: the origin stub has finished sending its answer for this request (or it is a cache hit),
                # the connection is still open, a fresh request on another connection is served promptly (the proxy is alive
                # and scheduled), and a further grace period still brings nothing.
                arr = origin.arrivals_for(paths[i])
                answered_upstream = hits[i] or any(a.responded for a in arr[arrivals_before[i]:])
                if answered_upstream and not c.eof and not c.rbuf:
                    probe = "/%s/probe%d" % (ns, i)
                    origin.script(probe, {"status": 200, "body_b64": "", "headers": [["Cache-Control", "no-store"]]})
                    t0 = time.time()
                    pm = fetch(base, probe, port=port, timeout=10)
                    responsive = pm is not None and not getattr(pm, "timed_out", False) and pm.status == 200 and time.time() - t0 < 5
                    if responsive:
                        m2 = c.read_response(q["method"].encode(), timeout=8)
                        if (m2 is None or m2.timed_out) and not c.eof and not c.rbuf:
                            r.fail("response-withheld-although-upstream-answered-and-proxy-responsive",
                                   "no byte of response %d of %d within %d+8 s; origin had answered it (or it was cached), connection still open, a fresh request was served in %.1f s; prefetch %d" % (
                                       i + 1, n, DEADLINE, time.time() - t0, pf))
                            break
                r.inconclusive = "client timed out waiting for response %d of %d" % (i + 1, n)
                break
            if getattr(m, "bad", False):
                r.fail("response-stream-malformed", "at position %d: %s; bytes %r" % (i, m.anomalies, bytes(m.raw_head[:300])))
                break
            if m.status is None:
                closed_early = True
                if m.raw_head.strip():
                    r.label("closed-inside-a-response-head")
                break
            got.append(m)
            if m.truncated:
                closed_early = True
                break
        else:
            # all n responses read: nothing more may follow
            extra = bytes(c.rbuf)
            if not extra and not c.eof:
                c.s.settimeout(0.02)
                try:
                    extra = c.s.recv(4096)
                except (socket.timeout, OSError):
                    extra = b""
            if extra.strip():
                r.fail("more-responses-than-requests", "after %d responses for %d requests: %r" % (len(got), n, extra[:300]))
    finally:
        c.close()

    # ---- judge position by position
    r.sub_evaluations = max(1, len(got))
    for i, m in enumerate(got):
        q = reqs[i]
        if m.has("x-squid-error"):
            r.label("squid-error-response")
            continue
        tag = m.get("x-tag")
        if tag != paths[i].encode():
            where = [k for k, p in enumerate(paths) if tag == p.encode()]
            r.fail("response-for-another-request" if where else "response-without-own-tag",
                   "position %d (request %s %s) got X-Tag %r (that is request %s); prefetch %d" % (i, q["method"], paths[i], tag, where, pf))
            break
        if m.status != q["status"]:
            r.fail("response-status-of-another-request", "position %d: status %s, origin sent %s" % (i, m.status, q["status"]))
            break
        if q["method"] == "HEAD":
            if m.body:
                r.fail("head-response-with-body", "position %d" % i)
            continue
        if m.complete:
            if m.body != bodies[i]:
                r.fail("response-body-of-another-request-or-altered", "position %d: %d bytes, expected %d bytes of its own stream" % (i, len(m.body), len(bodies[i])))
                break
        else:
            if bodies[i][:len(m.body)] != m.body:
                r.fail("response-body-not-a-prefix-of-own-stream", "position %d (truncated)" % i)
                break
    if not r.inconclusive:
        if len(got) == n and not closed_early:
            r.label("all-responses-received")
        else:
            r.label("connection-ended-early")

    # ---- request bodies of pipelined POSTs must be their own
    for i, q in enumerate(reqs):
        if q["method"] != "POST":
            continue
        for a in origin.arrivals_for(paths[i])[arrivals_before[i]:]:
            if a.body_done and a.msg.complete and a.msg.body != req_bodies[i]:
                r.fail("pipelined-request-body-altered", "request %d: origin got %d bytes, client sent %d" % (i, len(a.msg.body), len(req_bodies[i])))

    # ---- non-triviality: an observed inversion between readiness order and request order
    finish = []
    for i, q in enumerate(reqs):
        arrs = origin.arrivals_for(paths[i])[arrivals_before[i]:]
        if hits[i] and not arrs:
            finish.append(("hit", None))
        elif arrs:
            finish.append(("miss", arrs[0].time + q["delay_ms"] / 1000.0))
        else:
            finish.append(("none", None))
    if any(k == "hit" for k, _ in finish):
        r.label("has-hit")
    inversion = False
    for i in range(n):
        for j in range(i + 1, n):
            ki, ti = finish[i]
            kj, tj = finish[j]
            if ki == "miss" and kj == "miss" and tj < ti:
                inversion = True
            if ki == "miss" and kj == "hit" and reqs[i]["delay_ms"] >= 10 and pf >= 1 and j - i <= pf and j < len(got):
                inversion = True
    if inversion:
        r.label("inversion")
        if n >= 3:
            r.nontrivial = True
    env.health(r, pf)
    return r
