// C36 Base64 codec (lib/base64.cc): round trip, fragmented update, malformed input, guarded buffers.
// This build has HAVE_NETTLE_BASE64_H=1, i.e. the proxy binary links libnettle and lib/base64.cc
// compiles to nothing; the harness compiles the tree's own implementation (the property's anchor)
// by including lib/base64.cc with that macro switched off.
// Domain : every byte string of length <= 2 (quick) / <= 3 (thorough) and every decoder input of
//          length <= 6 over an 8-symbol alphabet, enumerated by index; random strings up to 8 KB fed
//          to the update functions in generated fragments; encodings mutated with bad characters,
//          misplaced/missing/extra '=', white space, truncation.
// Oracle : RFC 4648 reference codec in this file: encoder output == reference; decode(encode(s)) == s
//          with final == 1; a text that is not (after removing the white space the API documents as
//          ignored) a sequence of 4-character quanta with correct padding must be rejected by
//          update or final; every update call gets a heap buffer of exactly
//          BASE64_DECODE_LENGTH(n) / BASE64_ENCODE_LENGTH(n) bytes (ASan guards the end).
#include "squid.h"

#undef HAVE_NETTLE_BASE64_H
#define HAVE_NETTLE_BASE64_H 0
#include "base64.h"
#include "lib/base64.cc"

#include "verif_pbt.h"

// the standalone link has no libcompat: Squid's assert() hook, reported in the format unit.py classifies
void xassert(const char *expr, const char *file, int line)
{
    fprintf(stderr, "assertion failed: %s:%d: \"%s\"\n", file, line, expr);
    abort();
}

// ------------------------------------------------------------------ RFC 4648 reference

static const char kB64[65] = "ABCDEFGHIJKLMNOPQRSTUVWXYZabcdefghijklmnopqrstuvwxyz0123456789+/";

static std::string refEncode(const std::string &s)
{
    std::string o;
    size_t i = 0;
    for (; i + 3 <= s.size(); i += 3) {
        const unsigned v = (static_cast<unsigned char>(s[i]) << 16) | (static_cast<unsigned char>(s[i + 1]) << 8) | static_cast<unsigned char>(s[i + 2]);
        o += kB64[v >> 18]; o += kB64[(v >> 12) & 63]; o += kB64[(v >> 6) & 63]; o += kB64[v & 63];
    }
    const size_t rest = s.size() - i;
    if (rest == 1) {
        const unsigned v = static_cast<unsigned char>(s[i]) << 16;
        o += kB64[v >> 18]; o += kB64[(v >> 12) & 63]; o += "==";
    } else if (rest == 2) {
        const unsigned v = (static_cast<unsigned char>(s[i]) << 16) | (static_cast<unsigned char>(s[i + 1]) << 8);
        o += kB64[v >> 18]; o += kB64[(v >> 12) & 63]; o += kB64[(v >> 6) & 63]; o += '=';
    }
    return o;
}

static int refValue(const unsigned char c)
{
    if (c >= 'A' && c <= 'Z') return c - 'A';
    if (c >= 'a' && c <= 'z') return c - 'a' + 26;
    if (c >= '0' && c <= '9') return c - '0' + 52;
    if (c == '+') return 62;
    if (c == '/') return 63;
    return -1;
}

static bool isApiSpace(const unsigned char c) { return c == ' ' || (c >= '\t' && c <= '\r'); }

enum RefClass {
    kCanonical,     ///< quanta + correct padding + zero trailing bits: must decode to `bytes`
    kTrailingBits,  ///< as above but the last data character carries non-zero unused bits (RFC 4648 3.5: MAY reject)
    kMalformed      ///< anything else
};

struct RefDecoded {
    RefClass cls = kMalformed;
    std::string bytes;
    bool hadSpace = false;
    const char *why = "";
};

static RefDecoded refDecode(const std::string &text)
{
    RefDecoded r;
    std::string t;
    for (const unsigned char c : text) {
        if (isApiSpace(c)) r.hadSpace = true;
        else t += static_cast<char>(c);
    }
    size_t data = 0;
    while (data < t.size() && refValue(t[data]) >= 0) ++data;
    const size_t pads = t.size() - data;
    for (size_t i = data; i < t.size(); ++i) {
        if (t[i] != '=') { r.why = refValue(t[i]) >= 0 ? "data-after-padding" : "character-outside-alphabet"; return r; }
    }
    // t = data characters followed only by '='
    const size_t rem = data % 4;
    if (rem == 1) {
        // narrow class of its own (a known finding lives here): the final quantum is one zero-valued
        // character ('A') followed by exactly three '='
        r.why = (pads == 3 && refValue(t[data - 1]) == 0) ? "dangling-zero-character-with-three-pads" : "dangling-single-character";
        return r;
    }
    const size_t needPads = rem == 0 ? 0 : 4 - rem;
    if (pads != needPads) { r.why = pads < needPads ? "missing-padding" : "excess-padding"; return r; }
    unsigned acc = 0;
    int bits = 0;
    for (size_t i = 0; i < data; ++i) {
        acc = ((acc << 6) | static_cast<unsigned>(refValue(t[i]))) & 0xFFFF;
        bits += 6;
        if (bits >= 8) { bits -= 8; r.bytes += static_cast<char>((acc >> bits) & 0xFF); }
    }
    r.cls = (acc & ((1u << bits) - 1)) ? kTrailingBits : kCanonical;
    return r;
}

// ------------------------------------------------------------------ drivers with exact-size buffers

/// fragment lengths from cut positions; always covers [0,n)
static std::vector<size_t> fragments(const size_t n, std::vector<size_t> cuts)
{
    for (auto &c : cuts) c = n ? c % (n + 1) : 0;
    std::sort(cuts.begin(), cuts.end());
    std::vector<size_t> f;
    size_t prev = 0;
    for (const size_t c : cuts) { f.push_back(c - prev); prev = c; }
    f.push_back(n - prev);
    return f;
}

static std::string driveEncode(const std::string &s, const std::vector<size_t> &cuts)
{
    base64_encode_ctx ctx;
    base64_encode_init(&ctx);
    std::string out;
    size_t pos = 0;
    for (const size_t len : fragments(s.size(), cuts)) {
        const size_t cap = BASE64_ENCODE_LENGTH(len);
        char *dst = static_cast<char *>(malloc(cap));
        uint8_t *src = static_cast<uint8_t *>(malloc(len)); // exact-size source too: no over-read
        if (len) memcpy(src, s.data() + pos, len);
        const size_t done = base64_encode_update(&ctx, dst, len, src);
        out.append(dst, std::min(done, cap));
        if (done > cap) out += "<update-reported-more-than-BASE64_ENCODE_LENGTH>";
        free(src);
        free(dst);
        pos += len;
    }
    char *fin = static_cast<char *>(malloc(BASE64_ENCODE_FINAL_LENGTH));
    const size_t done = base64_encode_final(&ctx, fin);
    out.append(fin, std::min<size_t>(done, BASE64_ENCODE_FINAL_LENGTH));
    free(fin);
    return out;
}

struct Decoded {
    bool updateOk = true;
    bool finalOk = false;
    bool lengthLie = false; ///< *dst_length > BASE64_DECODE_LENGTH(src_length)
    std::string bytes;
    bool accepted() const { return updateOk && finalOk; }
};

static Decoded driveDecode(const std::string &text, const std::vector<size_t> &cuts)
{
    Decoded d;
    base64_decode_ctx ctx;
    base64_decode_init(&ctx);
    size_t pos = 0;
    for (const size_t len : fragments(text.size(), cuts)) {
        const size_t cap = BASE64_DECODE_LENGTH(len);
        uint8_t *dst = static_cast<uint8_t *>(malloc(cap));
        const char *src = text.data() + pos;
        size_t got = 0;
        const int ok = base64_decode_update(&ctx, &got, dst, len, src);
        if (ok) {
            if (got > cap) { d.lengthLie = true; got = cap; }
            d.bytes.append(reinterpret_cast<char *>(dst), got);
        }
        free(dst);
        pos += len;
        if (!ok) { d.updateOk = false; return d; }
    }
    d.finalOk = base64_decode_final(&ctx) != 0;
    return d;
}

// ------------------------------------------------------------------ the obligations

static vp::Verdict judgeRoundTrip(const std::string &s, const std::vector<size_t> &encCuts, const std::vector<size_t> &decCuts)
{
    const std::string want = refEncode(s);
    const std::string enc = driveEncode(s, encCuts);
    if (enc != want)
        return vp::fail("encode:differs-from-rfc4648", "input " + vp::esc(s.substr(0, 60)) + " got " + vp::esc(enc.substr(0, 100)) + " want " + vp::esc(want.substr(0, 100)));
    std::string raw(BASE64_ENCODE_RAW_LENGTH(s.size()), '\0');
    {
        char *dst = static_cast<char *>(malloc(raw.size()));
        base64_encode_raw(dst, s.size(), reinterpret_cast<const uint8_t *>(s.data()));
        raw.assign(dst, raw.size());
        free(dst);
    }
    if (raw != want)
        return vp::fail("encode_raw:differs-from-rfc4648", "input " + vp::esc(s.substr(0, 60)));
    const Decoded d = driveDecode(enc, decCuts);
    if (d.lengthLie) return vp::fail("decode:reported-length-exceeds-BASE64_DECODE_LENGTH", "text " + vp::esc(enc.substr(0, 100)));
    if (!d.accepted())
        return vp::fail(d.updateOk ? "decode:final-rejects-valid-encoding" : "decode:update-rejects-valid-encoding", "input " + vp::esc(s.substr(0, 60)) + " encoded " + vp::esc(enc.substr(0, 100)));
    if (d.bytes != s)
        return vp::fail("decode:roundtrip-mismatch", "input " + vp::esc(s.substr(0, 60)) + " encoded " + vp::esc(enc.substr(0, 100)) + " decoded " + vp::esc(d.bytes.substr(0, 60)));
    return vp::pass();
}

static vp::Verdict judgeDecoderInput(const std::string &text, const std::vector<size_t> &cuts, vp::Ctx *ctx)
{
    const RefDecoded ref = refDecode(text);
    const Decoded d = driveDecode(text, cuts);
    if (ctx) {
        ctx->label(ref.cls == kCanonical ? "ref:well-formed" : ref.cls == kTrailingBits ? "ref:non-zero-trailing-bits" : std::string("ref:malformed:") + ref.why);
        if (ref.hadSpace) ctx->label("has-api-white-space");
        ctx->label(d.accepted() ? "decoder-accepts" : "decoder-rejects");
    }
    if (d.lengthLie) return vp::fail("decode:reported-length-exceeds-BASE64_DECODE_LENGTH", "text " + vp::esc(text.substr(0, 100)));
    if (ref.cls == kMalformed) {
        if (d.accepted())
            return vp::fail(std::string("decode:accepts-malformed:") + ref.why, "text " + vp::esc(text.substr(0, 100)) + " decoded " + vp::esc(d.bytes.substr(0, 60)));
        return vp::pass();
    }
    if (!d.accepted()) {
        // well-formed quanta: rejection is only acceptable for the two things the statement leaves open
        if (ref.cls == kTrailingBits) { if (ctx) ctx->excluded("non-zero trailing bits rejected (RFC 4648 3.5 MAY)"); return vp::pass(); }
        if (ref.hadSpace) { if (ctx) ctx->excluded("white space inside well-formed text rejected (tolerance left open)"); return vp::pass(); }
        return vp::fail(d.updateOk ? "decode:final-rejects-valid-encoding" : "decode:update-rejects-valid-encoding", "text " + vp::esc(text.substr(0, 100)));
    }
    if (d.bytes != ref.bytes)
        return vp::fail("decode:wrong-bytes", "text " + vp::esc(text.substr(0, 100)) + " decoded " + vp::esc(d.bytes.substr(0, 60)) + " want " + vp::esc(ref.bytes.substr(0, 60)));
    return vp::pass();
}

// ------------------------------------------------------------------ generators

static uint64_t splitmix(uint64_t &state)
{
    state += 0x9E3779B97F4A7C15ULL;
    uint64_t z = state;
    z = (z ^ (z >> 30)) * 0xBF58476D1CE4E5B9ULL;
    z = (z ^ (z >> 27)) * 0x94D049BB133111EBULL;
    return z ^ (z >> 31);
}

/// Short strings byte by byte from rapidcheck (shrinkable); long ones (up to 8 KB) are a deterministic
/// splitmix64 expansion of a rapidcheck-drawn word and length.  The case file stores the string itself.
static rc::Gen<std::string> genPlain()
{
    using namespace rc;
    return gen::exec([]() {
        const int lenKind = *vp::range<int>(0, 19);
        std::string s;
        if (lenKind < 10) {
            const size_t n = *vp::range<size_t>(0, 9);
            const int flavour = *vp::range<int>(0, 2);
            for (size_t i = 0; i < n; ++i)
                s += static_cast<char>(flavour == 0 ? *vp::range<int>(0, 255) : flavour == 1 ? *gen::element(0, 0xff, 0x80, 0x7f, 0x3f, 0xfc, 0x03, ':', 'a') : *vp::range<int>(0x20, 0x7e));
            return s;
        }
        const size_t n = lenKind < 17 ? *vp::range<size_t>(0, 100) : lenKind < 19 ? *vp::range<size_t>(0, 1000) : *vp::range<size_t>(0, 8192);
        uint64_t state = *gen::arbitrary<uint64_t>();
        s.reserve(n);
        const bool text = *gen::arbitrary<bool>();
        for (size_t i = 0; i < n; ++i) {
            const uint64_t z = splitmix(state);
            s += static_cast<char>(text ? 0x20 + z % 0x5f : z & 0xff);
        }
        return s;
    });
}

static rc::Gen<std::vector<size_t>> genCuts()
{
    using namespace rc;
    return gen::exec([]() {
        std::vector<size_t> cuts;
        const int k = *gen::weightedElement<int>({{3, 0}, {3, 1}, {3, 2}, {2, 5}, {1, 12}});
        for (int i = 0; i < k; ++i) {
            // small absolute positions (interesting for the 3/4-byte quanta) or anywhere
            cuts.push_back(*vp::range<int>(0, 2) ? *vp::range<size_t>(0, 9) : *vp::range<size_t>(0, 12000));
        }
        return cuts;
    });
}

struct RtCase { std::string s; std::vector<size_t> encCuts, decCuts; };
static std::string showRt(const RtCase &c)
{
    vp::Writer w;
    w.s("s", c.s);
    for (const size_t x : c.encCuts) w.u("enc_cut", x);
    for (const size_t x : c.decCuts) w.u("dec_cut", x);
    return w.str();
}
static RtCase parseRt(const std::string &t)
{
    vp::Reader r(t);
    RtCase c;
    c.s = r.s("s");
    for (size_t i = 0; i < r.count("enc_cut"); ++i) c.encCuts.push_back(r.u("enc_cut", i));
    for (size_t i = 0; i < r.count("dec_cut"); ++i) c.decCuts.push_back(r.u("dec_cut", i));
    return c;
}
static vp::Verdict checkRt(const RtCase &c, vp::Ctx &ctx)
{
    const size_t n = c.s.size();
    ctx.label(n % 3 == 0 ? "length%3==0" : n % 3 == 1 ? "length%3==1" : "length%3==2");
    bool encSplit = false, decSplit = false;
    for (const size_t f : fragments(n, c.encCuts)) encSplit |= f != 0 && f != n;
    for (const size_t f : fragments(refEncode(c.s).size(), c.decCuts)) decSplit |= f != 0 && f != refEncode(c.s).size();
    if (encSplit) ctx.label("encoder-input-fragmented");
    if (decSplit) ctx.label("decoder-input-fragmented");
    if (n > 1000) ctx.label("longer-than-1000");
    if (n && (encSplit || decSplit || n % 3)) ctx.nontrivial();
    return judgeRoundTrip(c.s, c.encCuts, c.decCuts);
}

struct DecCase { std::string text; std::vector<size_t> cuts; };
static std::string showDec(const DecCase &c)
{
    vp::Writer w;
    w.s("text", c.text);
    for (const size_t x : c.cuts) w.u("cut", x);
    return w.str();
}
static DecCase parseDec(const std::string &t)
{
    vp::Reader r(t);
    DecCase c;
    c.text = r.s("text");
    for (size_t i = 0; i < r.count("cut"); ++i) c.cuts.push_back(r.u("cut", i));
    return c;
}

static rc::Gen<DecCase> genMutated()
{
    using namespace rc;
    return gen::exec([]() {
        DecCase c;
        std::string t = refEncode(*genPlain());
        const int nMut = *gen::weightedElement<int>({{2, 0}, {5, 1}, {2, 2}, {1, 4}});
        for (int m = 0; m < nMut; ++m) {
            const int op = *vp::range<int>(0, 11);
            // positions are dense near the end (padding) and the start
            const size_t pos = t.empty() ? 0 : (*vp::range<int>(0, 1) ? t.size() - 1 - *vp::range<size_t>(0, std::min<size_t>(t.size() - 1, 5)) : *vp::range<size_t>(0, t.size() - 1));
            static const std::string bad = std::string("-_.!*~,:;@#$%^&()[]{}<>?\\|\"'`\x7f\x80\xff\x01\x08\x0e\x1f") + std::string(1, '\0');
            static const std::string ws = " \t\n\v\f\r";
            switch (op) {
            case 0: if (!t.empty()) t[pos] = bad[*vp::range<size_t>(0, bad.size() - 1)]; break;            // bad alphabet
            case 1: t.insert(pos, 1, bad[*vp::range<size_t>(0, bad.size() - 1)]); break;
            case 2: t.insert(t.empty() ? 0 : pos + *vp::range<size_t>(0, 1), 1, '='); break;                  // misplaced/extra '='
            case 3: { const size_t e = t.find('='); if (e != std::string::npos) t.erase(e, 1); else if (!t.empty()) t.erase(t.size() - 1); break; } // missing '='
            case 4: while (!t.empty() && t.back() == '=') t.pop_back(); break;                                // all padding removed
            case 5: t.insert(pos, 1, ws[*vp::range<size_t>(0, ws.size() - 1)]); break;                       // white space
            case 6: if (!t.empty()) t.resize(t.size() - 1 - *vp::range<size_t>(0, std::min<size_t>(t.size() - 1, 3))); break; // truncated
            case 7: t += kB64[*vp::range<int>(0, 63)]; break;                                                  // data after the end
            case 8: t += "="; break;
            case 9: if (!t.empty()) t[pos] = kB64[*vp::range<int>(0, 63)]; break;                             // other data char (trailing bits)
            case 10: t += refEncode(*genPlain()).substr(0, 8); break;                                          // concatenated encodings
            default: if (!t.empty()) t.erase(pos, 1); break;
            }
        }
        c.text = t;
        c.cuts = *genCuts();
        return c;
    });
}

static vp::Verdict checkDec(const DecCase &c, vp::Ctx &ctx)
{
    const auto v = judgeDecoderInput(c.text, c.cuts, &ctx);
    const RefDecoded ref = refDecode(c.text);
    if (ref.cls != kCanonical || ref.hadSpace) ctx.nontrivial();
    return v;
}

// ------------------------------------------------------------------ exhaustive enumeration by index

struct BlockCase { int unit = 0; };
static std::string showBlock(const BlockCase &c) { return vp::Writer().i("unit", c.unit).str(); }
static BlockCase parseBlock(const std::string &t) { vp::Reader r(t); BlockCase c; c.unit = static_cast<int>(r.i("unit")); return c; }

struct Enumerator { uint64_t total; bool started = false; uint64_t next = 0, produced = 0; };
static Enumerator gEnumPlain2{257}, gEnumPlain3{256}, gEnumText{65};

static rc::Gen<BlockCase> genBlock(Enumerator *e, const bool seededStart)
{
    return rc::gen::exec([e, seededStart]() {
        if (!e->started) {
            e->started = true;
            e->next = seededStart ? *vp::range<uint64_t>(0, e->total - 1) : 0;
        }
        BlockCase c;
        c.unit = static_cast<int>(e->next);
        e->next = (e->next + 1) % e->total;
        ++e->produced;
        return c;
    });
}

/// one plain string: every way to cut the encoder input and the decoder input into two fragments
static vp::Verdict judgePlainAllSplits(const std::string &s)
{
    const size_t encLen = BASE64_ENCODE_RAW_LENGTH(s.size());
    for (size_t ec = 0; ec <= s.size(); ++ec) {
        for (size_t dc = 0; dc <= encLen; ++dc) {
            const auto v = judgeRoundTrip(s, {ec}, {dc});
            if (!v.ok) return v;
        }
    }
    return vp::pass();
}

/// unit 0..255: the 256 two-byte strings starting with that byte; unit 256: the empty and all one-byte strings
static vp::Verdict checkPlain2(const BlockCase &c, vp::Ctx &ctx)
{
    if (c.unit < 0 || c.unit > 256) { ctx.excluded("malformed replay"); return vp::pass(); }
    uint64_t n = 0;
    std::string s;
    if (c.unit == 256) {
        auto v = judgePlainAllSplits(s);
        if (!v.ok) return v;
        ++n;
        s.assign(1, '\0');
        for (int b = 0; b < 256; ++b) { s[0] = static_cast<char>(b); v = judgePlainAllSplits(s); if (!v.ok) return v; ++n; }
    } else {
        s.assign(2, static_cast<char>(c.unit));
        for (int b = 0; b < 256; ++b) { s[1] = static_cast<char>(b); const auto v = judgePlainAllSplits(s); if (!v.ok) return v; ++n; }
    }
    ctx.labels["strings-evaluated"] += n;
    if (gEnumPlain2.produced % gEnumPlain2.total == 0) ctx.label("complete-enumeration-finished");
    ctx.nontrivial();
    return vp::pass();
}

/// unit u: the 65536 three-byte strings starting with byte u (unfragmented and split after byte 1 / char 2)
static vp::Verdict checkPlain3(const BlockCase &c, vp::Ctx &ctx)
{
    if (c.unit < 0 || c.unit > 255) { ctx.excluded("malformed replay"); return vp::pass(); }
    std::string s(3, static_cast<char>(c.unit));
    for (int b = 0; b < 256; ++b) {
        s[1] = static_cast<char>(b);
        for (int d = 0; d < 256; ++d) {
            s[2] = static_cast<char>(d);
            auto v = judgeRoundTrip(s, {}, {});
            if (!v.ok) return v;
            v = judgeRoundTrip(s, {1}, {2});
            if (!v.ok) return v;
        }
    }
    ctx.labels["strings-evaluated"] += 65536;
    if (gEnumPlain3.produced % gEnumPlain3.total == 0) ctx.label("complete-enumeration-finished");
    ctx.nontrivial();
    return vp::pass();
}

/// decoder inputs over {A Q g / = SP LF !}: unit 0..63 = the 4096 six-symbol texts starting with
/// symbols (u/8, u%8); unit 64 = all texts of length 0..5 (37 449)
static const char kTextAlphabet[9] = "AQg/= \n!";
static vp::Verdict checkText(const BlockCase &c, vp::Ctx &ctx)
{
    if (c.unit < 0 || c.unit > 64) { ctx.excluded("malformed replay"); return vp::pass(); }
    uint64_t n = 0;
    auto one = [&](const std::string &t) {
        auto v = judgeDecoderInput(t, {}, nullptr);
        if (v.ok && t.size() > 1) v = judgeDecoderInput(t, {t.size() / 2}, nullptr);
        ++n;
        return v;
    };
    if (c.unit == 64) {
        for (int len = 0; len <= 5; ++len) {
            const int count = 1 << (3 * len);
            for (int idx = 0; idx < count; ++idx) {
                std::string t(len, ' ');
                for (int p = 0; p < len; ++p) t[p] = kTextAlphabet[(idx >> (3 * p)) & 7];
                const auto v = one(t);
                if (!v.ok) return v;
            }
        }
    } else {
        std::string t(6, ' ');
        t[0] = kTextAlphabet[c.unit / 8];
        t[1] = kTextAlphabet[c.unit % 8];
        for (int idx = 0; idx < 4096; ++idx) {
            for (int p = 0; p < 4; ++p) t[2 + p] = kTextAlphabet[(idx >> (3 * p)) & 7];
            const auto v = one(t);
            if (!v.ok) return v;
        }
    }
    ctx.labels["texts-evaluated"] += n;
    if (gEnumText.produced % gEnumText.total == 0) ctx.label("complete-enumeration-finished");
    ctx.nontrivial();
    return vp::pass();
}

static void registerAll()
{
    using namespace rc;
    vp::add<RtCase>("roundtrip_fragmented", gen::exec([]() { RtCase c; c.s = *genPlain(); c.encCuts = *genCuts(); c.decCuts = *genCuts(); return c; }),
                    checkRt, showRt, parseRt, 1.0);
    vp::add<DecCase>("decode_mutated", genMutated(), checkDec, showDec, parseDec, 1.5);
    vp::add<BlockCase>("exhaustive_plain_len_le2", genBlock(&gEnumPlain2, false), checkPlain2, showBlock, parseBlock, 0.01);
    vp::add<BlockCase>("exhaustive_plain_len3", genBlock(&gEnumPlain3, true), checkPlain3, showBlock, parseBlock, 0.0005);
    vp::add<BlockCase>("exhaustive_decoder_input_len_le6", genBlock(&gEnumText, false), checkText, showBlock, parseBlock, 0.003);
}

VP_MAIN(registerAll)
