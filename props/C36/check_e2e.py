"""C36 (end-to-end half) Basic credentials are split at the first colon.

Observed through what the Basic auth helper is asked: the harness plays the helper
(vlib.e2e.helperstub) of a real proxy configured with `auth_param basic casesensitive on` (so the user name
is not folded) and answers every lookup; each generated Proxy-Authorization header carries
base64(user-id ":" password) with colons, spaces, '%', '+', '/', '=' and non-ASCII (UTF-8) bytes in
either part (RFC 7617: the user-id contains no colon, the password may; no control characters).
Oracle: the helper is asked about exactly (text before the first colon, everything after it) -- the
two URL-escaped tokens of the request line unescape to those byte strings -- and about nothing else for
that request.  User-ids start with a per-request tag, so every lookup is attributed to its request and
no cached verdict applies.
The codec half of C36 (round trip, malformed input, output bounds) is the unit harness in this directory.
"""
import base64
import os
import threading
import time
import urllib.parse

from hypothesis import strategies as st

from vlib import native
from vlib.e2e import client, helperstub, origin as originmod, squidproc
from vlib.e2e_runner import Result

# characters of the generated parts; ':' only in passwords (a user-id cannot contain one)
PLAIN = "abcXYZ019"
SPECIAL = [" ", "%", "+", "/", "=", "@", "\\", "\"", "'", "#", "?", "&", ";", ",", "~", "%3A", "%20", "é", "ü", "€", "ы", " "]


def _text(with_colon):
    parts = st.one_of(st.sampled_from(list(PLAIN)), st.sampled_from(list(PLAIN)), st.sampled_from(SPECIAL),
                      st.just(":") if with_colon else st.sampled_from(list(PLAIN)))
    return st.lists(parts, min_size=0 if not with_colon else 1, max_size=12).map("".join)


def _mangle(token, how, at):
    if not how:
        return token
    t = token.rstrip("=")
    if how == "bad-char":
        k = at % (len(token) + 1)
        return token[:k] + "*!_-"[at % 4] + token[k:]
    want = {"cut1": 1, "cut2": 2, "cut3": 3, "single-pad": 2}[how]
    while len(t) % 4 != want:
        t = t[:-1]
    return t + ("=" if how == "single-pad" else "")


def strategy(tp):
    cred = st.fixed_dictionaries({
        "user": _text(False),                     # appended to the per-request tag
        "password": st.one_of(_text(True), _text(True), st.sampled_from([":", "::", ":x", "x:", "a:b:c", ":::a", " :", ": "])),
        "spaces": st.sampled_from([1, 1, 1, 2, 3]),           # blanks between "Basic" and the token
        "scheme": st.sampled_from(["Basic", "Basic", "Basic", "basic", "BASIC"]),
        "verdict": st.booleans(),
        "new_conn": st.booleans(),
        # "Malformed base64 is rejected": a token that is not RFC 4648 section 4 base64 (cut inside a 4-character quantum,
        # one '=' where two are needed, a character outside the alphabet) must not yield credentials at all
        "mangle": st.sampled_from([None, None, None, None, "cut1", "cut2", "cut3", "single-pad", "bad-char", None]),
        "mangle_at": st.integers(0, 200),
    })
    return st.fixed_dictionaries({"creds": st.lists(cred, min_size=1, max_size=8)})


class Env:
    def __init__(self, ctx):
        native.build_all()
        self.ctx = ctx
        self.pid = getattr(ctx, "pid", "C36")
        self.clock = originmod.Clock()
        self.origin = originmod.Origin(self.clock)
        self.origin.default_behaviour = {"status": 200, "reason": "OK", "body_b64": "", "framing": "length", "headers": [["X-Origin", "yes"], ["Cache-Control", "no-store"]]}
        self.lock = threading.Lock()
        self.verdicts = {}
        self.squid = None
        self.stub = None
        self.n = 0
        self.start()

    def start(self):
        self.stub = helperstub.HelperStub("%s-w%d" % (self.pid, self.ctx.worker), channels=False, handler=self.on_lookup)
        conf = ("auth_param basic program %s\n"
                "auth_param basic children 3 startup=3 idle=1 concurrency=0\n"
                "auth_param basic casesensitive on\n"
                "auth_param basic credentialsttl 1 hour\n"
                "auth_param basic realm verif\n"
                "acl authed proxy_auth REQUIRED\n" % self.stub.program)
        self.squid = squidproc.Squid("%s-w%d" % (self.pid, self.ctx.worker), conf=conf, access="http_access allow authed\nhttp_access deny all",
                                     clock=self.clock, cache_mem="8 MB")
        self.squid.start(timeout=120)

    def on_lookup(self, q):
        # answer by the tag at the start of the user token (OK unless the scenario says otherwise)
        tok = q.payload.split(b" ")[0]
        with self.lock:
            ok = True
            for tag, v in self.verdicts.items():
                if tok.startswith(tag):
                    ok = v
        return b"OK" if ok else b"ERR"

    def ns(self):
        self.n += 1
        return "c36w%dp%dn%d" % (self.ctx.worker, os.getpid(), self.n)

    def restart(self):
        self.stop()
        self.start()

    def stop(self):
        try:
            if self.squid:
                self.squid.destroy()
        finally:
            if self.stub:
                self.stub.stop()

    def close(self):
        self.stop()
        self.origin.stop()


def setup(ctx):
    return Env(ctx)


def teardown(env):
    env.close()


def execute(env, sc):
    r = Result()
    ns = env.ns()
    hostport = "127.0.0.1:%d" % env.origin.port
    creds = sc["creds"]
    r.sub_evaluations = len(creds)
    start = env.stub.position()
    with env.lock:
        env.verdicts = dict((("%s.%d." % (ns, i)).encode(), c["verdict"]) for i, c in enumerate(creds))
    conn = None
    sent = []
    try:
        for i, c in enumerate(creds):
            user = "%s.%d.%s" % (ns, i, c["user"])
            clear = (user + ":" + c["password"]).encode("utf-8")
            token = _mangle(base64.b64encode(clear).decode(), c.get("mangle"), c.get("mangle_at", 0))
            hdr = c["scheme"] + " " * c["spaces"] + token
            if conn is None or c["new_conn"]:
                if conn is not None:
                    conn.close()
                conn = client.Conn(env.squid.ports[0], timeout=20)
            conn.send(("GET http://%s/%s-%d HTTP/1.1\r\nHost: %s\r\nProxy-Authorization: %s\r\n\r\n" % (hostport, ns, i, hostport, hdr)).encode("latin-1"))
            m = conn.read_response(b"GET", timeout=20)
            if m is None or m.timed_out:
                r.inconclusive = "client timed out"
                break
            sent.append((i, user.encode("utf-8"), c["password"].encode("utf-8"), m))
            if m.status is None or not m.complete or (m.get("connection") or b"").lower() == b"close":
                conn.close()
                conn = None
    except OSError as e:
        r.inconclusive = "socket error %r" % e
    finally:
        if conn is not None:
            conn.close()
    lookups = env.stub.wait_requests(0, timeout=0, since=start)
    for i, user, password, m in sent:
        tag = ("%s.%d." % (ns, i)).encode()
        mine = [q for q in lookups if urllib.parse.unquote_to_bytes(q.payload.split(b" ")[0]).startswith(tag) or q.payload.startswith(tag)]
        c = creds[i]
        if c.get("mangle"):
            r.label("malformed-token:" + c["mangle"])
            r.nontrivial = True
            if mine:
                r.fail("malformed-base64-token-used-as-credentials:" + c["mangle"],
                       "Proxy-Authorization token mangled by %s (not valid base64); the helper was asked %r" % (c["mangle"], [q.payload for q in mine]))
            elif env.origin.arrivals_for("/%s-%d" % (ns, i)) or m.status == 200:
                r.fail("request-with-malformed-base64-token-forwarded:" + c["mangle"], "status %s" % m.status)
            continue
        if ":" in c["password"]:
            r.label("password-with-colon")
            r.nontrivial = True
        if any(ord(ch) > 127 for ch in c["user"] + c["password"]):
            r.label("non-ascii")
        if password == b"":
            # documented: an empty password is refused without asking the helper
            r.label("empty-password")
            if mine:
                r.label("empty-password-looked-up")
            if env.origin.arrivals_for("/%s-%d" % (ns, i)):
                r.fail("request-with-empty-password-forwarded", "user %r" % user)
            continue
        if not mine:
            r.label("helper-not-asked:%s" % c["scheme"])
            if m.status == 200:
                r.fail("forwarded-without-asking-the-helper", "credentials %r:%r status 200" % (user, password))
            continue
        r.label("helper-asked")
        for q in mine:
            toks = q.payload.split(b" ")
            got_user = urllib.parse.unquote_to_bytes(toks[0])
            got_pass = urllib.parse.unquote_to_bytes(toks[1]) if len(toks) > 1 else None
            if got_user != user or got_pass != password or len(toks) != 2:
                where = "user" if got_user != user else "password"
                last = password.rfind(b":")
                sig = "helper-asked-about-different-%s" % where
                if last >= 0 and got_user == user + b":" + password[:last]:
                    sig = "credentials-split-at-the-last-colon"
                r.fail(sig, "Proxy-Authorization carried base64(%r); expected helper request (%r, %r); helper was asked %r" % (user + b":" + password, user, password, q.payload))
        exp = 200 if c["verdict"] else 407
        if m.status != exp:
            r.label("status-%s-for-verdict-%s" % (m.status, "OK" if c["verdict"] else "ERR"))
    probs = env.squid.health_problems()
    for sig, detail in probs:
        r.fail("memory-safety/liveness:" + sig, detail)
    if probs:
        env.restart()
    return r
