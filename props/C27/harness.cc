// C27 Integer parsing is exact and overflow-safe.
// Domain : numeric strings dense around base^k and the INT64 limits, every base/sign/limit setting.
// Oracle : arbitrary-precision (unsigned __int128 + sticky overflow) reference with strtoll semantics.
#include "squid.h"
#include "HttpHeaderTools.h"
#include "parser/Tokenizer.h"
#include "sbuf/SBuf.h"

#include "verif_pbt.h"

#include <climits>

using u128 = unsigned __int128;

static std::string render(u128 v, int base, bool upper)
{
    if (v == 0) return "0";
    std::string s;
    while (v) {
        const int d = static_cast<int>(v % base);
        s += static_cast<char>(d < 10 ? '0' + d : (upper ? 'A' : 'a') + d - 10);
        v /= base;
    }
    std::reverse(s.begin(), s.end());
    return s;
}

static int digitVal(unsigned char c)
{
    if (c >= '0' && c <= '9') return c - '0';
    if (c >= 'a' && c <= 'z') return c - 'a' + 10;
    if (c >= 'A' && c <= 'Z') return c - 'A' + 10;
    return 99;
}

/// magnitude generator: boundary-dense around base^k and 2^63
static rc::Gen<u128> magnitude(int base)
{
    using namespace rc;
    return gen::exec([base]() -> u128 {
        const int kind = *vp::range<int>(0, 5);
        const int delta = *vp::range<int>(-2 * base - 2, 2 * base + 2);
        u128 v = 0;
        if (kind == 0) { // around base^k
            const int k = *vp::range<int>(0, 30);
            v = 1;
            for (int i = 0; i < k && v < (static_cast<u128>(1) << 100); ++i) v *= base;
        } else if (kind == 1) { // around 2^63
            v = static_cast<u128>(1) << 63;
        } else if (kind == 2) { // around 2^63 * base, / base
            v = (static_cast<u128>(1) << 63);
            if (*gen::arbitrary<bool>()) v *= base; else v /= base;
        } else if (kind == 3) { // around 2^31, 2^32, 2^64
            static const int sh[] = {31, 32, 64, 16, 15};
            v = static_cast<u128>(1) << sh[*vp::range<int>(0, 4)];
        } else { // random digits
            const int n = *vp::range<int>(1, 26);
            for (int i = 0; i < n; ++i) v = v * base + *vp::range<int>(0, base - 1);
            return v;
        }
        if (delta < 0 && v < static_cast<u128>(-delta)) return v;
        return v + delta;
    });
}

static rc::Gen<std::string> tailGen()
{
    using namespace rc;
    return gen::oneOf(gen::just(std::string()),
                      gen::just(std::string()),
                      gen::element(std::string(" "), std::string("x"), std::string("-"), std::string("+1"), std::string("g"), std::string("8"), std::string("9"),
                                   std::string("a"), std::string("F"), std::string("."), std::string(","), std::string("\r\n"), std::string("\x80"), std::string("z9")),
                      vp::bytes(4));
}

// ------------------------------------------------------------------ Tokenizer::int64

struct TokCase {
    std::string input;
    int base = 10;
    bool allowSign = false;
    long long limit = -1; // -1 = npos
};

static std::string showTok(const TokCase &c)
{
    return vp::Writer().s("input", c.input).i("base", c.base).i("allowSign", c.allowSign).i("limit", c.limit).str();
}
static TokCase parseTok(const std::string &t)
{
    vp::Reader r(t);
    TokCase c;
    c.input = r.s("input"); c.base = r.i("base"); c.allowSign = r.i("allowSign"); c.limit = r.i("limit");
    return c;
}

static rc::Gen<TokCase> genTok()
{
    using namespace rc;
    return gen::exec([]() {
        TokCase c;
        c.base = *gen::element(0, 8, 10, 16);
        c.allowSign = *gen::arbitrary<bool>();
        const int digitsBase = c.base ? c.base : *gen::element(8, 10, 16);
        const u128 mag = *magnitude(digitsBase);
        std::string s;
        const int sign = *gen::weightedElement<int>({{4, 0}, {3, 1}, {1, 2}});
        if (sign == 1) s += '-';
        if (sign == 2) s += '+';
        const bool upper = *gen::arbitrary<bool>();
        if (digitsBase == 16 && *vp::range<int>(0, 2) != 0) s += upper ? "0X" : "0x";
        else if (digitsBase == 8 && c.base == 0) s += "0";
        const int zeros = *gen::weightedElement<int>({{6, 0}, {1, 1}, {1, 3}});
        s += std::string(zeros, '0');
        if (*vp::range<int>(0, 19) != 0) s += render(mag, digitsBase, upper);
        s += *tailGen();
        c.input = s;
        const int lk = *vp::range<int>(0, 3);
        if (lk == 0) c.limit = -1;
        else if (lk == 1) c.limit = *vp::range<int>(0, 25);
        else if (lk == 2) c.limit = static_cast<long long>(s.size()) + *vp::range<int>(-3, 2);
        else c.limit = -1;
        if (c.limit < -1) c.limit = 0;
        return c;
    });
}

struct Ref {
    bool ok = false;
    bool alsoOkZeroBeforeX = false; // "0x" without hex digit: failing, or (0, up to the '0'), are both accepted
    int64_t value = 0;
    size_t consumed = 0;
    bool nearLimit = false;
    bool limitCuts = false;
};

static Ref refInt64(const TokCase &c)
{
    Ref r;
    const std::string range = c.limit < 0 ? c.input : c.input.substr(0, static_cast<size_t>(c.limit));
    if (range.empty()) return r;
    size_t i = 0;
    bool neg = false;
    int base = c.base;
    if (c.allowSign) {
        if (range[0] == '-') { neg = true; ++i; }
        else if (range[0] == '+') ++i;
        if (i >= range.size()) return r;
    }
    bool hadPrefix = false;
    if ((base == 0 || base == 16) && range[i] == '0' && i + 1 < range.size() && tolower(static_cast<unsigned char>(range[i + 1])) == 'x') {
        i += 2;
        base = 16;
        hadPrefix = true;
    }
    if (base == 0) base = (i < range.size() && range[i] == '0') ? 8 : 10;
    u128 acc = 0;
    bool over = false;
    size_t nd = 0;
    const size_t start = i;
    while (i < range.size() && digitVal(static_cast<unsigned char>(range[i])) < base) {
        acc = acc * base + digitVal(static_cast<unsigned char>(range[i]));
        if (acc > (static_cast<u128>(1) << 70)) over = true, acc = static_cast<u128>(1) << 70;
        ++i; ++nd;
    }
    (void)start;
    if (!nd) {
        if (hadPrefix) r.alsoOkZeroBeforeX = true;
        return r;
    }
    const u128 lim = neg ? (static_cast<u128>(1) << 63) : ((static_cast<u128>(1) << 63) - 1);
    const u128 diff = acc > lim ? acc - lim : lim - acc;
    r.nearLimit = diff <= static_cast<u128>(2 * base);
    r.limitCuts = c.limit >= 0 && static_cast<size_t>(c.limit) < c.input.size() && i == range.size() &&
                  digitVal(static_cast<unsigned char>(c.input[i])) < base;
    if (over || acc > lim) return r;
    r.ok = true;
    r.value = neg ? static_cast<int64_t>(-static_cast<__int128>(acc)) : static_cast<int64_t>(acc);
    r.consumed = i;
    return r;
}

static vp::Verdict checkTok(const TokCase &c, vp::Ctx &ctx)
{
    const Ref ref = refInt64(c);
    const SBuf in(c.input.data(), c.input.size());
    Parser::Tokenizer tok(in);
    int64_t result = 0x5a5a5a5a5a5a5a5aLL;
    const SBuf::size_type lim = c.limit < 0 ? SBuf::npos : static_cast<SBuf::size_type>(c.limit);
    const bool ok = tok.int64(result, c.base, c.allowSign, lim);
    const SBuf rest = tok.remaining();
    const std::string restS(rest.rawContent(), rest.length());

    if (ref.nearLimit || ref.limitCuts) ctx.nontrivial();
    ctx.label(ref.ok ? "ref-accepts" : "ref-rejects");
    if (ref.nearLimit) ctx.label("near-int64-limit");
    if (ref.limitCuts) ctx.label("limit-cuts-digit-run");
    if (c.base == 0) ctx.label("base0");

    if (ref.alsoOkZeroBeforeX) {
        ctx.label("hex-prefix-without-digits");
        if (!ok) {
            if (restS != c.input) return vp::fail("tok:failure-consumed-input");
            return vp::pass();
        }
        // strtoll would return 0 and consume through the '0'
        const size_t zeroEnd = c.input.size() - restS.size();
        if (result != 0 || zeroEnd == 0 || c.input[zeroEnd - 1] != '0') return vp::fail("tok:hex-prefix-without-digits-bogus-value");
        return vp::pass();
    }
    if (ok != ref.ok)
        return vp::fail(ok ? "tok:accepted-unrepresentable-or-digitless" : "tok:rejected-representable", "ref.ok=" + std::to_string(ref.ok));
    if (!ok) {
        if (restS != c.input) return vp::fail("tok:failure-consumed-input");
        return vp::pass();
    }
    if (result != ref.value)
        return vp::fail("tok:wrong-value", "got " + std::to_string(result) + " want " + std::to_string(ref.value));
    if (restS != c.input.substr(ref.consumed))
        return vp::fail("tok:wrong-consumed-length", "consumed " + std::to_string(c.input.size() - restS.size()) + " want " + std::to_string(ref.consumed));
    if (tok.parsedSize() != ref.consumed) return vp::fail("tok:parsedSize-mismatch");
    return vp::pass();
}

// ------------------------------------------------------------------ C-string parsers

struct StrCase { std::string input; };
static std::string showStr(const StrCase &c) { return vp::Writer().s("input", c.input).str(); }
static StrCase parseStr(const std::string &t) { vp::Reader r(t); StrCase c; c.input = r.s("input"); return c; }

static rc::Gen<StrCase> genStr()
{
    using namespace rc;
    return gen::exec([]() {
        StrCase c;
        std::string s;
        const int ws = *gen::weightedElement<int>({{8, 0}, {1, 1}, {1, 2}});
        for (int i = 0; i < ws; ++i) s += *gen::element(' ', '\t', '\n', '\v', '\f', '\r');
        const int sign = *gen::weightedElement<int>({{4, 0}, {3, 1}, {1, 2}});
        if (sign == 1) s += '-';
        if (sign == 2) s += '+';
        const int zeros = *gen::weightedElement<int>({{6, 0}, {1, 1}, {1, 3}});
        s += std::string(zeros, '0');
        if (*vp::range<int>(0, 19) != 0) s += render(*magnitude(10), 10, false);
        s += *tailGen();
        s.erase(std::remove(s.begin(), s.end(), '\0'), s.end());
        c.input = s;
        return c;
    });
}

struct RefDec {
    bool digits = false;
    bool over64 = false, overInt = false;
    __int128 value = 0;
    size_t end = 0;      // index after the digits
    size_t firstNonWs = 0;
    bool near64 = false, near32 = false;
};

static RefDec refDec(const std::string &s)
{
    RefDec r;
    size_t i = 0;
    while (i < s.size() && (s[i] == ' ' || (s[i] >= '\t' && s[i] <= '\r'))) ++i;
    r.firstNonWs = i;
    bool neg = false;
    if (i < s.size() && (s[i] == '-' || s[i] == '+')) { neg = s[i] == '-'; ++i; }
    u128 acc = 0;
    bool sat = false;
    size_t nd = 0;
    while (i < s.size() && s[i] >= '0' && s[i] <= '9') {
        acc = acc * 10 + (s[i] - '0');
        if (acc > (static_cast<u128>(1) << 70)) sat = true, acc = static_cast<u128>(1) << 70;
        ++i; ++nd;
    }
    if (!nd) return r;
    r.digits = true;
    r.end = i;
    const u128 lim64 = neg ? (static_cast<u128>(1) << 63) : ((static_cast<u128>(1) << 63) - 1);
    const u128 lim32 = neg ? (static_cast<u128>(1) << 31) : ((static_cast<u128>(1) << 31) - 1);
    r.over64 = sat || acc > lim64;
    r.overInt = sat || acc > lim32;
    r.near64 = (acc > lim64 ? acc - lim64 : lim64 - acc) <= 20;
    r.near32 = (acc > lim32 ? acc - lim32 : lim32 - acc) <= 20;
    r.value = neg ? -static_cast<__int128>(acc) : static_cast<__int128>(acc);
    return r;
}

static vp::Verdict checkOffset(const StrCase &c, vp::Ctx &ctx)
{
    const RefDec ref = refDec(c.input);
    int64_t value = 0x5a5a5a5a5a5a5a5aLL;
    char *end = nullptr;
    const bool ok = httpHeaderParseOffset(c.input.c_str(), &value, &end);
    if (ref.near64) { ctx.nontrivial(); ctx.label("near-int64-limit"); }
    const bool want = ref.digits && !ref.over64;
    ctx.label(want ? "ref-accepts" : "ref-rejects");
    if (ok != want) return vp::fail(ok ? "offset:accepted-unrepresentable-or-digitless" : "offset:rejected-representable");
    if (!ok) return vp::pass();
    if (static_cast<__int128>(value) != ref.value) return vp::fail("offset:wrong-value", std::to_string(value));
    if (static_cast<size_t>(end - c.input.c_str()) != ref.end) return vp::fail("offset:wrong-consumed-length");
    return vp::pass();
}

static vp::Verdict checkInt(const StrCase &c, vp::Ctx &ctx)
{
    const RefDec ref = refDec(c.input);
    int value = 0x5a5a5a5a;
    const bool ok = httpHeaderParseInt(c.input.c_str(), &value) != 0;
    if (ref.near32 || ref.near64) { ctx.nontrivial(); ctx.label("near-int-limit"); }
    if (ok) {
        // success => exact value of the digits, which must fit an int
        if (!ref.digits) return vp::fail("int:accepted-digitless");
        if (ref.overInt) return vp::fail("int:accepted-out-of-range-value", "input " + vp::esc(c.input) + " gave " + std::to_string(value));
        if (static_cast<__int128>(value) != ref.value) return vp::fail("int:wrong-value", std::to_string(value));
        ctx.label("accepted");
        return vp::pass();
    }
    ctx.label("rejected");
    // digits first, in range => must be accepted (leading sign/whitespace before a zero is left open: counted, not judged)
    const bool digitFirst = !c.input.empty() && c.input[0] >= '0' && c.input[0] <= '9';
    if (ref.digits && !ref.overInt && digitFirst) return vp::fail("int:rejected-representable");
    if (ref.digits && !ref.overInt) ctx.excluded("in-range number after sign/whitespace rejected (left open by the statement)");
    return vp::pass();
}

#ifdef VP_FUZZ
static TokCase fuzzTok(FuzzedDataProvider &fdp)
{
    TokCase c;
    static const int bases[] = {0, 8, 10, 16};
    c.base = bases[fdp.ConsumeIntegralInRange<int>(0, 3)];
    c.allowSign = fdp.ConsumeBool();
    c.limit = fdp.ConsumeIntegralInRange<int>(-1, 30);
    c.input = fdp.ConsumeRemainingBytesAsString();
    return c;
}
#else
static std::function<TokCase(FuzzedDataProvider &)> fuzzTok = nullptr;
#endif

static void registerAll()
{
    vp::add<TokCase>("tokenizer_int64", genTok(), checkTok, showTok, parseTok, 2.0, fuzzTok);
    vp::add<StrCase>("httpHeaderParseOffset", genStr(), checkOffset, showStr, parseStr, 1.0);
    vp::add<StrCase>("httpHeaderParseInt", genStr(), checkInt, showStr, parseStr, 1.0);
}

VP_MAIN(registerAll)
