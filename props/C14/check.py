"""C14 Conditional requests are answered according to their validators (RFC 9110 section 13); 304 revalidation updates headers."""
import calendar
import time

from hypothesis import strategies as st

from vlib.e2e import httpref
from vlib.e2e.cachekit import fetch_url, usable
from vlib.e2e.env import ProxyEnv
from vlib.e2e.origin import http_date
from vlib.e2e_runner import Result

DAY = 86400
# members of If-None-Match / If-Match lists; {cur}/{old}/{new} are replaced by the opaque tag text of a version
TAG_ATOMS = ['"{cur}"', 'W/"{cur}"', '"{other}"', 'W/"{other}"', '"zz"', 'W/"zz"', "*", "{cur}", "W/{cur}", "abc", '""', '"{cur}x"', '"x{cur}"', '"{CUR}"']


def strategy(tp):
    taglist = st.one_of(st.none(), st.lists(st.sampled_from(TAG_ATOMS), min_size=1, max_size=3))
    step = st.fixed_dictionaries({
        "cc": st.sampled_from([None, None, None, "max-age=0"]),
        "advance": st.sampled_from([0, 0, 0, 200]),
        "origin_change": st.sampled_from([False, False, False, True]),
        "inm": taglist,
        "if_match": st.one_of(st.none(), st.none(), taglist),
        "sep": st.sampled_from([", ", ",", " , "]),
        "ims": st.sampled_from([None, None, "before", "equal", "after", "equal-v2", "now", "garbage", "bad-day", "rfc850-equal", "asctime-equal", "rfc850-before"]),
        "plain_after": st.booleans(),        # a plain GET after this step (checks what a later hit carries)
    })
    return st.fixed_dictionaries({
        "etag": st.sampled_from(["strong", "strong", "weak", "none", "comma"]),
        "lm": st.sampled_from([True, True, False]),
        "cached": st.sampled_from([True, True, True, False]),
        "lifetime": st.sampled_from([60, 3600, 3600]),
        "body_len": st.sampled_from([10, 3000, 20000]),
        "steps": st.lists(step, min_size=1, max_size=3),
    })


def setup(ctx):
    return ProxyEnv(ctx, cache_mem="64 MB")


def teardown(env):
    env.close()


# ------------------------------------------------------------------ reference model (RFC 9110 8.8.3, 13.1, 13.2.2)
def opaque(kind, ver):
    return ("a,b%d" if kind == "comma" else "v%d") % ver


def etag_of(kind, ver):
    """-> (weak, opaque) or None"""
    if kind == "none":
        return None
    return (kind == "weak", opaque(kind, ver))


def etag_text(t):
    return None if t is None else ('W/"%s"' % t[1] if t[0] else '"%s"' % t[1])


def parse_tag(s):
    """entity-tag = [ weak ] DQUOTE *etagc DQUOTE -> (weak, opaque) or None"""
    weak = s.startswith("W/")
    if weak:
        s = s[2:]
    if len(s) >= 2 and s[0] == '"' and s[-1] == '"' and '"' not in s[1:-1]:
        return (weak, s[1:-1])
    return None


def members(values, cur, other):
    return [a.replace("{cur}", cur).replace("{CUR}", cur.upper()).replace("{other}", other) for a in values]


def list_matches(mem, rep_tag, weak_ok):
    """does a list of If-(None-)Match members select the representation with entity-tag rep_tag (None = no ETag)?"""
    for x in mem:
        if x == "*":
            return True         # any current representation exists
        t = parse_tag(x)
        if t is None or rep_tag is None:
            continue
        if t[1] == rep_tag[1] and (weak_ok or (not t[0] and not rep_tag[0])):
            return True
    return False


def parse_http_date(s):
    """valid HTTP-date (IMF-fixdate, rfc850, asctime) -> epoch seconds, else None.  Only the exact forms the generator emits are valid."""
    for fmt in ("%a, %d %b %Y %H:%M:%S GMT", "%A, %d-%b-%y %H:%M:%S GMT", "%a %b %d %H:%M:%S %Y"):
        try:
            return calendar.timegm(time.strptime(s, fmt))
        except ValueError:
            pass
    return None


def evaluate(req, rep_tag, rep_lm):
    """-> (expected class, reason): '412' | '304' | '200' | 'open' (200 or 304 both acceptable)"""
    if req["if_match"] is not None and not list_matches(req["if_match"], rep_tag, False):
        return "412", "if-match-fails"
    if req["inm"] is not None:
        if list_matches(req["inm"], rep_tag, True):
            return "304", "inm-matches"
        return "200", "inm-no-match"
    if req["ims"] is not None:
        t = parse_http_date(req["ims"])
        if t is None:
            return "200", "ims-invalid-date"
        if rep_lm is None:
            return "open", "ims-without-last-modified"      # RFC 9111 4.3.2: may compare with Date / time received
        if rep_lm <= t:
            return "304", "ims-not-earlier-than-last-modified"
        return "200", "ims-earlier-than-last-modified"
    return "200", "unconditional"


def execute(env, sc):
    r = Result()
    path = "/" + env.ns()
    url = env.url(path)
    T0 = int(env.clock.now())
    LM = {1: T0 - 3 * DAY, 2: T0 - 1 * DAY}      # LM[2] is reset to the (proxy clock) time at which the origin switches to version 2
    kind = sc["etag"]
    st_ = {"version": 1, "gen": 0, "lifetime": sc["lifetime"], "foreign304": False}
    log = []          # origin responses: (gen, version, status)

    def rep(ver):
        return etag_of(kind, ver), (LM[ver] if sc["lm"] else None)

    def beh(arr):
        ver = st_["version"]
        tag, lm = rep(ver)
        q = {"if_match": None, "inm": None, "ims": None}
        for name, key in (("if-match", "if_match"), ("if-none-match", "inm")):
            vals = arr.msg.get_all(name)
            if vals:
                q[key] = _split_tags(",".join(v.decode("latin-1") for v in vals))
        ims = arr.msg.get("if-modified-since")
        if ims is not None:
            q["ims"] = ims.decode("latin-1").strip()
        want, _why = evaluate(q, tag, lm)
        if want == "open":
            want = "200"
        st_["gen"] += 1
        gen = st_["gen"]
        hs = [["Cache-Control", "max-age=%d" % st_["lifetime"]], ["X-Gen", str(gen)], ["X-Added-By-Gen-%d" % gen, "1"]]
        st_["lifetime"] = 3600          # whatever is (re)validated from now on stays fresh for the rest of the case
        if tag is not None:
            hs.append(["ETag", etag_text(tag)])
        if lm is not None:
            hs.append(["Last-Modified", http_date(lm)])
        if want == "412":
            log.append((gen, ver, 412))
            return {"status": 412, "reason": "Precondition Failed", "headers": [["X-Gen", str(gen)]], "body_b64": ""}
        if want == "304":
            held = set(v for (_, v, s) in log if s == 200)
            if held and ver not in held:
                # the origin confirms (to a client-supplied validator the proxy forwarded) a version the proxy never received
                st_["foreign304"] = True
            log.append((gen, ver, 304))
            return {"status": 304, "reason": "Not Modified", "headers": hs, "framing": "none"}
        log.append((gen, ver, 200))
        return {"status": 200, "headers": hs + [["X-Version", str(ver)]], "body_tag": "%s#%d" % (path, ver), "body_len": sc["body_len"]}

    def fail(sig, detail):
        if st_["foreign304"]:
            # everything that goes wrong after the proxy took an origin 304 for a version it does not hold as validation of its own
            # (older) entry is one defect: one signature, the specific symptom goes into the detail
            r.fail("stale-entry-validated-by-origin-304-for-client-supplied-validator", "[%s] %s" % (sig, detail))
        else:
            r.fail(sig, detail)

    env.origin.script(path, beh)
    body = {v: httpref.keyed_stream("%s#%d" % (path, v), sc["body_len"]) for v in (1, 2)}
    offset = env.clock.offset

    def judge_200(m, candidates, what):
        """a 200 must be one complete current representation"""
        for v in candidates:
            if m.body == body[v]:
                tag = etag_text(etag_of(kind, v))
                got = m.get("etag")
                if (tag or None) != (got.decode("latin-1") if got is not None else None):
                    fail("200-carries-etag-of-another-version", "%s: body of version %d with ETag %r" % (what, v, got))
                return v
        fail("200-body-is-not-a-current-version", "%s: %d body bytes match none of the versions %r" % (what, len(m.body), sorted(candidates)))
        return None

    def plain_get(what, cc=None):
        before = len(log)
        m = fetch_url(env, url, [("Cache-Control", cc)] if cc else [])
        if not usable(m, r):
            return None
        arrived = len(log) > before
        if m.status != 200 or m.has("x-squid-error") or not m.complete:
            r.label("plain-get-not-200:%s" % m.status)
            return m
        cands = {log[-1][1]} if arrived else set(v for (_, v, s) in log if s == 200)
        judge_200(m, cands, what)
        if not arrived and log:
            # a later hit: must carry the headers of the most recent origin 200/304 for this entry
            newest, _nv, nstatus = [e for e in log if e[2] in (200, 304)][-1]
            got = m.get("x-gen")
            r.label("hit-after-304" if nstatus == 304 else "hit-after-200")
            if got is None or got.decode("latin-1") != str(newest):
                fail("hit-after-304-has-stale-headers" if nstatus == 304 else "hit-carries-headers-of-an-older-response",
                       "%s: served from cache with X-Gen %r; the newest origin response for the entry was generation %d (origin log (gen, version, status): %r)" % (what, got, newest, log))
            elif nstatus == 304:
                if not m.has("x-added-by-gen-%d" % newest):
                    fail("hit-after-304-lacks-header-added-by-the-304", "%s: X-Added-By-Gen-%d is missing" % (what, newest))
                else:
                    r.label("304-update-verified-on-later-hit")
                    r.nontrivial = True
        return m

    if sc["cached"]:
        if plain_get("initial GET") is None:
            env.health(r)
            return r
    r.sub_evaluations = 0
    for i, stp in enumerate(sc["steps"]):
        if stp["advance"]:
            offset += stp["advance"]
            env.squid.set_clock(offset)
        if stp["origin_change"] and st_["version"] == 1:
            # the new version is modified "now", later than anything the proxy fetched before (2 s apart: HTTP dates have 1 s resolution)
            offset += 2
            env.squid.set_clock(offset)
            LM[2] = int(env.clock.now())
            offset += 2
            env.squid.set_clock(offset)
            st_["version"] = 2
        cur = st_["version"]
        # candidate representations "that would otherwise be sent": decided after the request (arrival => origin's current one)
        hdrs = []
        q = {"if_match": None, "inm": None, "ims": None}
        # tags are written relative to the version cached/current before the request ({cur}) and the other one
        cached_versions = sorted(set(v for (_, v, s) in log if s == 200))
        ref_ver = cached_versions[-1] if cached_versions else cur
        cur_op, other_op = opaque(kind, ref_ver), opaque(kind, 3 - ref_ver)
        if stp["if_match"] is not None:
            q["if_match"] = members(stp["if_match"], cur_op, other_op)
            hdrs.append(("If-Match", stp["sep"].join(q["if_match"])))
        if stp["inm"] is not None:
            q["inm"] = members(stp["inm"], cur_op, other_op)
            hdrs.append(("If-None-Match", stp["sep"].join(q["inm"])))
        if stp["ims"] is not None:
            base = LM[ref_ver]
            k = stp["ims"]
            txt = {"before": http_date(base - DAY), "equal": http_date(base), "after": http_date(base + DAY // 2), "equal-v2": http_date(LM[2]), "now": http_date(T0),
                   "garbage": "garbage", "bad-day": "Thu, 32 Foo 2026 99:99:99 GMT",
                   "rfc850-equal": time.strftime("%A, %d-%b-%y %H:%M:%S GMT", time.gmtime(base)),
                   "asctime-equal": _asctime(base),
                   "rfc850-before": time.strftime("%A, %d-%b-%y %H:%M:%S GMT", time.gmtime(base - DAY))}[k]
            q["ims"] = txt
            hdrs.append(("If-Modified-Since", txt))
        if stp["cc"]:
            hdrs.append(("Cache-Control", stp["cc"]))
        before = len(log)
        m = fetch_url(env, url, hdrs)
        if not usable(m, r):
            break
        arrived = len(log) > before
        if m.has("x-squid-error") and m.status != 412:
            r.label("proxy-error-page:%s" % m.status)
            break
        if not m.complete:
            r.label("incomplete-delivery")
            break
        conditional = any(q[k] is not None for k in q)
        if arrived:
            cands = {log[-1][1]}
        else:
            cands = set(v for (_, v, s) in log if s == 200)
        if not cands:
            cands = {cur}
        what = "step %d (%s%s) %r" % (i, "arrival" if arrived else "no arrival", ", stale" if stp["advance"] else "", hdrs)
        r.sub_evaluations += 1
        verdicts = {}
        for v in cands:
            tag, lm = rep(v)
            qq = q
            verdicts[v] = evaluate(qq, tag, lm)
        wants = set(w for (w, _) in verdicts.values())
        why = "/".join(sorted(set(y for (_, y) in verdicts.values())))
        r.label("%s:%s:%s" % ("arrival" if arrived else "cache", why, m.status))
        if m.status == 412:
            if "412" not in wants:
                fail("412-although-if-match-does-not-fail:" + why, "%s -> 412" % what)
        elif "412" in wants and len(wants) == 1:
            fail("if-match-fails-but-no-412:%d" % m.status, "%s -> %d; representation %s" % (what, m.status, [etag_text(rep(v)[0]) for v in cands]))
        elif m.status == 304:
            if not (wants & {"304", "open"}):
                fail("304-without-matching-validator:" + why, "%s -> 304; representation(s) %s Last-Modified %s" % (
                    what, [etag_text(rep(v)[0]) for v in cands], [rep(v)[1] and http_date(rep(v)[1]) for v in cands]))
            elif m.body:
                fail("304-with-body", "%s: %d body bytes" % (what, len(m.body)))
        elif m.status == 200:
            judge_200(m, cands, what)
            if conditional and not arrived and "200" in wants:
                r.nontrivial = True          # cached entry + conditional that does not match: full response with exact body
        else:
            r.label("other-status:%d" % m.status)
        if conditional and kind in ("weak",) and (q["inm"] or q["if_match"]):
            r.label("weak-etag-conditional")
        if stp["plain_after"]:
            if plain_get("plain GET after step %d" % i) is None:
                break
    r.sub_evaluations = max(1, r.sub_evaluations)
    env.health(r)
    return r


def _asctime(t):
    g = time.gmtime(t)
    return time.strftime("%a %b ", g) + "%2d" % g.tm_mday + time.strftime(" %H:%M:%S %Y", g)


def _split_tags(s):
    """split a comma-separated list of entity-tags whose opaque text may contain commas (quoted)"""
    out, cur, inq = [], "", False
    for c in s:
        if c == '"':
            inq = not inq
        if c == "," and not inq:
            if cur.strip():
                out.append(cur.strip())
            cur = ""
        else:
            cur += c
    if cur.strip():
        out.append(cur.strip())
    return out
