"""C01 Response bodies are relayed byte-exactly with correct framing."""
import base64

from hypothesis import strategies as st

from vlib.e2e import client, dnsstub, httpref, origin as originmod
from vlib.e2e.env import ProxyEnv
from vlib.e2e_runner import Result

BOUNDARY_LENGTHS = [0, 1, 2, 100, 4095, 4096, 4097, 8191, 8192, 8193, 16383, 16384, 16385, 32767, 32768, 32769, 65535, 65536, 65537,
                    131072, 262143, 262144, 262145, 524287, 524288, 524289]
STATUSES = [200, 200, 200, 203, 206, 300, 301, 302, 404, 410, 500, 502, 503]


def strategy(tp):
    max_len = int(tp.get("max_body", 300000))
    lengths = st.one_of(st.sampled_from([l for l in BOUNDARY_LENGTHS if l <= max_len]), st.integers(0, max_len), st.integers(0, 3000))
    seg = st.one_of(st.integers(1, 40), st.integers(1, 600), st.integers(1, 70000))
    abort = st.one_of(st.just(["none"]), st.just(["none"]), st.tuples(st.just("permille"), st.integers(0, 999)).map(list),
                      st.tuples(st.just("from_end"), st.integers(1, 12)).map(list), st.tuples(st.just("abs"), st.integers(0, 400)).map(list))
    return st.fixed_dictionaries({
        "status": st.one_of(st.sampled_from(STATUSES), st.integers(200, 599).filter(lambda s: s not in (204, 205, 304, 401, 407, 417, 305))),
        "framing": st.sampled_from(["length", "chunked", "close", "close10"]),
        "body_len": lengths,
        "chunks": st.lists(st.one_of(st.integers(1, 20), st.integers(1, 5000), st.sampled_from([4096, 65536, 70000])), min_size=0, max_size=6),
        "chunk_ext": st.lists(st.sampled_from(["", ";a", ";a=b", ";a=\"q\\\"x\"", " ;a=b"]), min_size=0, max_size=2),
        "trailers": st.booleans(),
        "segments": st.lists(seg, min_size=0, max_size=10),
        "pauses": st.lists(st.sampled_from([0, 0, 1, 3, 10]), min_size=0, max_size=10),
        "abort": abort,
        "abort_rst": st.booleans(),
        "cacheable": st.booleans(),
        "client_version": st.sampled_from(["1.1", "1.1", "1.0"]),
        "client_close": st.booleans(),
        "second": st.booleans(),
        # the response under test is the one of a *second* forwarding attempt: the host name resolves to two addresses and the
        # first one answers with a complete re-forwardable error, which Squid drops before it tries the next address
        "retry_first": st.sampled_from([None, None, None, 502, 504]),
    })


def setup(ctx):
    w = ctx.worker
    dns_addr = "127.0.54.%d" % (10 + w)
    dns = dnsstub.DnsStub(dns_addr)
    env = ProxyEnv(ctx, conf="maximum_object_size 8 MB\nread_timeout 20 seconds\n", cache_mem="64 MB", dns=dns_addr)
    env.dns = dns
    env.front = None
    try:
        # same port on another loopback address: the destination Squid tries first when "retry_first" is set
        env.front = originmod.Origin(env.clock, host="127.0.3.%d" % (10 + w), port=env.origin.port)
    except OSError:
        pass
    return env


def teardown(env):
    env.dns.stop()
    if env.front:
        env.front.stop()
    env.close()


def _fetch(env, path, sc, r, which, hostport=None):
    c = client.Conn(env.port, timeout=15)
    try:
        ver = "HTTP/" + sc["client_version"]
        hdrs = "Host: %s\r\n" % (hostport or "127.0.0.1:%d" % env.origin.port)
        if sc["client_close"]:
            hdrs += "Connection: close\r\n"
        elif sc["client_version"] == "1.0":
            hdrs += "Connection: keep-alive\r\n"
        url = ("http://%s%s" % (hostport, path)) if hostport else env.url(path)
        c.send(("GET %s %s\r\n%s\r\n" % (url, ver, hdrs)).encode())
        m = c.read_response(b"GET", timeout=15)
        return m
    finally:
        c.close()


def _judge(env, sc, m, full_body, origin_cut, r, which):
    if m is None or getattr(m, "timed_out", False):
        r.inconclusive = "client timed out waiting for the response"
        return
    if getattr(m, "bad", False):
        r.fail("client-message-malformed", "%s: %s" % (which, m.anomalies))
        return
    for a in m.anomalies:
        if a in ("both-CL-and-TE", "multiple-CL-fields", "TE-not-exactly-chunked", "TE-without-final-chunked", "chunk-size-line-without-CR",
                 "chunk-data-LF-only", "invalid-CL", "obs-fold", "whitespace-before-colon", "bad-field-name", "field-line-without-colon"):
            r.fail("client-message-grammar:" + a, which)
    if m.status is None:
        # connection closed without a response head: visible failure
        r.label("no-response-head")
        return
    if m.has("x-squid-error"):
        r.label("squid-error-page")
        return
    # (a) whatever arrived is a prefix of the origin's body
    if full_body[:len(m.body)] != m.body:
        r.fail("body-not-a-prefix-of-origin-body", "%s: got %d bytes, first difference at %d" % (
            which, len(m.body), next((i for i in range(min(len(m.body), len(full_body))) if m.body[i] != full_body[i]), min(len(m.body), len(full_body)))))
        return
    if m.complete:
        r.label("client-complete-" + m.framing)
        if m.framing == "close":
            # truncation cannot be signalled to this client (no length, no chunking); only the prefix rule applies
            r.label("client-close-delimited")
            if not origin_cut and sc["framing"] in ("length", "chunked") and m.body != full_body:
                # origin delivered everything with a self-delimiting framing; a short close-delimited copy is still a visible... not decidable by the client
                r.label("short-close-delimited-copy")
            return
        if m.status != sc["status"]:
            r.fail("status-altered", "%s: origin %d client %d" % (which, sc["status"], m.status))
        if m.body != full_body and origin_cut == "close-delimited":
            r.label("cut-close-delimited-origin-relayed-as-complete")  # indistinguishable for everybody: only the prefix rule applies
        elif m.body != full_body:
            r.fail("short-or-altered-body-presented-as-complete", "%s: origin body %d bytes (origin cut short: %s), client saw a complete %s-framed message of %d bytes" % (
                which, len(full_body), origin_cut, m.framing, len(m.body)))
        elif origin_cut == "self-delimiting":
            r.fail("complete-message-although-origin-was-cut-short", which)
    else:
        r.label("client-truncated")
        if not origin_cut:
            r.label("truncated-although-origin-complete")  # allowed (Squid may fail), counted


def execute(env, sc):
    r = Result()
    ns = env.ns()
    path = "/" + ns
    body = httpref.keyed_stream(path, sc["body_len"])
    framing = sc["framing"]
    beh = {"status": sc["status"], "reason": "Whatever", "framing": "close" if framing == "close10" else framing,
           "version": "HTTP/1.0" if framing == "close10" else "HTTP/1.1",
           "body_tag": path, "body_len": sc["body_len"], "chunks": sc["chunks"], "chunk_ext": sc["chunk_ext"],
           "trailers": [["X-Trailer", "t"]] if sc["trailers"] else [],
           "segments": sc["segments"], "pause_ms": sc["pauses"],
           "headers": [["Cache-Control", "max-age=3600" if sc["cacheable"] else "no-store"], ["X-Tag", ns]]}
    head, enc = originmod.serialize_response(beh, env.clock)
    total = len(head) + len(enc)
    ab = sc["abort"]
    origin_cut = False
    if ab[0] != "none":
        if ab[0] == "permille":
            k = total * ab[1] // 1000
        elif ab[0] == "from_end":
            k = max(0, total - ab[1])
        else:
            k = min(ab[1], total)
        if k < total:
            beh["abort_after"] = k
            beh["abort_rst"] = sc["abort_rst"]
            origin_cut = "self-delimiting" if beh["framing"] in ("length", "chunked") else "close-delimited"
            if sc["abort_rst"]:
                r.label("origin-rst")
            r.label("origin-abort-in-head" if k < len(head) else "origin-abort-in-body")
    env.origin.script(path, beh)
    hostport = None
    if sc.get("retry_first") and env.front:
        name = "retry-%s.c01.test" % ns.replace("_", "-")
        env.dns.set(name, [env.front.host, "127.0.0.1"])
        hostport = "%s:%d" % (name, env.origin.port)
        env.front.script(path, {"status": sc["retry_first"], "reason": "Try The Next One", "framing": "length", "body_b64": base64.b64encode(b"front says no\n").decode(),
                                "headers": [["Cache-Control", "no-store"], ["X-Tag", "front-" + ns]]})
        r.label("retry-first-%d" % sc["retry_first"])
    split_in_head = bool(sc["segments"]) and sc["segments"][0] < len(head)
    if sc["body_len"] > 4096 or split_in_head or origin_cut:
        r.nontrivial = True
    r.label("origin-" + framing)
    m = _fetch(env, path, sc, r, "first", hostport)
    if hostport and env.origin.arrival_count(path) == 0:
        # Squid did not go on to the second address (it may relay the first destination's error): nothing of the
        # response under test reached the proxy, so there is nothing to judge
        r.label("retry-first-not-reforwarded")
        env.health(r)
        return r
    if hostport:
        r.label("retry-first-reforwarded")
    _judge(env, sc, m, body, origin_cut, r, "first request")
    if sc["second"] and not r.violations and not r.inconclusive:
        arrivals_before = env.origin.arrival_count(path)
        m2 = _fetch(env, path, sc, r, "second", hostport)
        hit = env.origin.arrival_count(path) == arrivals_before
        r.label("second-hit" if hit else "second-miss")
        r.sub_evaluations += 1
        # a hit is served from what was stored: an origin cut on the first exchange must not be laundered into a complete message
        _judge(env, sc, m2, body, origin_cut if not hit or origin_cut else False, r, "second request (%s)" % ("hit" if hit else "miss"))
    env.health(r)
    return r
