"""C57 Rock rebuild indexes only intact entries from any disk image.

A valid rock db (slot-size 4096, entries of 1-6 slots, several URLs, two versions of some) is produced by the
proxy itself and kept per worker; each scenario copies it, mutates the copy struct-aware (slot header fields
set to other slots' values / boundaries / self links / cycles; slots duplicated, swapped, zeroed; file truncated;
db header overwritten) without ever changing a payload byte, and starts a fresh proxy on it.
Oracle: the proxy starts and finishes rebuilding (ASan/assert/liveness oracle; deadline misses are inconclusive);
every only-if-cached 200 -- before and after further stores that reuse whatever the rebuild declared free --
is byte-identical to a version the origin had served completely for that URL.
"""
import fcntl
import json
import os
import subprocess
import time

from hypothesis import strategies as st

from vlib.common import RUN
from vlib.e2e import diskstore as ds
from vlib.e2e import httpref, rockdb
from vlib.e2e_runner import Result

ROCK = "rock {run}/rock 8 slot-size=4096 max-size=1048576"
SLOT = 4096
PAYLOAD = SLOT - rockdb.CELL_SIZE

# the base image: (size of version 1, size of version 2 or -1) per URL
BASE = [
    [100, -1], [5000, -1], [9000, 9000], [20000, -1], [3700, 3700], [12000, 5000],
    [4000, 4000], [4000, 4000], [8000, -1], [8000, -1], [8000, 8000], [300, -1], [16000, 16000],
    [24000, -1], [100, 100], [100, -1], [7000, 9000], [3710, -1], [3720, -1],
]
BASES = [BASE]
FIELDS = ["next", "first", "key", "version", "payload_size", "entry_size"]


def strategy(tp):
    field = st.fixed_dictionaries({
        "kind": st.just("field"), "a": st.integers(0, 95), "field": st.sampled_from(FIELDS),
        "src": st.sampled_from(["slot", "slot", "const"]), "b": st.integers(0, 95), "c": st.integers(0, 11)})
    dup = st.fixed_dictionaries({"kind": st.just("dup"), "a": st.integers(0, 95), "to": st.sampled_from(["used", "free"]), "b": st.integers(0, 95),
                                 "fix_first": st.booleans()})
    swap = st.fixed_dictionaries({"kind": st.just("swap"), "a": st.integers(0, 95), "b": st.integers(0, 95)})
    zero = st.fixed_dictionaries({"kind": st.just("zero"), "a": st.integers(0, 95), "what": st.sampled_from(["header", "slot"])})
    trunc = st.fixed_dictionaries({"kind": st.just("truncate"), "a": st.integers(0, 95), "off": st.sampled_from([0, 1, 39, 40, 41, 2000, 4095])})
    hdr = st.fixed_dictionaries({"kind": st.just("dbheader"), "fill": st.sampled_from([0, 255, 90]), "n": st.sampled_from([8, 64, 4096, 16384])})
    link = st.fixed_dictionaries({
        "kind": st.just("field"), "a": st.integers(0, 95), "field": st.sampled_from(["next", "first"]),
        "src": st.sampled_from(["slot", "slot", "const"]), "b": st.integers(0, 95), "c": st.integers(0, 11)})
    # chain-link and duplication mutations first and most often: only a few scenarios fit into a quick run
    mut = st.one_of(link, dup, field, swap, link, dup, field, zero, trunc, hdr)
    return st.fixed_dictionaries({
        "base": st.integers(0, len(BASES) - 1),
        "muts": st.lists(mut, min_size=2, max_size=6),
        "new_stores": st.lists(st.sampled_from([100, 5000, 13000, 30000]), min_size=0, max_size=4),
    })


BASE_HOST = "http://c57-base.test"     # store keys of the base URLs must not depend on a worker's origin port


class BaseContent:
    """The URLs/versions of a base image; bodies are keyed streams, so every worker can recompute them."""

    def __init__(self, bi, served):
        self.bi = bi
        self.served = served      # path -> {version(str or int): size}

    def path(self, u):
        return "/c57/b%d/u%d" % (self.bi, u)

    def url(self, u):
        return BASE_HOST + self.path(u)

    def served_versions(self, u):
        return sorted(int(k) for k in self.served.get(self.path(u), {}))

    def size(self, u, v):
        d = self.served[self.path(u)]
        return d[v] if v in d else d[str(v)]

    def body(self, u, v):
        return httpref.keyed_stream("%s#%d" % (self.path(u), v), self.size(u, v))

    def match_version(self, u, body):
        for k in self.served_versions(u):
            if self.body(u, k) == body:
                return k
        return None


def setup(ctx):
    env = ds.DiskEnv(ctx)
    env.bases = {}
    # base images are shared by the workers of one run (built once, under a file lock)
    env.shared = os.path.join(RUN, "C57-shared-%d" % os.getppid())
    os.makedirs(env.shared, exist_ok=True)
    env.user_lock = open(os.path.join(env.shared, "users.lock"), "a")
    fcntl.flock(env.user_lock, fcntl.LOCK_SH)
    return env


def teardown(env):
    try:
        fcntl.flock(env.user_lock, fcntl.LOCK_UN)
        fcntl.flock(env.user_lock, fcntl.LOCK_EX | fcntl.LOCK_NB)     # succeeds only for the last worker
        subprocess.run(["rm", "-rf", env.shared])
    except OSError:
        pass
    env.close()


# ---------------------------------------------------------------------- base image
def _base(env, bi):
    """-> {"dir", "content", "urls"} for BASES[bi], building the image when no worker of this run has done it yet"""
    d = os.path.join(env.shared, "base%d" % bi)
    meta = os.path.join(env.shared, "base%d.json" % bi)
    with open(os.path.join(env.shared, "base%d.lock" % bi), "a") as lk:
        fcntl.flock(lk, fcntl.LOCK_EX)
        if not os.path.exists(meta):
            served = _make_base(env, bi, d)
            if served is None:
                return None
            with open(meta + ".tmp", "w") as f:
                json.dump(served, f)
            os.replace(meta + ".tmp", meta)
    with open(meta) as f:
        served = json.load(f)
    return {"dir": d, "content": BaseContent(bi, served), "urls": len(BASES[bi])}


def _make_base(env, bi, d):
    """Lets the proxy write a valid db for BASES[bi] (its URLs reach this worker's origin stub through a cache_peer);
    copies the rock directory to d.  -> {path: {version: size}} or None"""
    conf = "cache_peer 127.0.0.1 parent %d 0 no-query originserver name=c57origin\nnever_direct allow all\n" % env.origin.port
    sq = env.new_squid(ROCK, conf=conf)
    try:
        if not ds.wait_finished_rebuilding(sq, 90):
            return None
        bc = BaseContent(bi, {})
        port = sq.ports[0]
        clock = 0
        for u, (s1, s2) in enumerate(BASES[bi]):
            path = bc.path(u)
            for k, size in enumerate([s1, s2]):
                if size < 0:
                    continue
                clock += 2
                sq.set_clock(clock)          # the two versions of a URL get different entry timestamps (rock 'version')
                env.origin.script(path, {"status": 200, "headers": [["Cache-Control", "max-age=%d" % ds.MAX_AGE]],
                                         "body_tag": "%s#%d" % (path, k), "body_len": size})
                sw0 = (ds.store_log_state(sq).get(bc.url(u)) or {"swapouts": 0})["swapouts"]
                m = ds.get(env, port, path, [("Cache-Control", "no-cache")] if k else [], url=bc.url(u))
                if not ds.judged(m) or m.status != 200 or not m.complete or m.body != httpref.keyed_stream("%s#%d" % (path, k), size):
                    return None
                if env.origin.arrival_count(path) != k + 1:
                    return None
                bc.served.setdefault(path, {})[str(k)] = size
                if not ds.wait_swapout(sq, bc.url(u), sw0, 5.0):
                    return None
        if sq.stop(60) != 0:
            return None
        subprocess.run(["rm", "-rf", d])
        subprocess.run(["cp", "-a", "--sparse=always", sq.cache_sub, d], check=True)
        return bc.served
    finally:
        env.discard(sq)


# ---------------------------------------------------------------------- mutation
def _const(field, c, t, db, slot):
    n = db.nslots
    if field in ("next", "first"):
        return [-1, 0, t, t + 1, t - 1, n - 1, n, 2 ** 31 - 1, -2, 1, n // 2, -(2 ** 31)][c % 12]
    if field == "key":
        return [b"\0" * 16, b"\xff" * 16, slot.key[:8] + b"\0" * 8, bytes(reversed(slot.key))][c % 4]
    if field == "version":
        return [0, 1, slot.version + 1, slot.version - 1, 2 ** 32 - 1, 2 ** 31][c % 6]
    if field == "payload_size":
        return [0, 1, PAYLOAD, PAYLOAD + 1, SLOT, 2 ** 32 - 1, slot.payload_size + 1, max(0, slot.payload_size - 1)][c % 8]
    return [0, 1, slot.entry_size + 1, max(0, slot.entry_size - 1), 2 ** 64 - 1, 2 ** 63, PAYLOAD, slot.entry_size + PAYLOAD][c % 8]


def mutate(db, muts):
    """Applies the scenario's mutations to a RockDb.  -> (labels, truncate_to or None)"""
    labels = set()
    used = [i for i, _ in db.used()]
    truncate_to = None
    if not used:
        return labels, None
    for m in muts:
        n = len(used)
        k = m["kind"]
        if k == "field":
            t = used[m["a"] % n]
            f = m["field"]
            slot = db.slot(t)
            if m["src"] == "slot":
                o = used[m["b"] % n]
                v = getattr(db.slot(o), f)
                if f == "next" and m["c"] % 3 == 0:
                    v = o            # link to the other slot itself instead of copying its link
            else:
                v = _const(f, m["c"], t, db, slot)
            db.set_header(t, **{f: v})
            labels.add("mut:field:" + f)
            if f in ("next", "first"):
                labels.add("touches-chain-link")
            if f in ("key", "version") and m["src"] == "slot":
                labels.add("duplicates-key-or-version")
        elif k == "dup":
            a = used[m["a"] % n]
            if m["to"] == "used":
                b = used[m["b"] % n]
            else:
                free = [i for i in range(min(db.nslots, max(used) + 40)) if i not in used]
                b = free[m["b"] % len(free)] if free else a
            db.set_raw(b, db.raw(a))
            if m["fix_first"] and db.slot(b).first == a:
                db.set_header(b, first=b)      # a relocated inode that consistently names itself
            labels.add("mut:dup")
            labels.add("duplicates-key-or-version")
        elif k == "swap":
            a, b = used[m["a"] % n], used[m["b"] % n]
            ra, rb = db.raw(a), db.raw(b)
            db.set_raw(a, rb)
            db.set_raw(b, ra)
            labels.add("mut:swap")
            if a != b:
                labels.add("touches-chain-link")
        elif k == "zero":
            a = used[m["a"] % n]
            if m["what"] == "header":
                o = db.offset(a)
                db.data[o:o + rockdb.CELL_SIZE] = b"\0" * rockdb.CELL_SIZE
            else:
                db.set_raw(a, b"")
            labels.add("mut:zero")
        elif k == "truncate":
            a = used[m["a"] % n]
            truncate_to = db.offset(a) + m["off"]
            labels.add("mut:truncate")
        elif k == "dbheader":
            db.data[0:m["n"]] = bytes([m["fill"]]) * m["n"]
            labels.add("mut:dbheader")
    return labels, truncate_to


# ---------------------------------------------------------------------- scenario
def execute(env, sc):
    r = Result()
    t0 = time.time()  # harness trace only
    bi = sc["base"]
    if env.duplicate_minimal_example():
        r.label("minimal-example-left-to-worker-0")
        r.sub_evaluations = 0
        return r
    base = env.bases.get(bi)
    if base is None:
        try:
            base = _base(env, bi)
        except Exception as e:
            base = None
            ds.trace("C57 base %d failed: %r" % (bi, e))
        if base is None:
            r.inconclusive = "base image could not be produced"
            return r
        env.bases[bi] = base
    try:
        sq = env.new_squid(ROCK, started=False, create=False)
    except Exception as e:
        r.inconclusive = "instance preparation failed: %s" % str(e)[:60]
        return r
    try:
        return _run(env, sc, sq, r, base)
    finally:
        env.discard(sq)
        ds.trace("C57 base=%d muts=%s %.1fs %s %s" % (bi, [m["kind"] for m in sc["muts"]], time.time() - t0, r.inconclusive or "", [v[0] for v in r.violations]))


def classify(db, url, truncated_hit=False):
    """What the (mutated) image holds for url: does an on-disk chain that starts at an inode carrying url's key run
    through a slot that belongs elsewhere?"""
    key = rockdb.store_key(url)
    d = dict(db.used())
    classes = set()
    for i, s in d.items():
        if s.key != key or s.first != i:
            continue
        cur, steps = i, 0
        while cur in d and steps <= len(d):
            c = d[cur]
            if c.key != key:
                classes.add("chain-links-to-slot-of-another-key")
                break
            if c.first != i:
                classes.add("chain-links-to-slot-of-another-chain-of-the-key")
                break
            cur = c.next
            steps += 1
    # a slot of this key whose header lies inside the (truncated) file while its payload does not
    beyond = any(sl.key == key and db.offset(i) + rockdb.CELL_SIZE + sl.payload_size > len(db.data) for i, sl in d.items())
    if truncated_hit and beyond:
        # a delivery that is a correct prefix and ends early is what a payload missing from the file produces, whatever else
        # the image holds for this key
        return "slot-payload-beyond-end-of-file"
    for c in ("chain-links-to-slot-of-another-key", "chain-links-to-slot-of-another-chain-of-the-key"):
        if c in classes:
            return c
    if beyond:
        return "slot-payload-beyond-end-of-file"
    return "other"


def _probe_all(env, port, content, nurls, r, stage, extra=None, db=None, sizes_mutated=False):
    hits = 0
    for u in range(nurls):
        m = ds.oic(env, port, content.path(u), url=content.url(u))
        if not ds.judged(m):
            r.inconclusive = "probe not answered"
            continue
        if m.status != 200:
            continue
        k = content.match_version(u, m.body) if m.complete else None
        if k is not None:
            hits += 1
            continue
        served = content.served_versions(u)
        truncated_hit = not m.complete and any(content.body(u, v).startswith(m.body) for v in served)
        cls = classify(db, content.url(u), truncated_hit) if db is not None else "other"
        if sizes_mutated and cls == "other":
            # payloadSize/entrySize were rewritten: that cuts or extends the payload the slot contributes, i.e. it changes
            # payload bytes, which the generator otherwise never does; differing bytes are then not judged (counted)
            r.label("bytes-differ-after-size-field-mutation")
            continue
        if not m.complete and any(content.body(u, v).startswith(m.body) for v in served):
            # an entry was made readable whose stored bytes do not add up to the response it announces
            r.fail("hit-truncated:" + (cls if cls != "other" else stage), "%s: u%d: only-if-cached 200 delivered only %d body bytes (a correct prefix) and ended early%s" % (stage, u, len(m.body), extra or ""))
            continue
        r.fail("hit-is-not-a-complete-origin-version:" + (cls if cls != "other" else "other:" + stage),
               "%s: u%d: only-if-cached 200 with %d body bytes (complete=%s) equal to none of the versions the origin served for this URL (sizes %s)%s" % (
                   stage, u, len(m.body), m.complete, [content.size(u, v) for v in served], extra or ""))
    return hits


def _run(env, sc, sq, r, base):
    content = base["content"]
    dbpath = os.path.join(sq.cache_sub, "rock")
    subprocess.run(["rm", "-rf", sq.cache_sub], check=True)
    subprocess.run(["cp", "-a", "--sparse=always", base["dir"], sq.cache_sub], check=True)
    db = rockdb.RockDb(dbpath, SLOT)
    labels, truncate_to = mutate(db, sc["muts"])
    if truncate_to is not None:
        del db.data[truncate_to:]
    db.save()
    for l in sorted(labels):
        r.label(l)
    desc = " muts=" + json.dumps(sc["muts"])[:600]
    try:
        sq.start(fresh=False, timeout=90)
    except Exception as e:
        if sq.proc is not None and sq.proc.poll() is not None:
            probs = sq.health_problems(expect_alive=False)
            sig = probs[0][0] if probs else "exit-code-%s" % sq.proc.returncode
            r.fail("start-on-image-failed:" + sig, "squid exited while starting on the mutated db\n%s%s" % (sq.cache_log_since_start()[-1200:], desc))
        else:
            r.inconclusive = "start not ready in time: %s" % str(e)[:40]
        return r
    if not ds.wait_finished_rebuilding(sq, 90):
        if sq.alive():
            r.inconclusive = "rebuild not finished in time"
        else:
            probs = sq.health_problems(expect_alive=False)
            sig = probs[0][0] if probs else "exit-code-%s" % sq.proc.returncode
            r.fail("rebuild-died:" + sig, "squid exited while rebuilding the mutated db\n%s%s" % (sq.cache_log_since_start()[-1200:], desc))
        return r
    port = sq.ports[0]
    n = base["urls"]
    r.sub_evaluations = n
    sizes_mutated = any(m["kind"] == "field" and m["field"] in ("payload_size", "entry_size") for m in sc["muts"])
    hits = _probe_all(env, port, content, n, r, "after-rebuild", desc, db, sizes_mutated)
    # further stores take slots from the free list the rebuild produced; nothing served afterwards may change
    if sc["new_stores"] and not r.violations:
        extra = ds.Content(env, env.ns())
        for j, size in enumerate(sc["new_stores"]):
            extra.set_next(j, size)
            url = env.url(extra.path(j))
            m = ds.get(env, port, extra.path(j))
            if ds.judged(m) and m.status == 200:
                ds.wait_swapout(sq, url, 0, 2.0)
        _probe_all(env, port, content, n, r, "after-new-stores", desc, db, sizes_mutated)
        for j in range(len(sc["new_stores"])):
            m = ds.oic(env, port, extra.path(j))
            if ds.judged(m) and m.status == 200 and (not m.complete or extra.match_version(j, m.body) is None):
                if not (not m.complete and any(extra.body(j, v).startswith(m.body) for v in extra.served_versions(j))):
                    r.fail("hit-is-not-a-complete-origin-version:new-store", "new URL %d (%d bytes) stored after the rebuild is served with other bytes%s" % (j, sc["new_stores"][j], desc))
    if hits:
        r.label("hits-after-rebuild")
    if "touches-chain-link" in labels or "duplicates-key-or-version" in labels:
        r.nontrivial = True
    ds.health(sq, r)
    return r
