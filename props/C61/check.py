"""C61 Cache manager enforces access rules and passwords.

A fresh proxy instance per generated configuration (cachemgr_passwd lines + http_access rules over the
built-in manager ACL and a generated client-address ACL); generated cache manager requests (actions,
unknown/odd-case/percent-encoded action names, origin-form / absolute URLs, password absent / right /
near-miss in Authorization: Basic, legacy URL password forms).

Oracle (one-directional, as the statement is): which report a response contains is recognised by a
marker text that only that report prints.  A response carrying the report of action A requires
  http_access allows this client for a manager request (reference first-match evaluator),
  A is not disabled, and A is public or the supplied password equals the configured one,
all according to the cachemgr_passwd documentation.  Refused destructive actions (shutdown,
offline_toggle, reconfigure) must additionally leave no trace in cache.log and the process stays up.
Where the documentation is silent (several cachemgr_passwd lines applying to the same action) the
request is judged permitted when ANY applicable line permits it.
"""
import base64
import os

from hypothesis import strategies as st

from vlib import native
from vlib.e2e import client, origin as originmod, squidproc
from vlib.e2e_runner import Result

# action -> (marker printed only by that report, requires a password by default ('*' in the documentation))
ACTIONS = {
    "info": (b"Squid Object Cache: Version", False),
    "menu": (b"\tCache Manager Menu", False),
    "counters": (b"^sample_time = ", False),        # "^": at the very start of the body (the utilization report repeats the counter names)
    "5min": (b"sample_start_time = ", False),
    "mem": (b"Current memory usage:", False),
    "events": (b"\tNext Execution \tWeight", False),
    "ipcache": (b"IP Cache Statistics:", False),
    "utilization": (b"Cache Utilisation:", False),
    "io": (b"HTTP I/O\n", False),
    "filedescriptors": (b"Active file descriptors:", False),
    "idns": (b"Internal DNS Statistics:", False),
    "histograms": (b"client_http.allSvcTime histogram", False),
    "config": (b"hopeless_kid_revival_delay", True),
    "offline_toggle": (b"offline_mode is now", True),
    "shutdown": (b"Shutting down Squid Process", True),
    "reconfigure": (b"Reconfiguring Squid Process", True),
}
LOG_TRACE = {"offline_toggle": "offline_mode now", "shutdown": "Shutdown by Cache Manager command", "reconfigure": "Reconfigure by Cache Manager command"}
ACTION_NAMES = sorted(ACTIONS)
PASSWORDS = ["secret", "s3cr3t", "pw:colon", "x"]
NSRC = 4


def strategy(tp):
    nreq = int(tp.get("requests", 16))
    pwline = st.tuples(st.one_of(st.sampled_from(PASSWORDS), st.sampled_from(PASSWORDS), st.sampled_from(["disable", "none"])),
                       st.one_of(st.just(["all"]), st.lists(st.sampled_from(ACTION_NAMES), min_size=1, max_size=5, unique=True),
                                 st.lists(st.sampled_from(ACTION_NAMES), min_size=1, max_size=5, unique=True))).map(list)
    names = ["manager", "manager", "msrc", "msrc", "all", "localhost"]
    term = st.tuples(st.sampled_from([False, False, True]), st.sampled_from(names)).map(list)
    rule = st.tuples(st.sampled_from(["allow", "deny"]), st.lists(term, min_size=1, max_size=3)).map(list)
    std_rules = st.sampled_from([
        [["allow", [[False, "manager"], [False, "msrc"]]], ["deny", [[False, "manager"]]], ["allow", [[False, "all"]]]],
        [["deny", [[False, "manager"], [True, "msrc"]]], ["allow", [[False, "all"]]]],
        [["allow", [[False, "all"]]]],
        [["deny", [[False, "manager"]]], ["allow", [[False, "all"]]]],
    ])
    req = st.fixed_dictionaries({
        # ["in", k]: k-th address of the generated msrc acl; ["any", k]: 127.0.0.k
        "src": st.one_of(st.integers(0, 5).map(lambda k: ["in", k]), st.integers(1, NSRC).map(lambda k: ["any", k])),
        # ["listed", k]: k-th action named by the cachemgr_passwd lines (any action when none is named); ["name", a]
        "action": st.one_of(st.integers(0, 11).map(lambda k: ["listed", k]), st.integers(0, 11).map(lambda k: ["listed", k]), st.sampled_from(ACTION_NAMES).map(lambda a: ["name", a]),
                            st.sampled_from(["info", "menu", "config", "counters", "offline_toggle", "shutdown"]).map(lambda a: ["name", a])),
        "name_form": st.sampled_from(["plain", "plain", "plain", "plain", "plain", "plain", "plain", "upper", "pct-first", "pct-all", "unknown", "trailing-slash"]),
        "url_form": st.sampled_from(["origin", "origin", "origin", "abs-visible", "abs-visible", "abs-loop", "origin-pct-prefix"]),
        "suffix": st.sampled_from(["", "", "", "?x=1", "#frag", "?"]),
        # how the password is supplied: [kind, variant]
        "auth": st.one_of(st.just(["none", ""]), st.just(["basic", "right"]), st.just(["basic", "right"]),
                          st.tuples(st.sampled_from(["basic", "basic", "basic", "basic", "basic", "basic-nouser", "basic-extra-colon", "basic-lower-scheme", "url-at", "url-query"]),
                                    st.sampled_from(["right", "right", "right", "wrong", "right+x", "right+x", "right-1", "right-1", "right-half", "right-first", "upper", "empty", "disable", "none", "other"])).map(list)),
    })
    return st.fixed_dictionaries({
        "passwd": st.lists(pwline, min_size=0, max_size=3),
        "msrc": st.lists(st.integers(1, NSRC), min_size=2, max_size=3, unique=True),
        "rules": st.one_of(std_rules, std_rules, std_rules, st.lists(rule, min_size=1, max_size=4)),
        "requests": st.lists(req, min_size=nreq // 2, max_size=nreq),
    })


# ---------------------------------------------------------------------------- reference
def access_allowed(sc, src):
    """first-match evaluation for a cache manager request from 127.0.0.<src>"""
    for action, terms in sc["rules"]:
        ok = True
        for neg, name in terms:
            v = {"manager": True, "all": True, "localhost": src == 1, "msrc": src in sc["msrc"]}[name]
            if neg:
                v = not v
            ok = ok and v
        if ok:
            return action == "allow"
    return sc["rules"][-1][0] == "deny"


def applicable(sc, action):
    """settings of every cachemgr_passwd line that names the action (or all); [] = not listed"""
    return [pw for pw, acts in sc["passwd"] if action in acts or "all" in acts]


def the_password(sc, action, real_only=True):
    """a configured real password for the action; with real_only=False the first configured token, keyword or not
    (a 'right' request then supplies the literal text of the cachemgr_passwd line, e.g. "disable")"""
    for pw in applicable(sc, action):
        if pw not in ("disable", "none") or not real_only:
            return pw
    return None


def permitted(sc, action, supplied):
    """may the report of `action` be produced for a request supplying the passwords in `supplied` (set)?
    -> (bool, reason when refused)"""
    app = applicable(sc, action)
    if not app:
        if ACTIONS[action][1]:
            return False, "password-required-action-without-configured-password"
        return True, ""
    reasons = []
    for pw in app:
        if pw == "disable":
            reasons.append("disabled-action")
        elif pw == "none":
            return True, ""
        elif pw in supplied:
            return True, ""
        else:
            reasons.append("protected-action-without-valid-password")
    return False, reasons[0]


# ---------------------------------------------------------------------------- request construction
def _pct(ch):
    return "%%%02X" % ord(ch)


def resolve(sc, rq):
    """-> (client address number, action name) of a request"""
    src = sc["msrc"][rq["src"][1] % len(sc["msrc"])] if rq["src"][0] == "in" else rq["src"][1]
    if rq["action"][0] == "name":
        return src, rq["action"][1]
    listed = [a for _pw, acts in sc["passwd"] for a in acts if a != "all"] or ACTION_NAMES
    return src, listed[rq["action"][1] % len(listed)]


def build(sc, rq, port):
    """-> (request bytes, set of supplied passwords, description)"""
    action = resolve(sc, rq)[1]
    nf = rq["name_form"]
    name = action
    if nf == "upper":
        name = action.upper()
    elif nf == "pct-first":
        name = _pct(action[0]) + action[1:]
    elif nf == "pct-all":
        name = "".join(_pct(c) for c in action)
    elif nf == "unknown":
        name = action + "x"
    elif nf == "trailing-slash":
        name = action + "/"
    right = the_password(sc, action) or the_password(sc, action, False) or "secret"
    kind, var = rq["auth"]
    pw = {"right": right, "wrong": "wrongpw", "right+x": right + "x", "right-1": right[:-1], "right-half": right[:max(1, len(right) // 2)], "right-first": right[:1], "upper": right.upper(), "empty": "",
          "disable": "disable", "none": "none", "other": "s3cr3t" if right != "s3cr3t" else "secret"}.get(var, "")
    supplied = set()
    headers = ""
    path = "/squid-internal-mgr/" + name
    if kind == "url-at":
        path += "@" + pw
        supplied.add(pw)
    path += rq["suffix"]
    if kind == "url-query":
        path += ("&" if "?" in path else "?") + "password=" + pw
        supplied.add(pw)
    if kind in ("basic", "basic-lower-scheme"):
        cred = "admin:" + pw
        supplied.add(pw)
    elif kind == "basic-nouser":
        cred = ":" + pw
        supplied.add(pw)
    elif kind == "basic-extra-colon":
        cred = "admin:x:" + pw           # RFC 7617: the password is everything after the FIRST colon
        supplied.add("x:" + pw)
    else:
        cred = None
    if cred is not None:
        headers += "Authorization: %s %s\r\n" % ("basic" if kind == "basic-lower-scheme" else "Basic", base64.b64encode(cred.encode()).decode())
    uf = rq["url_form"]
    if uf == "origin":
        target = path
    elif uf == "origin-pct-prefix":
        target = path.replace("/squid-internal-mgr/", "/squid-internal-mg%72/", 1)
    elif uf == "abs-visible":
        target = "http://verifproxy:%d%s" % (port, path)
    else:
        target = "http://127.0.0.1:%d%s" % (port, path)
    data = "GET %s HTTP/1.1\r\nHost: 127.0.0.1:%d\r\n%sConnection: close\r\n\r\n" % (target, port, headers)
    return data.encode(), supplied, "GET %s [%s %s]" % (target, kind, var)


# ---------------------------------------------------------------------------- environment
class Env:
    def __init__(self, ctx):
        native.build_all()
        self.ctx = ctx
        self.clock = originmod.Clock()
        self.mime = os.path.join(squidproc.RUN, "C61-mime-%d.conf" % os.getpid())
        os.makedirs(squidproc.RUN, exist_ok=True)
        with open(self.mime, "w") as f:
            f.write("\\.png$ image/png silk/image.png - image +download\n")
        os.chmod(self.mime, 0o644)

    def close(self):
        try:
            os.unlink(self.mime)
        except OSError:
            pass


def setup(ctx):
    return Env(ctx)


def teardown(env):
    env.close()


def reports_in(body):
    return [a for a, (marker, _p) in ACTIONS.items() if (body.startswith(marker[1:]) if marker.startswith(b"^") else marker in body)]


def execute(env, sc):
    r = Result()
    r.sub_evaluations = 0
    conf = "acl msrc src %s\n" % " ".join("127.0.0.%d" % k for k in sc["msrc"])
    for pw, acts in sc["passwd"]:
        conf += "cachemgr_passwd %s %s\n" % (pw, " ".join(acts))
    conf += "mime_table %s\n" % env.mime
    access = "\n".join("http_access %s %s" % (a, " ".join(("!" if n else "") + t for n, t in terms)) for a, terms in sc["rules"])
    sq = squidproc.Squid("C61-w%d" % env.ctx.worker, conf=conf, access=access, clock=env.clock, cache_mem="8 MB")
    ended = None
    try:
        try:
            sq.start(timeout=120)
        except RuntimeError as e:
            log = sq.cache_log()
            if "FATAL" in log or "Bungled" in log:
                r.label("config-rejected")
                r.inconclusive = "configuration rejected: " + log[log.find("FATAL"):][:200]
            else:
                r.inconclusive = "proxy did not start in time"
            return r
        r.label("config-started")
        log_seen = 0
        for idx, rq in enumerate(sc["requests"]):
            data, supplied, desc = build(sc, rq, sq.ports[0])
            srcn, action = resolve(sc, rq)
            src = "127.0.0.%d" % srcn
            try:
                c = client.Conn(sq.ports[0], src=src, timeout=20)
            except OSError as e:
                r.inconclusive = "client connect failed: %r" % e
                break
            try:
                c.send(data)
                m = c.read_response(b"GET", timeout=20)
            finally:
                c.close()
            if m is None or m.timed_out:
                r.inconclusive = "client timed out"
                break
            if getattr(m, "bad", False) or m.status is None:
                r.label("no-response")
                # a performed shutdown may cut the connection; judged below through cache.log
                m = None
            body = m.body if m is not None else b""
            acc = access_allowed(sc, srcn)
            r.sub_evaluations += 1
            what = "request #%d from %s: %s" % (idx, src, desc)
            found = reports_in(body)
            if m is not None and m.status == 200 and not m.has("x-squid-error") and not found and body:
                # some report we have no marker for: still needs access
                found = ["<unrecognised report>"]
            # ---- what the documentation permits for the action named in the request (plain name only)
            ok_named, why_named = permitted(sc, action, supplied)
            canonical = rq["name_form"] == "plain" and rq["url_form"] in ("origin", "abs-visible")
            if acc and ok_named:
                r.label("may-report")
            elif not acc:
                r.label("must-refuse:no-access")
            else:
                r.label("must-refuse:" + why_named)
            if (not acc) or (not ok_named) or not canonical:
                r.nontrivial = True
            for a in found:
                if not acc:
                    r.fail("report-without-manager-access", what + "; response carries the %s report, http_access denies manager requests from %s" % (a, src))
                    continue
                if a == "<unrecognised report>":
                    continue
                ok, why = permitted(sc, a, supplied)
                if not ok:
                    r.fail("report-although-" + why, what + "; response carries the %s report; cachemgr_passwd lines: %r; supplied passwords %r" % (a, sc["passwd"], sorted(supplied)))
            if found:
                r.label("reported")
                if canonical and rq["auth"][0].startswith("basic") and rq["auth"][1] == "right" and the_password(sc, action):
                    r.label("reported-with-right-password")
            elif acc and ok_named and canonical and (rq["auth"][0] in ("none", "basic", "basic-nouser") or not the_password(sc, action)):
                r.label("permitted-but-not-reported")
                r.label("permitted-but-not-reported:%s:%s" % (action, m.status if m is not None else None))       # allowed by the statement (one-directional); counted
            # ---- destructive actions: traces in cache.log
            log = sq.cache_log()
            new = log[log_seen:]
            log_seen = len(log)
            for a, trace in LOG_TRACE.items():
                if trace in new:
                    ok, why = permitted(sc, a, supplied)
                    if not acc:
                        r.fail("refused-destructive-action-performed:" + a, what + "; cache.log says %r although manager access is denied" % trace)
                    elif not ok:
                        r.fail("refused-destructive-action-performed:" + a, what + "; cache.log says %r although %s" % (trace, why))
                    else:
                        r.label("destructive-action-performed:" + a)
                        if a in ("shutdown", "reconfigure"):
                            ended = a
            if r.violations or ended:
                break
        if not ended:
            for sig, detail in sq.health_problems():
                r.fail("memory-safety/liveness:" + sig, detail)
        else:
            r.label("scenario-ended-by-permitted-" + ended)
            asan, _ub = sq.sanitizer_reports()
            for rep in asan:
                r.fail("memory-safety/liveness:asan-report", rep[:2000])
    finally:
        try:
            sq.destroy()
        except Exception:
            pass
    r.sub_evaluations = max(1, r.sub_evaluations)
    return r
