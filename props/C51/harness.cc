// C51 Bounded LRU/TTL map behaves like its specification.
// Domain : sequences of add(key, value(size), ttl incl. 0 / negative / INT_MAX / default), get, del,
//          setMemLimit (0, shrink, grow, entry-cost boundaries), clock advances on one ClpMap.
// Oracle : reference LRU/TTL/capacity model written from the class documentation: get() returns exactly the
//          model's fresh value and refreshes recency; add() replaces, purges strictly least-recently-used
//          entries until the new entry fits, rejects what can never fit / is already expired; setMemLimit()
//          purges LRU entries down to the new limit.  After every command memoryUsed(), entries(),
//          memLimit() must equal the model's and memoryUsed() <= memLimit(); at the end every key is looked up.
//          The per-entry memory cost the model needs is MEASURED through the public API (memoryUsed() after
//          adding that key/value to a fresh, unlimited map), not copied from the implementation.
//
// Left open by the documentation, accepted both ways by adopting what entries() shows (counted):
//  * whether looking up an expired entry also deletes it ("hidden (and may be deleted)");
//  * whether a rejected add() (negative TTL, cannot fit) still removed the old entry of that key
//    (add() documents "the map remains unchanged", the implementation deletes first).
// The clock only moves forward (squid_curtime is monotonic between reconfigurations).
#include "squid.h"
#include "base/ClpMap.h"
#include "SquidConfig.h"
#include "time/gadgets.h"

#include "verif_pbt.h"
#include "vp_seq.h"

#include <climits>
#include <list>

extern "C" const char *__asan_default_options() { return "quarantine_size_mb=16:malloc_context_size=6"; }

struct Val {
    int id = 0;
    uint64_t claimed = 0; ///< what MemoryUsedBy reports for this value
};
static uint64_t ValMem(const Val &v) { return v.claimed; }
using Map = ClpMap<std::string, Val, ValMem>;

static const int NKeys = 10;
static std::string keyOf(int i) { i = ((i % NKeys) + NKeys) % NKeys; return std::string(1 + (i % 4) * 3, static_cast<char>('a' + i)); }
static const uint64_t sizes[] = {0, 1, 8, 64, 100, 333, 1000, 5000, UINT64_MAX - 50, UINT64_MAX};

struct Cmd {
    std::string op; // add addDefault get del limit tick
    long long k = 0, x = 0, y = 0; // key index; add: size index, ttl; limit: multiples of base cost, delta; tick: seconds
};
struct Case {
    long long cap0 = 0, capDelta = 0, defaultTtl = -1; // initial capacity (in base costs + delta); defaultTtl < 0: one-argument constructor
    std::vector<Cmd> cmds;
};

static std::string show(const Case &c)
{
    vp::Writer w;
    w.s("init", std::to_string(c.cap0) + " " + std::to_string(c.capDelta) + " " + std::to_string(c.defaultTtl));
    for (const auto &m : c.cmds) w.s(m.op, std::to_string(m.k) + " " + std::to_string(m.x) + " " + std::to_string(m.y));
    return w.str();
}
static Case parse(const std::string &t)
{
    vp::Reader r(t);
    Case c;
    for (const auto &kv : r.ordered()) {
        if (kv.first == "prop") continue;
        std::istringstream is(kv.second);
        if (kv.first == "init") { is >> c.cap0 >> c.capDelta >> c.defaultTtl; continue; }
        Cmd m;
        m.op = kv.first;
        is >> m.k >> m.x >> m.y;
        c.cmds.push_back(m);
    }
    return c;
}

static long long ttlOf(vp::Dice &d)
{
    switch (d.weighted({5, 2, 2, 1, 1})) {
    case 0: return d.range(1, 20);
    case 1: return 0;
    case 2: return d.range(-3, -1);
    case 3: return INT_MAX;
    default: return d.pick<long long>({INT_MIN, INT_MAX - 1, 1000000});
    }
}

static Case decode(vp::Dice &d)
{
    Case c;
    c.cap0 = d.weighted({1, 2, 3, 3, 2, 1, 1}); // 0..6 base costs
    c.capDelta = d.pick<long long>({0, 0, -1, 1, 17, 100});
    c.defaultTtl = d.chance(1, 3) ? d.pick<long long>({0, 5, 10, INT_MAX}) : -1;
    while (d.more() && c.cmds.size() < 50) {
        Cmd m;
        switch (d.weighted({8, 2, 8, 2, 3, 4})) {
        case 0: m.op = "add"; m.k = d.range(0, NKeys - 1); m.x = d.weighted({4, 2, 2, 2, 2, 1, 1, 1, 1, 1}); m.y = ttlOf(d); break;
        case 1: m.op = "addDefault"; m.k = d.range(0, NKeys - 1); m.x = d.weighted({4, 2, 2, 2, 2, 1, 1, 0, 0, 0}); break;
        case 2: m.op = "get"; m.k = d.range(0, NKeys - 1); break;
        case 3: m.op = "del"; m.k = d.range(0, NKeys - 1); break;
        case 4: m.op = "limit"; m.x = d.weighted({1, 2, 3, 3, 2, 1, 1, 1}); m.y = d.pick<long long>({0, 0, -1, 1, 17, 100}); if (m.x == 7) m.x = 1000000; break;
        default: m.op = "tick"; m.x = d.pick<long long>({1, 1, 2, 5, 10, 19, 20, 21, 100}); break;
        }
        c.cmds.push_back(m);
    }
    return c;
}

// ------------------------------------------------------------------ measured entry costs

static const uint64_t Never = UINT64_MAX; // add() to an unlimited map was rejected

/// memory the map accounts for one entry with this key and value, observed through the public API
static uint64_t measuredCost(const std::string &key, const Val &v)
{
    static std::map<std::pair<size_t, uint64_t>, uint64_t> cache;
    const auto k = std::make_pair(key.size(), v.claimed);
    const auto it = cache.find(k);
    if (it != cache.end()) return it->second;
    Map probe(UINT64_MAX);
    uint64_t cost = Never;
    if (probe.add(key, v, 10)) cost = probe.memoryUsed();
    cache[k] = cost;
    return cost;
}

namespace {
struct MEntry { std::string key; Val v; time_t expires; uint64_t cost; };
struct Model {
    std::list<MEntry> lru; // front = most recently used
    uint64_t limit = 0, used = 0;
    std::list<MEntry>::iterator find(const std::string &k) { auto i = lru.begin(); while (i != lru.end() && i->key != k) ++i; return i; }
    void erase(std::list<MEntry>::iterator i) { used -= i->cost; lru.erase(i); }
    void purgeDownTo(uint64_t target, int &purged) { while (used > target && !lru.empty()) { erase(std::prev(lru.end())); ++purged; } }
};
} // namespace

SquidConfig Config;

static vp::Verdict check(const Case &c, vp::Ctx &ctx)
{
    squid_curtime = 1000000; // reset the global every case
    const uint64_t base = measuredCost(keyOf(0), Val{0, 0});
    auto capOf = [base](long long mult, long long delta) -> uint64_t {
        if (mult >= 1000000) return UINT64_MAX;
        const long long v = static_cast<long long>(base) * mult + delta;
        return v < 0 ? 0 : static_cast<uint64_t>(v);
    };
    const uint64_t cap = capOf(c.cap0, c.capDelta);
    std::unique_ptr<Map> mapPtr;
    long long defTtl = INT_MAX;
    if (c.defaultTtl >= 0) { defTtl = c.defaultTtl; mapPtr.reset(new Map(cap, static_cast<Map::Ttl>(defTtl))); }
    else mapPtr.reset(new Map(cap));
    Map &map = *mapPtr;
    Model m;
    m.limit = cap;
    std::set<std::string> labels;
    int nextId = 1, step = 0;
    bool evictedFresh = false, expiredHidden = false;

    auto agree = [&](const std::string &where) -> vp::Verdict {
        if (map.memLimit() != m.limit) return vp::fail("clp:memLimit-differs", where);
        if (map.memoryUsed() > map.memLimit()) return vp::fail("clp:memory-exceeds-capacity", where + " used " + std::to_string(map.memoryUsed()) + " limit " + std::to_string(map.memLimit()));
        if (map.entries() != m.lru.size()) return vp::fail("clp:entry-count-differs", where + " got " + std::to_string(map.entries()) + " model " + std::to_string(m.lru.size()));
        if (map.memoryUsed() != m.used) return vp::fail("clp:memoryUsed-differs", where + " got " + std::to_string(map.memoryUsed()) + " model " + std::to_string(m.used));
        if (map.freeMem() != m.limit - m.used) return vp::fail("clp:freeMem-differs", where);
        return vp::pass();
    };

    /// get() on both; adopts the left-open deletion of an expired entry
    auto lookup = [&](const std::string &key, const std::string &where) -> vp::Verdict {
        const auto before = map.entries();
        const Val *got = map.get(key);
        auto i = m.find(key);
        const bool fresh = i != m.lru.end() && !(i->expires < squid_curtime);
        if (fresh) {
            if (!got) return vp::fail("clp:fresh-entry-not-returned", where + " key " + key);
            if (got->id != i->v.id) return vp::fail("clp:wrong-value-returned", where + " key " + key + " got id " + std::to_string(got->id) + " want " + std::to_string(i->v.id));
            m.lru.splice(m.lru.begin(), m.lru, i);
            labels.insert("get:hit");
        } else {
            if (got) return vp::fail(i == m.lru.end() ? "clp:absent-key-returned" : "clp:expired-entry-returned", where + " key " + key + " id " + std::to_string(got->id));
            if (i != m.lru.end()) {
                expiredHidden = true;
                labels.insert("get:expired");
                if (map.entries() + 1 == before) { m.erase(i); ctx.excluded("expired entry deleted by the lookup (allowed either way)"); }
                else ctx.excluded("expired entry kept by the lookup (allowed either way)");
            } else labels.insert("get:miss");
        }
        return vp::pass();
    };

    for (const auto &cmd : c.cmds) {
        ++step;
        const std::string where = cmd.op + " step " + std::to_string(step);
        if (cmd.op == "add" || cmd.op == "addDefault") {
            const std::string key = keyOf(static_cast<int>(cmd.k));
            Val v;
            v.id = nextId++;
            v.claimed = sizes[static_cast<size_t>(cmd.x < 0 ? 0 : cmd.x) % (sizeof sizes / sizeof *sizes)];
            const long long ttl = cmd.op == "add" ? std::max<long long>(INT_MIN, std::min<long long>(INT_MAX, cmd.y)) : defTtl;
            const uint64_t cost = measuredCost(key, v);
            const auto before = map.entries();
            const bool ok = cmd.op == "add" ? map.add(key, v, static_cast<Map::Ttl>(ttl)) : map.add(key, v);
            auto old = m.find(key);
            const bool want = m.limit != 0 && ttl >= 0 && cost != Never && cost <= m.limit;
            if (ok != want)
                return vp::fail(ok ? "clp:add-accepted-what-cannot-be-cached" : "clp:add-rejected-cacheable-entry",
                                where + " cost " + std::to_string(cost) + " limit " + std::to_string(m.limit) + " ttl " + std::to_string(ttl));
            if (!want) {
                labels.insert(ttl < 0 ? "add:rejected-negative-ttl" : m.limit == 0 ? "add:rejected-zero-capacity" : "add:rejected-too-big");
                if (old != m.lru.end()) {
                    // An add() supersedes whatever the map held under that key, also when the new value cannot be cached:
                    // ClpMap::add() deletes the old entry before any "cannot cache this" test other than the zero-capacity one
                    // (where the map is empty anyway), and says why ("will never be returned by get()").  The header's
                    // "(the map remains unchanged)" is about the other entries.  A map that kept the superseded value would
                    // hand out stale data after a failed replacement, so the model erases it and says so at once.
                    m.erase(old);
                    labels.insert("add:rejected-replacement-of-cached-key");
                    if (map.entries() == before)
                        return vp::fail("clp:rejected-add-left-superseded-value", where + " cost " + std::to_string(cost) + " limit " + std::to_string(m.limit) + " ttl " + std::to_string(ttl));
                }
            } else {
                if (old != m.lru.end()) { m.erase(old); labels.insert("add:replaces"); }
                int purged = 0;
                // make room: strictly least recently used first
                while (m.used + cost > m.limit && !m.lru.empty()) {
                    auto victim = std::prev(m.lru.end());
                    if (!(victim->expires < squid_curtime)) evictedFresh = true;
                    m.erase(victim);
                    ++purged;
                }
                if (purged) labels.insert("add:purges-lru");
                MEntry e;
                e.key = key; e.v = v; e.cost = cost;
                // expires = now + ttl, saturating
                const __int128 ex = static_cast<__int128>(squid_curtime) + ttl;
                e.expires = ex > std::numeric_limits<time_t>::max() ? std::numeric_limits<time_t>::max() : static_cast<time_t>(ex);
                m.lru.push_front(e);
                m.used += cost;
                labels.insert(ttl == 0 ? "add:zero-ttl" : "add:ok");
                if (m.used == m.limit) labels.insert("add:fills-exactly");
            }
        } else if (cmd.op == "get") {
            const vp::Verdict v = lookup(keyOf(static_cast<int>(cmd.k)), where);
            if (!v.ok) return v;
        } else if (cmd.op == "del") {
            const std::string key = keyOf(static_cast<int>(cmd.k));
            map.del(key);
            auto i = m.find(key);
            if (i != m.lru.end()) { m.erase(i); labels.insert("del:present"); }
        } else if (cmd.op == "limit") {
            const uint64_t n = capOf(cmd.x, cmd.y);
            map.setMemLimit(n);
            int purged = 0;
            const auto oldLimit = m.limit;
            m.purgeDownTo(n, purged);
            m.limit = n;
            labels.insert(n < oldLimit ? (purged ? "limit:shrink-purges" : "limit:shrink") : "limit:grow-or-same");
            if (n == 0) labels.insert("limit:zero");
            if (purged) evictedFresh = true;
        } else if (cmd.op == "tick") {
            squid_curtime += std::max<long long>(0, cmd.x);
            labels.insert("tick");
            continue;
        } else continue;
        const vp::Verdict v = agree(where);
        if (!v.ok) return v;
    }
    // final sweep: every key, in a fixed order (the lookups refresh recency in both worlds)
    for (int k = 0; k < NKeys; ++k) {
        const vp::Verdict v = lookup(keyOf(k), "final lookup");
        if (!v.ok) return v;
    }
    {
        const vp::Verdict v = agree("after the final lookups");
        if (!v.ok) return v;
        // traversal shows exactly the model's entries (order direction is documented inconsistently: not judged)
        size_t n = 0;
        for (const auto &e : map) {
            auto i = m.find(e.key);
            if (i == m.lru.end() || i->v.id != e.value.id) return vp::fail("clp:traversal-shows-unknown-entry", e.key);
            ++n;
        }
        if (n != m.lru.size()) return vp::fail("clp:traversal-count-differs", std::to_string(n));
    }
    squid_curtime = 0;
    for (const auto &l : labels) ctx.label(l);
    if (evictedFresh) ctx.label("lru-purge-of-fresh-entry");
    if (expiredHidden) ctx.label("expired-entry-hidden");
    if (evictedFresh || expiredHidden) ctx.nontrivial();
    return vp::pass();
}

static void registerAll()
{
    vp::guardExit();
    vp::add<Case>("clpmap_model", vp::fromEntropy<Case>(decode, 1.5), check, show, parse, 1.0, vp::fuzzFromEntropy<Case>(decode));
}

VP_MAIN(registerAll)
