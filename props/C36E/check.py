import importlib.util, os
_s = importlib.util.spec_from_file_location("c36_e2e", os.path.join(os.path.dirname(os.path.abspath(__file__)), "..", "C36", "check_e2e.py"))
_m = importlib.util.module_from_spec(_s)
_s.loader.exec_module(_m)
strategy, setup, teardown, execute = _m.strategy, _m.setup, _m.teardown, _m.execute
