"""C11 Responses forbidden to be stored are never served from cache."""
from hypothesis import strategies as st

from vlib.e2e import httpref
from vlib.e2e.env import ProxyEnv, fetch, usable
from vlib.e2e_runner import Result


def _case(s):
    return st.builds(lambda bits: "".join(c.upper() if b else c.lower() for c, b in zip(s, bits + [False] * len(s))), st.lists(st.booleans(), min_size=0, max_size=len(s)))


def _directive(name, arg=None):
    # random case and optional-whitespace variants around a directive
    base = _case(name)
    if arg is None:
        return base
    return st.builds(lambda n, a: n + "=" + a, base, arg)


RESP_DIRS = st.one_of(
    _directive("no-store"), _directive("private"), _directive("private", st.sampled_from(['"set-cookie"', '"x-a, x-b"'])),
    # argument forms a sender may get wrong (token instead of quoted-string, empty, unterminated quote): the directive was sent
    # all the same, and RFC 9111 5.2 asks recipients to accept both argument syntaxes
    _directive("private", st.sampled_from(['Set-Cookie', 'set-cookie', '', '"set-cookie', 'x-a'])),
    _directive("public"), _directive("must-revalidate"), _directive("proxy-revalidate"), _directive("no-cache"),
    _directive("s-maxage", st.sampled_from(["3600", "100000"])), _directive("max-age", st.sampled_from(["3600", "86400", "31536000"])),
    _directive("no-transform"), st.just("x-ext=1"), st.just("immutable"))
REQ_DIRS = st.one_of(_directive("no-store"), _directive("no-transform"), _directive("max-stale", st.just("10")), st.just("x-req"), _directive("only-if-cached").filter(lambda x: False))
SEP = st.sampled_from([", ", ",", " , ", ",  ", ", ,"])


def strategy(tp):
    return st.fixed_dictionaries({
        "status": st.sampled_from([200, 200, 200, 203, 300, 301, 404, 410]),
        "resp_cc": st.lists(RESP_DIRS, min_size=0, max_size=4),
        "resp_cc_split": st.booleans(),          # several Cache-Control field lines instead of one list
        "resp_sep": SEP,
        "req_cc": st.lists(REQ_DIRS, min_size=0, max_size=2),
        "req_sep": SEP,
        "auth": st.sampled_from([None, None, "Basic dXNlcjpwYXNz", "Bearer abc"]),
        "expires": st.sampled_from([None, None, "future", "past"]),
        "last_modified": st.booleans(),
        "body_len": st.sampled_from([0, 10, 5000, 40000]),
        "second_auth": st.booleans(),
    })


def setup(ctx):
    return ProxyEnv(ctx, cache_mem="64 MB")


def teardown(env):
    env.close()


def _names(dirs):
    return [d.split("=")[0].strip().lower() for d in dirs]


def execute(env, sc):
    r = Result()
    path = "/" + env.ns()
    hdrs = []
    if sc["resp_cc"]:
        if sc["resp_cc_split"]:
            for d in sc["resp_cc"]:
                hdrs.append(["Cache-Control", d])
        else:
            hdrs.append(["Cache-Control", sc["resp_sep"].join(sc["resp_cc"])])
    from vlib.e2e.origin import http_date
    now = env.clock.now()
    if sc["expires"] == "future":
        hdrs.append(["Expires", http_date(now + 86400)])
    elif sc["expires"] == "past":
        hdrs.append(["Expires", http_date(now - 86400)])
    if sc["last_modified"]:
        hdrs.append(["Last-Modified", http_date(now - 10 * 86400)])
    v1 = {"status": sc["status"], "reason": "X", "headers": hdrs + [["X-Version", "1"]], "body_tag": path + "#1", "body_len": sc["body_len"]}
    v2 = {"status": sc["status"], "reason": "X", "headers": hdrs + [["X-Version", "2"]], "body_tag": path + "#2", "body_len": sc["body_len"]}
    env.origin.script(path, [v1, v2])
    req_h = []
    if sc["req_cc"]:
        req_h.append(("Cache-Control", sc["req_sep"].join(sc["req_cc"])))
    if sc["auth"]:
        req_h.append(("Authorization", sc["auth"]))
    m1 = fetch(env, path, req_h)
    if not usable(m1, r):
        return r
    if env.origin.arrival_count(path) != 1:
        r.inconclusive = "first request did not reach the origin exactly once"
        env.health(r)
        return r
    rn, qn = _names(sc["resp_cc"]), _names(sc["req_cc"])
    forbidden = []
    if "no-store" in rn:
        forbidden.append("response-no-store")
    if "private" in rn:
        forbidden.append("response-private")
    if "no-store" in qn:
        forbidden.append("request-no-store")
    if sc["auth"] and not any(d in rn for d in ("public", "must-revalidate", "s-maxage")):
        forbidden.append("authorization-without-shared-permission")
    long_lived = any(d in rn for d in ("max-age", "s-maxage")) or sc["expires"] == "future"
    # second request: plain GET (optionally with the same credentials: a cache must not serve the forbidden copy either way)
    h2 = [("Authorization", sc["auth"])] if (sc["auth"] and sc["second_auth"]) else []
    m2 = fetch(env, path, h2)
    if not usable(m2, r):
        return r
    arrivals = env.origin.arrival_count(path)
    r.sub_evaluations = 1
    if forbidden:
        r.label("forbidden:" + "+".join(forbidden))
        if long_lived:
            r.nontrivial = True
        if arrivals < 2:
            r.fail("served-from-cache-although-forbidden:" + forbidden[0],
                   "forbidden by %s; second request produced no origin arrival; client got X-Version=%r" % (forbidden, m2.get("x-version")))
        elif m2.status == sc["status"] and not m2.has("x-squid-error"):
            if m2.get("x-version") != b"2" or (m2.complete and m2.body != httpref.keyed_stream(path + "#2", sc["body_len"])):
                r.fail("second-response-is-not-the-second-origin-version:" + forbidden[0], "X-Version=%r" % m2.get("x-version"))
    else:
        r.label("storable-hit" if arrivals < 2 else "storable-miss")
    env.health(r)
    return r
