// C43 Integer-range ACLs match exactly the configured ranges.
// Domain : "acl NAME port|localport v..." lines (values n and a-b, any order, overlaps, several lines per name)
//          fed through ConfigParser::SetCfgLine + Acl::Node::ParseNamedAcl into the real ACLIntRange.
// Oracle : n matches <=> n lies in the union of the listed ranges (set model written from the statement);
//          a permutation of the same values answers every probe identically.
#include "squid.h"
#include "acl/Acl.h"
#include "acl/IntRange.h"
#include "acl/Node.h"
#include "acl/ParameterizedNode.h"
#include "anyp/PortCfg.h"
#include "ConfigParser.h"
#include "debug/Stream.h"
#include "SquidConfig.h"

#include "verif_pbt.h"
#include "acl_memstub.h"

/* globals required to resolve link issues (as in tests/testACLMaxUserIP.cc) */
AnyP::PortCfgPointer HttpPortList;

// a smaller quarantine than ASan's 256 MB default keeps the working set (and page-fault cost) small
extern "C" const char *__asan_default_options() { return "quarantine_size_mb=16:malloc_context_size=2"; }

namespace {

/// The "port"/"localport" ACL node as AclRegs.cc builds it (ParameterizedNode over ACLIntRange), minus the
/// HttpRequest-dependent value extraction: probe() hands the integer to the parameters object directly.
class IntNode: public Acl::ParameterizedNode< ACLData<int> >
{
    MEMPROXY_CLASS(IntNode);
public:
    explicit IntNode(const char *t): type_(t) { data.reset(new ACLIntRange); }
    char const *typeString() const override { return type_; }
    bool probe(const int v) { return data->match(v); }
private:
    int match(ACLChecklist *) override { return 0; }
    const char *type_;
};

struct Item { int lo = 0, hi = 0; bool dash = false; };

std::string itemText(const Item &it)
{
    if (!it.dash) return std::to_string(it.lo);
    return std::to_string(it.lo) + "-" + std::to_string(it.hi);
}

/// one configured ACL: values in configuration order, cut into "acl" lines after the given counts
struct Built {
    IntNode *node = nullptr;
};

int aclCounter = 0;

void feedLine(const std::string &text)
{
    std::vector<char> line(text.begin(), text.end());
    line.push_back('\0');
    ConfigParser::SetCfgLine(line.data());
    ConfigParser parser;
    Acl::Node::ParseNamedAcl(parser, Config.namedAcls);
    ConfigParser::SetCfgLine(nullptr);
}

/// feeds `acl <name> <type> values...` lines exactly as the configuration parser does; cuts[i] = number of
/// values on line i (the rest goes on a final line)
IntNode *build(const std::string &name, const char *type, const std::vector<Item> &items, const std::vector<int> &cuts)
{
    size_t pos = 0;
    size_t lineNo = 0;
    bool first = true;
    while (first || pos < items.size()) {
        size_t n = items.size() - pos;
        if (lineNo < cuts.size() && static_cast<size_t>(cuts[lineNo]) < n) n = cuts[lineNo];
        if (!first && n == 0) n = 1;
        std::string text = name + " " + type;
        for (size_t i = 0; i < n; ++i) text += (i % 2 ? "\t" : " ") + itemText(items[pos + i]);
        feedLine(text);
        pos += n;
        ++lineNo;
        first = false;
    }
    auto *node = dynamic_cast<IntNode *>(Acl::Node::FindByName(SBuf(name)));
    return node;
}

void resetAcls()
{
    // squid.conf default "configuration_includes_quoted_values off" (what default_all() sets before parsing)
    ConfigParser::RecognizeQuotedValues = false;
    ConfigParser::StrictMode = false;
    if (Config.namedAcls) Acl::FreeNamedAcls(&Config.namedAcls);
}

bool model(const std::vector<Item> &items, const int v)
{
    for (const auto &it : items) {
        const int hi = it.dash ? it.hi : it.lo;
        if (it.lo <= v && v <= hi) return true;
    }
    return false;
}

// ------------------------------------------------------------------ random lists over the port space

struct RCase {
    std::vector<Item> items;
    std::vector<int> cuts;
    std::vector<int> perm;   // permutation of item indices for the second ACL
    std::vector<int> cuts2;
    std::vector<int> probes;
    int type = 0; // 0 port, 1 localport
};

std::string showR(const RCase &c)
{
    vp::Writer w;
    w.i("type", c.type);
    for (const auto &it : c.items) w.s("item", itemText(it));
    for (int x : c.cuts) w.i("cut", x);
    for (int x : c.perm) w.i("perm", x);
    for (int x : c.cuts2) w.i("cut2", x);
    for (int x : c.probes) w.i("probe", x);
    return w.str();
}

Item parseItem(const std::string &s)
{
    Item it;
    const auto d = s.find('-');
    if (d == std::string::npos) { it.lo = it.hi = atoi(s.c_str()); return it; }
    it.dash = true;
    it.lo = atoi(s.substr(0, d).c_str());
    it.hi = atoi(s.substr(d + 1).c_str());
    return it;
}

RCase parseR(const std::string &t)
{
    vp::Reader r(t);
    RCase c;
    c.type = static_cast<int>(r.i("type"));
    for (size_t i = 0; i < r.count("item"); ++i) c.items.push_back(parseItem(r.s("item", i)));
    for (size_t i = 0; i < r.count("cut"); ++i) c.cuts.push_back(static_cast<int>(r.i("cut", i)));
    for (size_t i = 0; i < r.count("perm"); ++i) c.perm.push_back(static_cast<int>(r.i("perm", i)));
    for (size_t i = 0; i < r.count("cut2"); ++i) c.cuts2.push_back(static_cast<int>(r.i("cut2", i)));
    for (size_t i = 0; i < r.count("probe"); ++i) c.probes.push_back(static_cast<int>(r.i("probe", i)));
    return c;
}

int clampPort(long v) { return v < 0 ? 0 : (v > 65535 ? 65535 : static_cast<int>(v)); }

rc::Gen<RCase> genR()
{
    using namespace rc;
    return gen::exec([]() {
        RCase c;
        c.type = *vp::range<int>(0, 1);
        const int n = *gen::weightedElement<int>({{1, 1}, {2, 2}, {3, 3}, {3, 4}, {2, 6}, {1, 9}, {1, 14}});
        const bool wide = *vp::range<int>(0, 3) == 0; // whole 16-bit space, else a narrow window so that values collide
        const int base = *gen::element(0, 0, 1, 80, 1024, 32760, 65000, 65500, 65520);
        const int span = wide ? 65535 : *gen::element(6, 12, 30, 200);
        std::vector<int> pool; // endpoints seen so far: new values are built to touch/overlap them
        for (int i = 0; i < n; ++i) {
            Item it;
            int a;
            const int how = pool.empty() ? 0 : *vp::range<int>(0, 2);
            if (how == 0) a = clampPort(base + *vp::range<int>(0, span));
            else a = clampPort(pool[*vp::range<int>(0, static_cast<int>(pool.size()) - 1)] + *vp::range<int>(-2, 2));
            if (*vp::range<int>(0, 19) == 0) a = *gen::element(0, 1, 65534, 65535);
            it.lo = it.hi = a;
            it.dash = *vp::range<int>(0, 9) < 6;
            if (it.dash) {
                const int k = *vp::range<int>(0, 5);
                int b;
                if (k == 0) b = a; // a-a
                else if (k == 1 && !pool.empty()) b = clampPort(pool[*vp::range<int>(0, static_cast<int>(pool.size()) - 1)] + *vp::range<int>(-2, 2));
                else if (k == 2) b = 65535;
                else b = clampPort(a + *vp::range<int>(0, wide ? 40000 : span));
                if (b < a) std::swap(a, b);
                it.lo = a; it.hi = b;
            }
            pool.push_back(it.lo);
            pool.push_back(it.hi);
            c.items.push_back(it);
        }
        auto cutsGen = [&](std::vector<int> &cuts) {
            const int lines = *gen::weightedElement<int>({{3, 1}, {2, 2}, {1, 3}});
            for (int i = 1; i < lines; ++i) cuts.push_back(*vp::range<int>(0, n)); // 0 = a line without values
        };
        cutsGen(c.cuts);
        cutsGen(c.cuts2);
        for (int i = 0; i < n; ++i) c.perm.push_back(i);
        for (int i = n - 1; i > 0; --i) std::swap(c.perm[i], c.perm[*vp::range<int>(0, i)]);
        std::set<int> pr;
        for (int e : pool) for (int d = -1; d <= 1; ++d) if (e + d >= 0 && e + d <= 65535) pr.insert(e + d);
        pr.insert(0); pr.insert(65535);
        const int extra = *vp::range<int>(0, 6);
        for (int i = 0; i < extra; ++i) pr.insert(*vp::range<int>(0, 65535));
        c.probes.assign(pr.begin(), pr.end());
        return c;
    });
}

bool overlapsOrTouches(const std::vector<Item> &items)
{
    for (size_t i = 0; i < items.size(); ++i)
        for (size_t j = i + 1; j < items.size(); ++j)
            if (items[i].lo <= items[j].hi + 1 && items[j].lo <= items[i].hi + 1) return true;
    return false;
}

vp::Verdict checkR(const RCase &c, vp::Ctx &ctx)
{
    resetAcls();
    if (c.items.empty() || c.perm.size() != c.items.size()) { ctx.excluded("malformed case"); return vp::pass(); }
    for (const auto &it : c.items)
        if (it.lo < 0 || it.hi > 65535 || it.lo > it.hi) { ctx.excluded("value outside the documented syntax"); return vp::pass(); }
    const char *type = c.type ? "localport" : "port";
    std::vector<Item> permuted;
    for (int i : c.perm) {
        if (i < 0 || static_cast<size_t>(i) >= c.items.size()) { ctx.excluded("malformed case"); return vp::pass(); }
        permuted.push_back(c.items[i]);
    }
    const std::string n1 = "vpA" + std::to_string(++aclCounter), n2 = "vpB" + std::to_string(aclCounter);
    IntNode *a = build(n1, type, c.items, c.cuts);
    IntNode *b = build(n2, type, permuted, c.cuts2);
    if (!a || !b) { resetAcls(); return vp::fail("intrange:acl-not-created"); }

    const bool collide = overlapsOrTouches(c.items);
    if (collide) { ctx.nontrivial(); ctx.label("overlapping-or-adjacent-values"); }
    if (c.items.size() >= 2) ctx.label("multi-value");
    if (!c.cuts.empty()) ctx.label("multi-line");
    int hits = 0, misses = 0;
    vp::Verdict v = vp::pass();
    for (int p : c.probes) {
        if (p < 0 || p > 65535) continue; // callers pass a 16-bit port
        const bool want = model(c.items, p);
        const bool got = a->probe(p);
        const bool got2 = b->probe(p);
        want ? ++hits : ++misses;
        if (got != want) {
            v = vp::fail(want ? "intrange:listed-number-not-matched" : "intrange:unlisted-number-matched", "probe " + std::to_string(p));
            break;
        }
        if (got2 != got) {
            v = vp::fail("intrange:order-dependent-answer", "probe " + std::to_string(p));
            break;
        }
    }
    if (hits && misses) ctx.label("probes-both-ways");
    resetAcls();
    return v;
}

// ------------------------------------------------------------------ exhaustive small scope over 0..15

// the 152 values over 0..15: 16 plain numbers, then a-b for all 0 <= a <= b <= 15 (136)
std::vector<Item> smallUniverse()
{
    std::vector<Item> u;
    for (int a = 0; a <= 15; ++a) { Item it; it.lo = it.hi = a; u.push_back(it); }
    for (int a = 0; a <= 15; ++a)
        for (int b = a; b <= 15; ++b) { Item it; it.lo = a; it.hi = b; it.dash = true; u.push_back(it); }
    return u;
}

/// One case = all lists (i, j) and (i, j, k) for every third value k: the first two values select the chunk.
/// Chunks are enumerated deterministically and partitioned over the shards (VP_SHARD/VP_SHARDS), so a run of
/// >= 23256 cases in total covers every list of <= 3 values over the small universe in every order; each shard
/// labels "shard-enumeration-complete" once when it has covered its part.
struct ECase { int i = 0, j = 0; };

std::string showE(const ECase &c) { return vp::Writer().i("i", c.i).i("j", c.j).str(); }
ECase parseE(const std::string &t) { vp::Reader r(t); ECase c; c.i = static_cast<int>(r.i("i")); c.j = static_cast<int>(r.i("j")); return c; }

constexpr int U = 152;

int envInt(const char *name, int dflt)
{
    const char *v = getenv(name);
    return (v && *v) ? atoi(v) : dflt;
}

constexpr long Chunks = static_cast<long>(U) * (U + 1);

/// chunks this process (shard VP_SHARD of VP_SHARDS) enumerates
long myChunks()
{
    const long shards = std::max(1, envInt("VP_SHARDS", 1)), shard = envInt("VP_SHARD", 0) % shards;
    return (Chunks - shard + shards - 1) / shards;
}

rc::Gen<ECase> genE()
{
    using namespace rc;
    return gen::exec([]() {
        // deterministic enumeration (no randomness involved): shard s of n takes chunks s, s+n, s+2n, ... cyclically
        static const long shards = std::max(1, envInt("VP_SHARDS", 1)), shard = envInt("VP_SHARD", 0) % shards;
        static long n = 0;
        const long k = (shard + (n++ % myChunks()) * shards) % Chunks;
        ECase c;
        c.i = static_cast<int>(k / (U + 1));
        c.j = static_cast<int>(k % (U + 1)); // U = no second value
        return c;
    });
}

vp::Verdict checkE(const ECase &c, vp::Ctx &ctx)
{
    static const std::vector<Item> u = smallUniverse();
    static std::set<long> seen;
    resetAcls();
    if (c.i < 0 || c.i >= U || c.j < 0 || c.j > U) { ctx.excluded("malformed case"); return vp::pass(); }
    if (!seen.insert(c.i * 1000L + c.j).second) {
        // the cyclic enumeration came round again: nothing new to learn in this process
        ctx.excluded("chunk already enumerated by this process");
        return vp::pass();
    }
    if (seen.size() == static_cast<size_t>(myChunks())) ctx.label("shard-enumeration-complete");
    ctx.nontrivial();
    std::vector<Item> items;
    items.push_back(u[c.i]);
    if (c.j < U) items.push_back(u[c.j]);
    const int kMax = c.j < U ? U : 0; // k == U: no third value
    for (int k = kMax; k >= 0; --k) {
        std::vector<Item> list = items;
        if (k < U && c.j < U) list.push_back(u[k]);
        const std::string name = "vpE" + std::to_string(++aclCounter);
        std::vector<int> cuts;
        if (list.size() == 3 && (k % 3) == 1) cuts.push_back(1);       // layouts vary with k
        else if (list.size() == 3 && (k % 3) == 2) cuts.push_back(2);
        IntNode *a = build(name, (k & 1) ? "localport" : "port", list, cuts);
        if (!a) { resetAcls(); return vp::fail("intrange:acl-not-created"); }
        for (int p = 0; p <= 17; ++p) {
            const bool want = model(list, p);
            if (a->probe(p) != want) {
                std::string txt;
                for (const auto &it : list) txt += itemText(it) + " ";
                resetAcls();
                return vp::fail(want ? "intrange:listed-number-not-matched" : "intrange:unlisted-number-matched", "list " + txt + "probe " + std::to_string(p));
            }
        }
        resetAcls();
    }
    ctx.label(c.j < U ? "lists-of-2-and-3" : "lists-of-1");
    return vp::pass();
}

} // namespace

static void registerAll()
{
    for (auto &l : Debug::Levels) l = -1; // the stub debug stream prints level-0 warnings (e.g. "empty ACL") to stderr
    Acl::RegisterMaker("port", [](Acl::TypeName name)->Acl::Node* { return new IntNode(name); });
    Acl::RegisterMaker("localport", [](Acl::TypeName name)->Acl::Node* { return new IntNode(name); });
    vp::add<RCase>("random_port_lists", genR(), checkR, showR, parseR, 2.0);
    vp::add<ECase>("small_scope_exhaustive", genE(), checkE, showE, parseE, 1.0);
}

VP_MAIN(registerAll)
