// Replacement for src/tests/stub_libmem.cc (drop "tests/stub_libmem.o" in meta.json when including this).
// Same API surface, but pooled objects get exactly objectSize() bytes from malloc instead of 64 KB each:
//  * ASan then sees the true object bounds (the 64 KB blocks of the repository's stub hide small overflows);
//  * the harness runs several times faster (no 64 KB poisoning / page faults per pooled object).
// Shared by the C41..C44 ACL harnesses (included as "../C43/acl_memstub.h"); include it in exactly one TU.
#pragma once

#include "mem/Allocator.h"
#include "mem/AllocatorProxy.h"
#include "mem/forward.h"
#include "mem/Pool.h"
#include "mem/Stats.h"

void *Mem::AllocatorProxy::alloc() { return xcalloc(1, size ? size : 1); }
void Mem::AllocatorProxy::freeOne(void *address) { xfree(address); }
int Mem::AllocatorProxy::inUseCount() const { return 0; }
size_t Mem::AllocatorProxy::getStats(PoolStats &) { return 0; }

void Mem::Init() {}
void Mem::Stats(StoreEntry *) {}
void Mem::CleanIdlePools(void *) {}
void Mem::Report(std::ostream &) {}
void Mem::PoolReport(const PoolStats *, const PoolMeter *, std::ostream &) {}
void memClean(void) {}
void memInitModule(void) {}
void memCleanModule(void) {}
void memConfigure(void) {}

void *memAllocate(mem_type) { return xcalloc(1, 64 * 1024); } // typed legacy buffers: size unknown here, keep the stub's size

void *
memAllocBuf(size_t net_size, size_t *gross_size)
{
    if (gross_size)
        *gross_size = net_size;
    return xmalloc(net_size ? net_size : 1);
}

void *
memReallocBuf(void *oldbuf, size_t net_size, size_t *gross_size)
{
    void *rv = xrealloc(oldbuf, net_size ? net_size : 1);
    *gross_size = net_size;
    return rv;
}

void memFree(void *p, int) { xfree(p); }
void memFreeBuf(size_t, void *buf) { xfree(buf); }
static void vp_cxx_xfree(void *ptr) { xfree(ptr); }
FREE *memFreeBufFunc(size_t) { return vp_cxx_xfree; }
int memInUse(mem_type) { return 0; }

static MemPools vpTmpMemPools;
MemPools &MemPools::GetInstance() { return vpTmpMemPools; }
MemPools::MemPools() {}
void MemPools::flushMeters() {}
/// plain calloc/free pool for the users of memPoolCreate() (the real cbdata.cc in C44)
class VpMallocPool: public Mem::Allocator
{
public:
    VpMallocPool(const char *label, const size_t sz): Mem::Allocator(label, sz) {}
    size_t getStats(Mem::PoolStats &) override { return 0; }
    bool idleTrigger(int) const override { return false; }
    void clean(time_t) override {}
protected:
    void *allocate() override { return xcalloc(1, objectSize); }
    void deallocate(void *p) override { xfree(p); }
};
Mem::Allocator *MemPools::create(const char *label, size_t sz) { return new VpMallocPool(label, sz); }
void MemPools::clean(time_t) {}
void MemPools::setDefaultPoolChunking(bool const &) {}

size_t Mem::GlobalStats(PoolStats &) { return 0; }
