"""C45 http_access decisions are enforced end to end.

A fresh proxy instance is started for every generated configuration (acl lines over
src/dst/dstdomain/port/method + http_access rules); generated requests over a small universe
(client source addresses 127.0.0.1-6, three origin addresses 127.0.1.1-3 x three ports, names in the
hosts file, seven methods) are judged against a reference first-match evaluator written from the
documented configuration semantics (squid.conf documentation of acl/http_access):
  * an acl matches when ANY of its values matches (OR); a rule matches when ALL its acls match (AND),
    '!' negates one acl; the first matching rule decides; when no rule matches the answer is the
    opposite of the last rule's action.
Values the documentation leaves open are evaluated three-valued (None = open) and a request whose
decision depends on an open value is excluded and counted:
  * dstdomain (without -n) against an IP-literal URL host triggers a reverse lookup whose result is
    environment dependent -> open; with -n it is a documented mismatch.
"""
import os
import time

from hypothesis import strategies as st

from vlib import native
from vlib.e2e import client, origin as originmod, squidproc
from vlib.e2e_runner import Result

NSRC = 6                      # client addresses 127.0.0.1 .. 127.0.0.6
NDST = 3                      # origin addresses 127.0.1.1 .. 127.0.1.3
NPORT = 3                     # origin ports base .. base+2
NAMES = {                     # hosts file: one address per name
    "a.example.test": 1, "b.example.test": 2, "www.a.example.test": 1,
    "example.test": 3, "c.other.test": 3, "other.test": 2,
}
NAME_LIST = sorted(NAMES)
DOMAIN_PATTERNS = ["a.example.test", ".a.example.test", ".example.test", "example.test", ".test", "other.test", ".other.test",
                   "c.other.test", "b.example.test", "www.a.example.test", ".nomatch.test", "xample.test"]
METHODS = ["GET", "POST", "PUT", "HEAD", "OPTIONS", "DELETE", "CONNECT"]


# ---------------------------------------------------------------------------- generator
def _addr_values(n):
    """values of a src/dst acl over last octets 1..n: single, range, aligned CIDR, address/netmask"""
    single = st.integers(1, n).map(lambda k: ["ip", k])
    rng = st.tuples(st.integers(1, n), st.integers(1, n)).map(lambda t: ["range", min(t), max(t)])
    cidr = st.sampled_from([["cidr", 0, 29], ["cidr", 0, 30], ["cidr", 4, 30], ["cidr", 2, 31], ["cidr", 4, 31], ["cidr", 6, 31],
                            ["cidr", 0, 24], ["mask", 2, "255.255.255.254"], ["mask", 4, "255.255.255.252"]])
    return st.lists(st.one_of(single, single, rng, cidr), min_size=1, max_size=3)


def _acl():
    src = _addr_values(NSRC).map(lambda v: {"type": "src", "values": v})
    dst = _addr_values(NDST).map(lambda v: {"type": "dst", "values": v})
    dom = st.tuples(st.lists(st.sampled_from(DOMAIN_PATTERNS), min_size=1, max_size=3, unique=True), st.booleans()).map(
        lambda t: {"type": "dstdomain", "values": t[0], "n": t[1]})
    port = st.lists(st.one_of(st.integers(0, NPORT - 1).map(lambda k: ["p", k]),
                              st.tuples(st.integers(-1, NPORT), st.integers(-1, NPORT)).map(lambda t: ["pr", min(t), max(t)]),
                              st.just(["lit", 80])), min_size=1, max_size=2).map(lambda v: {"type": "port", "values": v})
    meth = st.lists(st.sampled_from(METHODS), min_size=1, max_size=3, unique=True).map(lambda v: {"type": "method", "values": v})
    return st.one_of(src, src, dst, dom, dom, port, meth)


def strategy(tp):
    nreq = int(tp.get("requests", 20))

    @st.composite
    def scen(draw):
        acls = draw(st.lists(_acl(), min_size=2, max_size=6))
        names = ["acl%d" % i for i in range(len(acls))] + ["all", "localhost"]
        term = st.tuples(st.booleans(), st.sampled_from(names + names[:len(acls)] * 3)).map(list)   # [negated, name]
        rule = st.tuples(st.sampled_from(["allow", "deny"]), st.lists(term, min_size=1, max_size=3)).map(list)
        rules = draw(st.lists(rule, min_size=1, max_size=6))
        req = st.fixed_dictionaries({
            "src": st.integers(1, NSRC),
            "host": st.one_of(st.sampled_from(NAME_LIST).map(lambda n: ["name", n]), st.sampled_from(NAME_LIST).map(lambda n: ["name", n]),
                              st.integers(1, NDST).map(lambda k: ["ip", k])),
            "upper": st.booleans(),
            "port": st.integers(0, NPORT - 1),
            "method": st.sampled_from(METHODS + ["GET", "GET", "POST"]),
            "keep": st.booleans(),
        })
        return {"acls": acls, "rules": rules, "requests": draw(st.lists(req, min_size=nreq // 2, max_size=nreq))}
    return scen()


# ---------------------------------------------------------------------------- configuration text
def _addr_text(prefix, v):
    if v[0] == "ip":
        return "%s.%d" % (prefix, v[1])
    if v[0] == "range":
        return "%s.%d-%s.%d" % (prefix, v[1], prefix, v[2])
    if v[0] == "cidr":
        return "%s.%d/%d" % (prefix, v[1], v[2])
    return "%s.%d/%s" % (prefix, v[1], v[2])


def _addr_set(v):
    """last octets matched by one value (within 0..255)"""
    if v[0] == "ip":
        return {v[1]}
    if v[0] == "range":
        return set(range(v[1], v[2] + 1))
    if v[0] == "cidr":
        size = 1 << (32 - v[2])
        return set(range(v[1], min(256, v[1] + size)))
    bits = {"255.255.255.254": 2, "255.255.255.252": 4}[v[2]]
    return set(range(v[1], v[1] + bits))


def conf_lines(sc, base_port):
    out = []
    for i, a in enumerate(sc["acls"]):
        name = "acl%d" % i
        if a["type"] == "src":
            vals = [_addr_text("127.0.0", v) for v in a["values"]]
        elif a["type"] == "dst":
            vals = [_addr_text("127.0.1", v) for v in a["values"]]
        elif a["type"] == "dstdomain":
            vals = (["-n"] if a["n"] else []) + list(a["values"])
        elif a["type"] == "port":
            vals = []
            for v in a["values"]:
                if v[0] == "p":
                    vals.append(str(base_port + v[1]))
                elif v[0] == "pr":
                    vals.append("%d-%d" % (base_port + v[1], base_port + v[2]))
                else:
                    vals.append(str(v[1]))
        else:
            vals = list(a["values"])
        out.append("acl %s %s %s" % (name, a["type"], " ".join(vals)))
    access = []
    for action, terms in sc["rules"]:
        access.append("http_access %s %s" % (action, " ".join(("!" if neg else "") + n for neg, n in terms)))
    return "\n".join(out) + "\n", "\n".join(access)


# ---------------------------------------------------------------------------- reference evaluator (three-valued)
def acl_match(a, rq, base_port):
    """-> True / False / None (open)"""
    t = a["type"]
    if t == "src":
        return any(rq["src"] in _addr_set(v) for v in a["values"])
    if t == "dst":
        d = NAMES[rq["host"][1]] if rq["host"][0] == "name" else rq["host"][1]
        return any(d in _addr_set(v) for v in a["values"])
    if t == "dstdomain":
        if rq["host"][0] == "ip":
            return False if a["n"] else None
        h = rq["host"][1].lower()
        for p in a["values"]:
            p = p.lower()
            if p.startswith("."):
                if h == p[1:] or h.endswith(p):
                    return True
            elif h == p:
                return True
        return False
    if t == "port":
        p = base_port + rq["port"]
        for v in a["values"]:
            if v[0] == "p" and p == base_port + v[1]:
                return True
            if v[0] == "pr" and base_port + v[1] <= p <= base_port + v[2]:
                return True
            if v[0] == "lit" and p == v[1]:
                return True
        return False
    if t == "method":
        return rq["method"] in a["values"]
    raise AssertionError(t)


def _k_and(vals):
    if any(v is False for v in vals):
        return False
    if any(v is None for v in vals):
        return None
    return True


def decide(sc, rq, base_port):
    """-> (decision 'allow'|'deny'|None(open), deciding rule number 1-based or 0 for the implicit default)"""
    for i, (action, terms) in enumerate(sc["rules"]):
        vals = []
        for neg, name in terms:
            if name == "all":
                v = True
            elif name == "localhost":
                v = rq["src"] == 1
            else:
                v = acl_match(sc["acls"][int(name[3:])], rq, base_port)
            if neg and v is not None:
                v = not v
            vals.append(v)
        m = _k_and(vals)
        if m is None:
            return None, i + 1
        if m:
            return action, i + 1
    return ("allow" if sc["rules"][-1][0] == "deny" else "deny"), 0


# ---------------------------------------------------------------------------- environment
class Env:
    def __init__(self, ctx):
        native.build_all()
        self.ctx = ctx
        self.clock = originmod.Clock()
        self.origins = {}
        self.base_port = None
        base = 20000 + (os.getpid() * 13) % 9000
        for attempt in range(200):
            made = []
            try:
                for d in range(1, NDST + 1):
                    for p in range(NPORT):
                        made.append(((d, p), originmod.Origin(self.clock, host="127.0.1.%d" % d, port=base + p)))
                self.origins = dict(made)
                self.base_port = base
                break
            except OSError:
                for _, o in made:
                    o.stop()
                base += 10
        if self.base_port is None:
            raise RuntimeError("no free origin port block")
        for o in self.origins.values():
            o.default_behaviour = {"status": 200, "reason": "OK", "body_b64": "b3JpZ2lu", "framing": "length", "headers": [["X-Origin", "yes"], ["Cache-Control", "no-store"]]}
        self.n = 0
        # a one-line MIME table: loading the default table and its icons costs about a second per start
        self.mime = os.path.join(squidproc.RUN, "C45-mime-%d.conf" % os.getpid())
        os.makedirs(squidproc.RUN, exist_ok=True)
        with open(self.mime, "w") as f:
            f.write("\\.png$ image/png silk/image.png - image +download\n")
        os.chmod(self.mime, 0o644)

    def ns(self):
        self.n += 1
        return "c45-w%d-%d-%d" % (self.ctx.worker, os.getpid(), self.n)

    def arrivals(self, target):
        out = []
        for key, o in self.origins.items():
            for a in o.arrivals_for(target):
                out.append((key, a))
        return out

    def close(self):
        for o in self.origins.values():
            o.stop()
        try:
            os.unlink(self.mime)
        except OSError:
            pass


def setup(ctx):
    return Env(ctx)


def teardown(env):
    env.close()


# ---------------------------------------------------------------------------- execution
def _host_text(rq):
    if rq["host"][0] == "ip":
        return "127.0.1.%d" % rq["host"][1]
    return rq["host"][1].upper() if rq["upper"] else rq["host"][1]


def _one(env, sq, sc, rq, idx, ns, conns, r):
    """Issue one request and judge it. Returns a class label."""
    exp, by_rule = decide(sc, rq, env.base_port)
    if exp is None:
        r.label("excluded:open-acl-value")
        return
    host = _host_text(rq)
    port = env.base_port + rq["port"]
    path = "/%s-%d" % (ns, idx)
    method = rq["method"]
    src = "127.0.0.%d" % rq["src"]
    c = conns.get(src) if rq["keep"] else None
    if c is None:
        try:
            c = client.Conn(sq.ports[0], src=src, timeout=20)
        except OSError as e:
            r.inconclusive = "client connect failed: %r" % e
            return
        reused = False
    else:
        reused = True
        conns.pop(src, None)
    try:
        if method == "CONNECT":
            data = "CONNECT %s:%d HTTP/1.1\r\nHost: %s:%d\r\n\r\n" % (host, port, host, port)
        else:
            body = b"payload" if method in ("POST", "PUT") else b""
            data = "%s http://%s:%d%s HTTP/1.1\r\nHost: %s:%d\r\n" % (method, host, port, path, host, port)
            if method in ("POST", "PUT"):
                data += "Content-Length: %d\r\n" % len(body)
            data += "\r\n"
        c.send(data.encode() + (b"" if method == "CONNECT" else body))
        m = c.read_response(method.encode(), timeout=20)
        if m is None or m.timed_out:
            r.inconclusive = "client timed out"
            c.close()
            return
        if reused and m.status is None:
            # the proxy may close an idle persistent connection at any time: not judged
            r.label("reused-connection-closed")
            c.close()
            return
        if getattr(m, "bad", False) or m.status is None:
            r.inconclusive = "no parsable response"
            c.close()
            return
        tunnel_ok = False
        if method == "CONNECT" and m.status == 200:
            c.send(("GET %s HTTP/1.1\r\nHost: %s:%d\r\nConnection: close\r\n\r\n" % (path, host, port)).encode())
            m2 = c.read_response(b"GET", timeout=20)
            tunnel_ok = bool(m2 is not None and m2.status == 200 and m2.get("x-origin") == b"yes")
            if m2 is None or m2.timed_out:
                r.inconclusive = "tunnel timed out"
        # let a forwarded request be logged by the origin thread
        arr = env.arrivals(path)
        r.sub_evaluations += 1
        cls = "%s-by-%s" % (exp, "default" if by_rule == 0 else ("rule1" if by_rule == 1 else "rule2+"))
        r.label(cls)
        r.label("method-" + method)
        if reused:
            r.label("reused-connection")
        if by_rule != 1:
            r.nontrivial = True
        what = "request #%d %s %s:%d from %s (expected %s by %s)" % (idx, method, host, port, src, exp, "implicit default" if by_rule == 0 else "rule %d" % by_rule)
        if exp == "deny":
            if arr:
                r.fail("denied-request-reached-origin", what + "; status %s" % m.status)
            elif m.status != 403 or not (m.get("x-squid-error") or b"").startswith(b"ERR_ACCESS_DENIED"):
                if r.inconclusive:
                    pass
                else:
                    r.fail("denied-request-not-answered-403-access-denied", what + "; got status %s X-Squid-Error=%r" % (m.status, m.get("x-squid-error")))
        else:
            if m.status == 403 and (m.get("x-squid-error") or b"").startswith(b"ERR_ACCESS_DENIED"):
                r.fail("allowed-request-denied", what)
            elif r.inconclusive:
                pass
            elif not arr:
                if m.has("x-squid-error"):
                    r.label("allowed-but-squid-error:" + m.get("x-squid-error").decode("latin-1").split()[0])
                    r.inconclusive = "allowed request failed inside the proxy (%s)" % m.get("x-squid-error").decode("latin-1")
                else:
                    r.fail("allowed-request-did-not-reach-origin", what + "; status %s" % m.status)
            else:
                want = (NAMES[rq["host"][1]] if rq["host"][0] == "name" else rq["host"][1], rq["port"])
                if any(k != want for k, _a in arr):
                    r.fail("request-forwarded-to-wrong-origin", what + "; arrived at %s" % sorted(k for k, _a in arr))
                if method == "CONNECT":
                    if not tunnel_ok:
                        r.fail("allowed-tunnel-did-not-relay", what)
                elif m.status != 200 or m.get("x-origin") != b"yes":
                    r.fail("allowed-request-not-answered-by-origin", what + "; status %s" % m.status)
        if method != "CONNECT" and m.complete and not (m.get("connection") or b"").lower() == b"close":
            conns[src] = c
        else:
            c.close()
    except OSError as e:
        r.inconclusive = "socket error: %r" % e
        c.close()


def execute(env, sc):
    r = Result()
    r.sub_evaluations = 0
    ns = env.ns()
    conf, access = conf_lines(sc, env.base_port)
    hosts = dict((n, "127.0.1.%d" % d) for n, d in NAMES.items())
    sq = squidproc.Squid("C45-w%d" % env.ctx.worker, conf=conf + "mime_table %s\n" % env.mime, access=access, clock=env.clock, hosts=hosts, cache_mem="8 MB")
    try:
        try:
            sq.start(timeout=120)
        except RuntimeError as e:
            log = sq.cache_log()
            if "FATAL" in log or "Bungled" in log:
                r.label("config-rejected")
                r.inconclusive = "configuration rejected: " + (log[log.find("FATAL"):][:200] if "FATAL" in log else str(e)[:200])
            else:
                r.inconclusive = "proxy did not start in time"
            return r
        r.label("config-started")
        conns = {}
        for idx, rq in enumerate(sc["requests"]):
            _one(env, sq, sc, rq, idx, ns, conns, r)
            if r.violations or (r.inconclusive and "timed out" in r.inconclusive):
                break
        for c in conns.values():
            c.close()
        for sig, detail in sq.health_problems():
            r.fail("memory-safety/liveness:" + sig, detail)
    finally:
        try:
            sq.destroy()
        except Exception:
            pass
    r.sub_evaluations = max(1, r.sub_evaluations)
    return r
