// C34 (in-process part) The log-quoting transformations are reversible and emit no raw line breaks.
// Domain : byte strings (NUL-free: the functions take C strings) dense in the delimiters of each quoting style,
//          CR, LF, TAB, backslash runs, %, brackets, control and high bytes; short shrinkable ones and long expansions.
// Oracle : written from the logformat documentation (cf.data.pre): output holds no raw CR/LF (and, for URL encoding,
//          no SP / control byte), and the documented inverse transformation gives the input back.
// Reached: log_quoted_string() is file-static, so Format.cc is part of this translation unit; QuoteMimeBlob (format/Quoting.cc),
//          strwordquote (tools.cc) and rfc1738_escape (lib/rfc1738.cc) are the linked real functions.
#include "squid.h"
#include "format/Format.cc"
#include "format/Quoting.h"
#include "MemBuf.h"
#include "rfc1738.h"
#include "tools.h"

#include "verif_pbt.h"

static const char *const kPieces[] = {"\"", "\\", "\r", "\n", "\r\n", "\t", " ", "%", "[", "]", "\\n", "\\r", "\\\"", "\\\\", "%0a", "%0D%0A", "%5d", "%%", "\"\"", " \"", "\" ",
                                      "\\\\\\", "a b", "\x01", "\x1f", "\x7f", "\x80", "\xff", "#", "'", "END", "x=y"
                                     };

template <class Next>
static void appendSome(std::string &s, const int flavour, Next &&next)
{
    const int k = next(10);
    if (flavour == 0 && k < 8) { s += static_cast<char>(1 + next(255)); return; }
    if (k < 6) s += kPieces[next(static_cast<int>(sizeof(kPieces) / sizeof(*kPieces)))];
    else if (k == 6) s += static_cast<char>(0x7f + next(0x81));
    else if (k == 7) s += static_cast<char>(1 + next(0x1f));
    else s += static_cast<char>('a' + next(26));
}

static rc::Gen<std::string> genString()
{
    using namespace rc;
    return gen::exec([]() {
        const int lenKind = *vp::range<int>(0, 19);
        const int flavour = *vp::range<int>(0, 3);
        std::string s;
        if (lenKind < 10) {
            const size_t n = *vp::range<size_t>(0, 10);
            while (s.size() < n) appendSome(s, flavour, [](int m) { return *vp::range<int>(0, m - 1); });
            return s;
        }
        // 1024 is the size of Format::assemble()'s scratch buffer: values of 2*len+1 >= 1024 take the heap path there
        const size_t n = lenKind < 16 ? *vp::range<size_t>(0, 100) : lenKind < 19 ? *vp::range<size_t>(400, 1600) : *vp::range<size_t>(0, 20000);
        uint64_t state = *gen::arbitrary<uint64_t>();
        auto next = [&state](int m) {
            state += 0x9E3779B97F4A7C15ULL;
            uint64_t z = state;
            z = (z ^ (z >> 30)) * 0xBF58476D1CE4E5B9ULL;
            z = (z ^ (z >> 27)) * 0x94D049BB133111EBULL;
            z ^= z >> 31;
            return static_cast<int>(z % static_cast<uint64_t>(m));
        };
        while (s.size() < n) appendSome(s, flavour, next);
        if (s.size() > n) s.resize(n);
        return s;
    });
}

struct StrCase { std::string s; };
static std::string showStr(const StrCase &c) { return vp::Writer().s("s", c.s).str(); }
static StrCase parseStr(const std::string &t) { vp::Reader r(t); StrCase c; c.s = r.s("s"); return c; }
static rc::Gen<StrCase> genCase() { return rc::gen::map(genString(), [](std::string s) { StrCase c; c.s = std::move(s); return c; }); }

// ---- documented inverse transformations
static bool unBackslash(const std::string &q, const bool tab, std::string &out, std::string &why)
{
    for (size_t i = 0; i < q.size(); ++i) {
        if (q[i] != '\\') { out += q[i]; continue; }
        if (++i >= q.size()) { why = "dangling-backslash"; return false; }
        if (q[i] == 'r') out += '\r';
        else if (q[i] == 'n') out += '\n';
        else if (tab && q[i] == 't') out += '\t';
        else out += q[i];
    }
    return true;
}

static int hexv(const char c)
{
    if (c >= '0' && c <= '9') return c - '0';
    if (c >= 'a' && c <= 'f') return c - 'a' + 10;
    if (c >= 'A' && c <= 'F') return c - 'A' + 10;
    return -1;
}

static bool unPercent(const std::string &q, const bool backslashes, std::string &out, std::string &why)
{
    for (size_t i = 0; i < q.size(); ++i) {
        if (q[i] == '%') {
            if (i + 2 >= q.size()) { why = "short-percent-triplet"; return false; }
            const int a = hexv(q[i + 1]), b = hexv(q[i + 2]);
            if (a < 0 || b < 0) { why = "bad-percent-triplet"; return false; }
            out += static_cast<char>(a * 16 + b);
            i += 2;
        } else if (backslashes && q[i] == '\\') {
            if (++i >= q.size()) { why = "dangling-backslash"; return false; }
            out += q[i] == 'r' ? '\r' : q[i] == 'n' ? '\n' : q[i];
        } else
            out += q[i];
    }
    return true;
}

static bool rawLineBreak(const std::string &q) { return q.find('\r') != std::string::npos || q.find('\n') != std::string::npos; }

static vp::Verdict finish(const char *style, const std::string &in, const std::string &q, const bool ok, const std::string &back, const std::string &why)
{
    const std::string ctx = "input " + vp::esc(in.substr(0, 200)) + " quoted " + vp::esc(q.substr(0, 400));
    if (rawLineBreak(q))
        return vp::fail(std::string(style) + ":raw-line-break-in-output", ctx);
    if (!ok)
        return vp::fail(std::string(style) + ":output-not-decodable:" + why, ctx);
    if (back != in)
        return vp::fail(std::string(style) + ":decoded-output-differs-from-input", ctx + " decoded " + vp::esc(back.substr(0, 200)));
    return vp::pass();
}

static void classify(const std::string &s, vp::Ctx &ctx, const char *delims)
{
    bool own = false, lb = false, high = false;
    for (const unsigned char ch : s) {
        own |= strchr(delims, ch) != nullptr;
        lb |= ch == '\r' || ch == '\n';
        high |= ch >= 0x7f || ch < 0x20;
    }
    if (own) ctx.label("has-own-delimiter");
    if (lb) ctx.label("has-line-break");
    if (high) ctx.label("has-control-or-high-byte");
    if (s.size() >= 512) ctx.label("longer-than-scratch-buffer-half");
    if (own || lb) ctx.nontrivial();
}

static bool usable(const StrCase &c, vp::Ctx &ctx)
{
    if (c.s.find('\0') != std::string::npos) { ctx.excluded("string contains NUL (not a C string)"); return false; }
    return true;
}

// %" : quoted-string encoding, exactly as Format::assemble() calls it (output buffer of 2*len+1 bytes)
static vp::Verdict checkQuotedString(const StrCase &c, vp::Ctx &ctx)
{
    if (!usable(c, ctx)) return vp::pass();
    classify(c.s, ctx, "\"\\\t");
    std::vector<char> out(c.s.size() * 2 + 1, 'X');        // exact size: ASan sees any overrun
    log_quoted_string(c.s.c_str(), out.data());
    const std::string q(out.data());
    if (q.find('\t') != std::string::npos)
        return vp::fail("quoted-string:raw-tab-in-output", "input " + vp::esc(c.s.substr(0, 200)));
    // an unescaped quote would end the field early
    for (size_t i = 0; i < q.size(); ++i) {
        if (q[i] == '\\') { ++i; continue; }
        if (q[i] == '"') return vp::fail("quoted-string:unescaped-quote-in-output", "input " + vp::esc(c.s.substr(0, 200)) + " quoted " + vp::esc(q.substr(0, 400)));
    }
    std::string back, why;
    const bool ok = unBackslash(q, true, back, why);
    return finish("quoted-string", c.s, q, ok, back, why);
}

// %[ : mime-blob encoding
static vp::Verdict checkMimeBlob(const StrCase &c, vp::Ctx &ctx)
{
    if (!usable(c, ctx)) return vp::pass();
    classify(c.s, ctx, "[]%\\");
    char *raw = Format::QuoteMimeBlob(c.s.c_str());
    const std::string q(raw);
    xfree(raw);
    for (const unsigned char ch : q) {
        if (ch == '[' || ch == ']' || ch < 0x20 || ch >= 0x7f)
            return vp::fail("mime-blob:unencoded-byte-in-output", "input " + vp::esc(c.s.substr(0, 200)) + " quoted " + vp::esc(q.substr(0, 400)));
    }
    std::string back, why;
    const bool ok = unPercent(q, true, back, why);
    return finish("mime-blob", c.s, q, ok, back, why);
}

// %# : URL encoding
static vp::Verdict checkUrl(const StrCase &c, vp::Ctx &ctx)
{
    if (!usable(c, ctx)) return vp::pass();
    classify(c.s, ctx, " %\"<>");
    const std::string q(rfc1738_escape(c.s.c_str()));
    for (const unsigned char ch : q) {
        if (ch <= 0x20 || ch >= 0x7f)
            return vp::fail("url:unsafe-byte-in-output", "input " + vp::esc(c.s.substr(0, 200)) + " quoted " + vp::esc(q.substr(0, 400)));
    }
    std::string back, why;
    const bool ok = unPercent(q, false, back, why);
    return finish("url", c.s, q, ok, back, why);
}

// %/ : shell-like encoding
static vp::Verdict checkShell(const StrCase &c, vp::Ctx &ctx)
{
    if (!usable(c, ctx)) return vp::pass();
    classify(c.s, ctx, " \"\\");
    MemBuf mb;
    mb.init();
    strwordquote(&mb, c.s.c_str());
    std::string q(mb.content(), mb.contentSize());
    mb.clean();
    const bool hasSpace = c.s.find(' ') != std::string::npos;
    if (hasSpace) {
        if (q.size() < 2 || q.front() != '"' || q.back() != '"')
            return vp::fail("shell:value-with-space-not-surrounded-by-quotes", "input " + vp::esc(c.s.substr(0, 200)) + " quoted " + vp::esc(q.substr(0, 400)));
        q = q.substr(1, q.size() - 2);
    }
    for (size_t i = 0; i < q.size(); ++i) {
        if (q[i] == '\\') { ++i; continue; }
        if (q[i] == '"') return vp::fail("shell:unescaped-quote-in-output", "input " + vp::esc(c.s.substr(0, 200)) + " quoted " + vp::esc(q.substr(0, 400)));
    }
    std::string back, why;
    const bool ok = unBackslash(q, false, back, why);
    return finish("shell", c.s, q, ok, back, why);
}

static void registerAll()
{
    vp::add<StrCase>("quoted_string", genCase(), checkQuotedString, showStr, parseStr, 50000);
    vp::add<StrCase>("mime_blob", genCase(), checkMimeBlob, showStr, parseStr, 50000);
    vp::add<StrCase>("url_encoding", genCase(), checkUrl, showStr, parseStr, 50000);
    vp::add<StrCase>("shell_quoting", genCase(), checkShell, showStr, parseStr, 50000);
}

VP_MAIN(registerAll)
