"""C34 Each transaction yields exactly one well-delimited access log record (end-to-end part).

The proxy logs with a custom logformat that applies every quoting modifier (" [ # / and the per-code default) to a request
header value and to the authenticated user name, each field wrapped in the delimiter that quoting style protects, plus the
raw (') modifier as the last field.  Scenarios are 1-4 transactions (plain, pipelined, aborted by the client before the
reply / in the middle of the request body) with hostile values.  After quiescence the new part of access.log must hold
exactly one line per transaction, every line must parse under the configured format, and undoing each reversible quoting
must give back the bytes that were sent.
"""
import base64
import os
import shutil
import time

from hypothesis import strategies as st

from vlib.common import RUN
from vlib.e2e import client
from vlib.e2e.env import ProxyEnv
from vlib.e2e_runner import Result

LOGFORMAT = ("logformat c34 T=%{X-Tag}>h q=\"%\"{X-V}>h\" m=[%[{X-V}>h] u=%#{X-V}>h s=%/{X-V}>h d=%{X-V}>h "
             "uq=\"%\"un\" um=[%[un] uu=%#un us=%/un ru=%ru rq=\"%\"ru\" st=%>Hs hq=\"%\">h\" END r=%'{X-V}>h")
FIELDS = [("T", "word"), ("q", "quoted"), ("m", "bracket"), ("u", "word"), ("s", "shell"), ("d", "word"),
          ("uq", "quoted"), ("um", "bracket"), ("uu", "word"), ("us", "shell"), ("ru", "word"), ("rq", "quoted"), ("st", "word"),
          ("hq", "quoted")]      # the whole received request header block (the one multi-line value a client controls) under %" quoting

HELPER = "#!/bin/sh\nwhile read user pass; do\n  echo OK\ndone\n"

# atoms of hostile values (code points < 256; header values never start or end with white space, never hold CR LF NUL)
ATOMS = ["\"", "\\", "\t", " ", "  ", "%0a", "%0d%0a", "%", "%25", "%22", "[", "]", "#", "'", "\x01", "\x08", "\x0b", "\x0c", "\x1b", "\x7f", "\x80", "\xa0", "\xff",
         "\\n", "\\r", "\\\"", "\\\\", "\" ", " \"", "\"\"", "a", "Z", "0", "-", "=", ";", ",", "<", ">", "|", "&", "$(x)", "`", "{}", "^", "~", "?", "/",
         " T=forged END r=", "\" m=[x] u=y", "] u=", "END", "\xe2\x82\xac"]
USER_EXTRA = ["\n", "\r", "\r\n", "\nT=forged q=\"\" END r="]          # a Basic user name is base64-carried: any byte but ':' can arrive (NUL excluded: C string)


def _value(atoms_strategy):
    return st.lists(atoms_strategy, min_size=0, max_size=8).map("".join)


def strategy(tp):
    hv = st.one_of(_value(st.sampled_from(ATOMS)), st.text(alphabet=[chr(c) for c in range(1, 256) if c not in (10, 13)], max_size=40),
                   st.tuples(st.sampled_from(ATOMS), st.integers(300, 3000)).map(lambda t: (t[0] * t[1])[:t[1]]))
    uv = st.one_of(st.none(), _value(st.sampled_from(ATOMS + USER_EXTRA)), st.text(alphabet=[chr(c) for c in range(1, 256) if c not in (58, 10, 13)], min_size=1, max_size=30))
    txn = st.fixed_dictionaries({
        "value": hv,
        "user": uv,
        "kind": st.sampled_from(["plain", "plain", "plain", "abort-before-reply", "abort-in-body", "deny", "error-url"]),
        "method": st.sampled_from(["GET", "GET", "POST"]),
        "path_extra": _value(st.sampled_from(["\"", "%22", "%0a", "'", "\\", "[", "]", "<", "a", "%", "?x=\"y\"", "\t"])),
        "version": st.sampled_from(["HTTP/1.1", "HTTP/1.1", "HTTP/1.0"]),
        # obs-fold / bare CR inside the value: what Squid "received" is then its own normalisation, so only delimiting is judged
        "fold": st.sampled_from([None] * 8 + ["\r\n ", "\r\n\t", "\r", "\n "]),
    })
    return st.fixed_dictionaries({
        "txns": st.lists(txn, min_size=1, max_size=4),
        "pipeline": st.booleans(),
    })


def setup(ctx):
    hdir = os.path.join(RUN, "C34-helper-%d-w%d" % (os.getpid(), ctx.worker))
    shutil.rmtree(hdir, ignore_errors=True)
    os.makedirs(hdir)
    os.chmod(hdir, 0o755)
    helper = os.path.join(hdir, "okhelper.sh")
    with open(helper, "w") as f:
        f.write(HELPER)
    os.chmod(helper, 0o755)
    conf = "\n".join([
        LOGFORMAT.replace("{", "{{").replace("}", "}}"),
        "access_log stdio:{run}/c34.log c34",
        "auth_param basic program %s" % helper,
        "auth_param basic children 3 startup=1",
        "auth_param basic casesensitive on",
        "auth_param basic credentialsttl 1 hour",
        "acl authed proxy_auth REQUIRED",
        "acl hascred req_header Proxy-Authorization .",
        "acl p_deny urlpath_regex /deny/",
        "strip_query_terms off",
        "pipeline_prefetch 3",
        "request_timeout 20 seconds",
        "read_timeout 20 seconds",
        "relaxed_header_parser %s" % ("on" if ctx.worker % 2 == 0 else "off"),
    ]) + "\n"
    access = "http_access deny hascred !authed\nhttp_access deny p_deny\nhttp_access allow all"
    env = ProxyEnv(ctx, conf=conf, cache_mem="0 MB", access=access)
    env.hdir = hdir
    env.log_pos = 0
    return env


def teardown(env):
    env.close()
    shutil.rmtree(env.hdir, ignore_errors=True)


# ---------------------------------------------------------------------------------------------- reference log reader
class Malformed(Exception):
    pass


def _expect(line, pos, lit):
    if line[pos:pos + len(lit)] != lit:
        raise Malformed("expected %r at offset %d, found %r" % (lit, pos, line[pos:pos + 30]))
    return pos + len(lit)


def _word(line, pos):
    j = line.find(b" ", pos)
    if j < 0:
        raise Malformed("unterminated word field at offset %d" % pos)
    return line[pos:j], j


def _quoted(line, pos):
    """pos is just behind the opening quote; -> (raw content, position behind the closing quote)"""
    j = pos
    while j < len(line):
        c = line[j]
        if c == 0x5c:
            j += 2
            continue
        if c == 0x22:
            return line[pos:j], j + 1
        j += 1
    raise Malformed("unterminated quoted field at offset %d" % pos)


def parse_line(line):
    """Split one log line under the delimiting rules of LOGFORMAT. -> dict name -> raw field bytes"""
    out = {}
    pos = 0
    for i, (name, kind) in enumerate(FIELDS):
        pos = _expect(line, pos, (b"" if i == 0 else b" ") + name.encode() + b"=")
        if kind == "word":
            out[name], pos = _word(line, pos)
        elif kind == "quoted":
            pos = _expect(line, pos, b"\"")
            out[name], pos = _quoted(line, pos)
        elif kind == "bracket":
            pos = _expect(line, pos, b"[")
            j = line.find(b"]", pos)
            if j < 0:
                raise Malformed("unterminated [..] field")
            out[name], pos = line[pos:j], j + 1
        elif kind == "shell":
            if line[pos:pos + 1] == b"\"":
                raw, pos = _quoted(line, pos + 1)
                out[name] = raw
                out[name + ":quoted"] = True
            else:
                out[name], pos = _word(line, pos)
    pos = _expect(line, pos, b" END r=")
    out["r"] = line[pos:]
    return out


def _unbackslash(raw, table):
    out = bytearray()
    i = 0
    while i < len(raw):
        c = raw[i]
        if c == 0x5c and i + 1 < len(raw):
            n = raw[i + 1:i + 2]
            out += table.get(n, n)
            i += 2
        else:
            out.append(c)
            i += 1
    return bytes(out)


def _unpercent(raw):
    out = bytearray()
    i = 0
    while i < len(raw):
        if raw[i] == 0x25 and i + 2 < len(raw) + 0 and len(raw) - i >= 3:
            try:
                out.append(int(raw[i + 1:i + 3], 16))
                i += 3
                continue
            except ValueError:
                pass
        out.append(raw[i])
        i += 1
    return bytes(out)


def inv_quoted(raw):        # documented: " and \ are \-escaped, CR LF TAB become \r \n \t
    return _unbackslash(raw, {b"r": b"\r", b"n": b"\n", b"t": b"\t"})


def inv_shell(raw):         # documented: " and \ are \-escaped, CR LF become \r \n, values with SP are surrounded by quotes
    return _unbackslash(raw, {b"r": b"\r", b"n": b"\n"})


def inv_mime(raw):          # documented: %, [ ], \ and bytes outside 32..126 are encoded (the code writes \\ \r \n and %xx)
    out = bytearray()
    i = 0
    while i < len(raw):
        c = raw[i]
        if c == 0x5c and i + 1 < len(raw):
            n = raw[i + 1:i + 2]
            out += {b"r": b"\r", b"n": b"\n"}.get(n, n)
            i += 2
        elif c == 0x25 and len(raw) - i >= 3:
            out.append(int(raw[i + 1:i + 3], 16))
            i += 3
        else:
            out.append(c)
            i += 1
    return bytes(out)


INVERSE = {"q": inv_quoted, "m": inv_mime, "u": _unpercent, "s": inv_shell, "uq": inv_quoted, "um": inv_mime, "uu": _unpercent, "us": inv_shell}
OWN_DELIMS = {"q": b"\"\\", "m": b"[]%\\", "u": b" %", "s": b" \"\\", "uq": b"\"\\", "um": b"[]%\\", "uu": b" %", "us": b" \"\\"}


def read_new_lines(env, want, timeout):
    """Wait until `want` new complete lines are in the log (or the deadline passes). -> list of byte lines (without LF)"""
    path = os.path.join(env.squid.run, "c34.log")
    deadline = time.time() + timeout
    data = b""
    settled = None
    while True:
        try:
            with open(path, "rb") as f:
                f.seek(env.log_pos)
                data = f.read()
        except OSError:
            data = b""
        n = data.count(b"\n")
        if n >= want and data.endswith(b"\n"):
            if settled is None:
                settled = time.time() + 0.15        # look once more a little later: extra lines are what the check is about
            elif time.time() >= settled:
                break
        if time.time() > deadline:
            break
        time.sleep(0.02)
    complete = data[:data.rfind(b"\n") + 1] if b"\n" in data else b""
    env.log_pos += len(complete)
    return complete.split(b"\n")[:-1] if complete else []


def execute(env, sc):
    r = Result()
    ns = env.ns()
    if getattr(env, "_run_seen", None) != env.squid.run:
        # fresh instance: its start-up port probes are logged as empty connections when Squid notices they closed
        env._run_seen = env.squid.run
        env.log_pos = 0
        try:
            warm = client.Conn(env.port, timeout=20)
        except OSError:
            if env.health(r):
                r.inconclusive = "could not connect to the proxy"
            return r
        try:
            warm.send(("GET http://127.0.0.1:%d/warm HTTP/1.1\r\nHost: x\r\nConnection: close\r\n\r\n" % env.origin.port).encode())
            warm.read_response(b"GET", timeout=20)
        finally:
            warm.close()
        time.sleep(0.5)
    # flush records of anything still in flight from an earlier example
    read_new_lines(env, 0, 0.0)
    txns = sc["txns"]
    sent = []
    streams = []         # one byte stream per connection: list of (request bytes, abort?)
    for i, t in enumerate(txns):
        tag = "%s-%d" % (ns, i)
        value = t["value"].strip(" \t\x0b\x0c")       # field values arrive without surrounding white space (isspace() characters)
        fold = t.get("fold")
        wire_value = value
        if fold and len(value) >= 2:
            wire_value = value[:len(value) // 2].rstrip(" \t") + fold + value[len(value) // 2:].lstrip(" \t")
        else:
            fold = None
        path = "/%s%s/%d/%s" % ("deny/" if t["kind"] == "deny" else "", ns, i, t["path_extra"].replace(" ", ""))
        hostport = "127.0.0.1:%d" % env.origin.port
        url = "http://%s%s" % (hostport if t["kind"] != "error-url" else "127.0.0.1:0", path)
        lines = ["%s %s %s" % (t["method"], url, t["version"]), "Host: " + hostport, "X-Tag: " + tag]
        if value:
            lines.append("X-V: " + wire_value)
        if t["user"] is not None:
            lines.append("Proxy-Authorization: Basic " + base64.b64encode((t["user"] + ":pw").encode("latin-1")).decode())
        body = b""
        if t["method"] == "POST":
            body = b"b" * 2000
            lines.append("Content-Length: %d" % len(body))
        if t["version"] == "HTTP/1.0":
            lines.append("Connection: keep-alive")
        data = ("\r\n".join(lines) + "\r\n\r\n").encode("latin-1")
        if t["kind"] == "abort-in-body" and t["method"] == "POST":
            data += body[:700]
        else:
            data += body
        sent.append({"tag": tag.encode(), "value": value.encode("latin-1"), "user": None if t["user"] is None else t["user"].encode("latin-1"), "kind": t["kind"],
                     "fold": fold})
        streams.append((data, t["kind"] in ("abort-before-reply", "abort-in-body") and not (t["kind"] == "abort-in-body" and t["method"] != "POST")))
    env.origin.default_behaviour = {"status": 200, "body_b64": base64.b64encode(b"ok").decode(), "headers": [["Cache-Control", "no-store"]]}
    # ---- drive the connections: pipelined = one connection for the run of transactions up to (and including) the first abort
    expected = len(txns)
    i = 0
    timed_out = False
    while i < len(streams):
        group = [streams[i]]
        if sc["pipeline"]:
            while not group[-1][1] and i + len(group) < len(streams):
                group.append(streams[i + len(group)])
        try:
            c = client.Conn(env.port, timeout=20)
        except OSError:
            if env.health(r):
                r.inconclusive = "could not connect to the proxy"
            return r
        try:
            c.send(b"".join(d for d, _ in group))
            for d, abort in group:
                if abort:
                    time.sleep(0.03)
                    break
                m = c.read_response(b"GET", timeout=20)
                if m is None or getattr(m, "timed_out", False):
                    timed_out = True
                    break
                if getattr(m, "bad", False) or not m.complete:
                    break
        finally:
            c.close()
        i += len(group)
    r.sub_evaluations = len(txns)
    lines = read_new_lines(env, expected, 12.0)
    if timed_out:
        r.inconclusive = "client timed out"
        env.health(r)
        return r
    r.label("transactions-%d" % len(txns))
    if len(lines) < expected:
        # a record may still be pending (an aborted transaction ends when Squid notices): not judged
        r.inconclusive = "fewer log lines than transactions before the deadline"
        r.label("lines-missing")
    elif len(lines) > expected:
        pseudo = [l for l in lines if b" ru=error:transaction-end-before-headers " in l]
        def _status(l):
            try:
                return int(l.rsplit(b" st=", 1)[1].split(b" ", 1)[0])
            except (IndexError, ValueError):
                return 0
        rejected_with_body = any(t["method"] == "POST" for t in txns) and any(_status(l) >= 400 for l in lines if l not in pseudo)
        if pseudo and len(lines) - len(pseudo) <= expected and rejected_with_body:
            r.fail("extra-record:unread-body-of-rejected-request-logged-as-another-transaction",
                   "%d transactions, %d new lines, %d of them error:transaction-end-before-headers: %r" % (expected, len(lines), len(pseudo), [l[:200] for l in lines[:6]]))
        else:
            r.fail("more-log-lines-than-transactions", "%d transactions, %d new lines: %r" % (expected, len(lines), [l[:200] for l in lines[:6]]))
    # ---- every line parses; reversible quotings give back what was sent
    by_tag = {}
    for l in lines:
        try:
            f = parse_line(l)
        except Malformed as e:
            r.fail("log-line-does-not-parse-under-its-format", "%s; line %r" % (e, l[:600]))
            continue
        by_tag.setdefault(f["T"], []).append(f)
    for s in sent:
        recs = by_tag.get(s["tag"], [])
        if len(recs) > 1:
            r.fail("several-records-for-one-transaction", "tag %r has %d records" % (s["tag"], len(recs)))
        if not recs:
            r.label("record-without-tag(request-not-parsed)")
            continue
        f = recs[0]
        r.label("kind:" + s["kind"])
        if s["fold"]:
            r.label("folded-value-logged")
        for name in ("q", "m", "u", "s"):
            if s["fold"]:
                break
            raw = f[name]
            if raw == b"-" and s["value"] != b"-":
                if s["value"]:
                    r.label("header-value-not-available")
                continue
            try:
                back = INVERSE[name](raw)
            except ValueError as e:
                r.fail("quoted-field-not-reversible:" + name, "field %s=%r cannot be decoded (%s); sent %r" % (name, raw[:300], e, s["value"][:300]))
                continue
            if back != s["value"]:
                r.fail("quoted-field-not-reversible:" + name, "field %s=%r decodes to %r, sent %r" % (name, raw[:300], back[:300], s["value"][:300]))
            elif any(bytes([d]) in s["value"] for d in OWN_DELIMS[name]):
                r.nontrivial = True
                r.label("value-has-own-delimiter:" + name)
        if s["user"] is not None:
            got_user = f["uq"] != b"-"
            r.label("user-logged" if got_user else ("user-with-line-break-not-logged" if (b"\n" in s["user"] or b"\r" in s["user"]) else "user-not-logged"))
            if got_user:
                for name in ("uq", "um", "uu", "us"):
                    try:
                        back = INVERSE[name](f[name])
                    except ValueError as e:
                        r.fail("quoted-field-not-reversible:" + name, "field %s=%r cannot be decoded (%s); user %r" % (name, f[name][:300], e, s["user"][:300]))
                        continue
                    if back != s["user"]:
                        r.fail("quoted-field-not-reversible:" + name, "field %s=%r decodes to %r, user sent %r" % (name, f[name][:300], back[:300], s["user"][:300]))
                    elif any(bytes([d]) in s["user"] for d in OWN_DELIMS[name]) or b"\n" in s["user"] or b"\r" in s["user"]:
                        r.nontrivial = True
                        r.label("user-has-own-delimiter:" + name)
                if b"\n" in s["user"] or b"\r" in s["user"]:
                    r.label("user-with-line-break-logged")
    env.health(r)
    return r
