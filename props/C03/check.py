"""C03 No request smuggling: forwarded messages match strict client framing.

Differential check.  A generated client byte stream (1-4 pipelined requests built from a request grammar and mutated
along the framing axes: Content-Length value/sign/list/duplicate/conflict forms, Transfer-Encoding variants, CL+TE,
obs-fold / bare CR / NUL / leading-whitespace lines hiding framing fields, whitespace before the colon, LF-only line
ends, chunk-size/extension/terminator anomalies, HTTP/1.0 with TE) is sent to the proxy (relaxed_header_parser on and
off: one instance each) and, independently, parsed by the strict RFC 9112 reference in ref9112.py.  Request bodies are
made of bytes that look like requests for /<ns>/s<k>x, so that any disagreement about a message boundary shows up as
an origin arrival for a path the reference does not delimit.

Oracle (origin arrival log vs reference):
  * every request the origin received has the target of a message the reference delimits (in a head the reference
    accepts) -- otherwise "desync";
  * nothing at or after the first message the reference rejects / cannot complete is forwarded;
  * a forwarded message's body (as delimited by the origin's own strict parse of the upstream bytes) equals the
    reference body when complete and is a prefix of it otherwise; a message the reference cannot complete is never
    complete upstream;
  * no upstream request carries both Content-Length and Transfer-Encoding or more than one Content-Length, and the
    upstream bytes form nothing but well-delimited requests;
  * a message that was not forwarded is never followed by a later forwarded message (reject => stop reading).
Squid rejecting more than the reference is always allowed.  Nothing here waits for a verdict: missing arrivals are
never violations, so slow runs only lose detection power.
"""
import os
import sys
import time

from hypothesis import strategies as st

sys.path.insert(0, os.path.dirname(os.path.abspath(__file__)))
import ref9112  # noqa: E402

from vlib.e2e import client, squidproc  # noqa: E402
from vlib.e2e.env import ProxyEnv  # noqa: E402
from vlib.e2e_runner import Result  # noqa: E402

CONF = "relaxed_header_parser %s\nread_timeout 30 seconds\nrequest_timeout 30 seconds\n"

LEN_KEYS = ["wire", "wire", "wire", "zero", "s1", "all", "hdr", "over", "under", "three"]
CL_FMTS = ["plain", "plain", "plain", "plain", "zeros", "plus", "minus", "list-same", "list-diff", "list-diff-nosp", "space-sep", "garbage", "hex", "empty",
           "overflow", "overflow2", "nul", "nul-mid", "trail-comma", "lead-comma", "ows", "dot", "quoted"]
TE_FMTS = ["chunked", "chunked", "chunked", "Chunked", "CHUNKED", "ows", "x-chunked", "gzip-chunked", "chunked-x", "identity", "identity-chunked", "twice",
           "empty-elems", "quoted", "xchunked", "chunked-space-x", "param", "empty", "nul", "tab-sep"]
CL_NAMES = ["Content-Length", "Content-Length", "Content-Length", "content-length", "CONTENT-LENGTH", "Content-length", "Content_Length"]
TE_NAMES = ["Transfer-Encoding", "Transfer-Encoding", "Transfer-Encoding", "transfer-encoding", "TRANSFER-ENCODING", "Transfer-encoding", "Transfer_Encoding"]
COLONS = [": ", ": ", ": ", ": ", ":", " : ", "\t: ", ":\t", " :"]
EXTRAS = ["none", "none", "none", "none", "obs-fold", "fold-hides-cl", "fold-hides-te", "lead-ws-hides-cl", "lead-ws-hides-te", "bare-cr-hides-cl", "bare-cr-hides-te",
          "nul", "nul-name", "ws-colon", "cr-only-line"]
SIZE_FMTS = ["hex", "hex", "hex", "hex", "HEX", "zeros", "0x", "plus", "neg", "space-lead", "space-trail", "ext", "ext-bws", "ext-quoted", "huge", "huge2", "empty", "ext-lf"]
DATA_EOLS = ["crlf", "crlf", "crlf", "crlf", "lf", "none", "cr"]
SIZE_EOLS = ["crlf", "crlf", "crlf", "crlf", "crlf", "lf", "cr", "crcrlf"]   # terminator of one chunk-size line (and of the last-chunk line)
LASTS = ["0", "0", "0", "00", "0;x=y", "0x0"]
FINALS = ["crlf", "crlf", "crlf", "crlf", "lf", "missing"]


def _line():
    return st.fixed_dictionaries({
        "h": st.sampled_from(["cl", "cl", "te"]),
        "name": st.integers(0, 6),
        "colon": st.integers(0, len(COLONS) - 1),
        "fold": st.sampled_from([False, False, False, False, False, True]),
        "len": st.sampled_from(LEN_KEYS),
        "len2": st.sampled_from(LEN_KEYS),
        "fmt": st.sampled_from(CL_FMTS),
        "te": st.sampled_from(TE_FMTS),
    })


def _msg():
    return st.fixed_dictionaries({
        "method": st.sampled_from(["POST", "POST", "GET", "PUT"]),
        "version": st.sampled_from(["1.1", "1.1", "1.1", "1.1", "1.1", "1.0"]),
        "eol": st.sampled_from(["crlf", "crlf", "crlf", "crlf", "lf", "mixed"]),
        "eol_mask": st.integers(0, 255),
        "parts": st.sampled_from([0, 1, 1, 2, 2]),
        "wire": st.sampled_from(["raw", "raw", "chunked"]),
        "canon": st.sampled_from([True, True, False, False]),       # True: exactly the canonical framing field for wire/parts, "lines" ignored
        "lines": st.lists(_line(), min_size=0, max_size=3),
        "extra": st.sampled_from(EXTRAS),
        "extra_len": st.sampled_from(LEN_KEYS),
        "extra_pos": st.integers(0, 4),
        "size_fmt": st.sampled_from(SIZE_FMTS),
        "size_idx": st.integers(0, 1),
        "data_eol": st.sampled_from(DATA_EOLS),
        "size_eol": st.sampled_from(SIZE_EOLS),
        "last_eol": st.sampled_from(SIZE_EOLS),
        "last": st.sampled_from(LASTS),
        "final": st.sampled_from(FINALS),
        "trailer": st.sampled_from([False, False, False, True]),
        "origin": st.sampled_from(["normal", "normal", "normal", "early", "early-close"]),
    })


def strategy(tp):
    return st.fixed_dictionaries({
        "relaxed": st.booleans(),
        "msgs": st.lists(_msg(), min_size=1, max_size=4),
        "segments": st.lists(st.one_of(st.integers(1, 40), st.integers(1, 600)), min_size=0, max_size=8),
        "hold": st.one_of(st.none(), st.none(), st.fixed_dictionaries({"msg": st.integers(0, 3), "at": st.integers(0, 1)})),
    })


# ------------------------------------------------------------------ environment: one proxy per parser mode
class Env:
    def __init__(self, ctx):
        self.base = ProxyEnv(ctx, conf=CONF % "on", cache_mem="8 MB")
        self.ctx = ctx
        self.strict = None

    def squid(self, relaxed):
        if relaxed:
            return self.base.squid
        if self.strict is None:
            self.strict = squidproc.Squid("%s-w%d-strict" % (self.ctx.pid, self.ctx.worker), conf=CONF % "off", clock=self.base.clock, cache_mem="8 MB")
            self.strict.start()
        return self.strict

    def health(self, r, relaxed):
        if relaxed:
            return self.base.health(r)
        s = self.strict
        if s is None:
            return True
        probs = s.health_problems()
        for sig, detail in probs:
            r.fail("memory-safety/liveness:" + sig, detail)
        if probs:
            try:
                s.destroy()
            except Exception:
                pass
            self.strict = None
        return not probs

    def close(self):
        if self.strict is not None:
            try:
                self.strict.stop()
                self.strict.destroy()
            except Exception:
                pass
        self.base.close()


def setup(ctx):
    return Env(ctx)


def teardown(env):
    env.close()


# ------------------------------------------------------------------ stream builder
def _smuggle(port, ns, k, x):
    return ("GET http://127.0.0.1:%d/%s/s%d%s HTTP/1.1\r\nHost: 127.0.0.1:%d\r\nX-Smuggled: %d%s\r\n\r\n" % (port, ns, k, x, port, k, x)).encode()


def _size_text(fmt, n):
    if fmt == "HEX":
        return ("%X" % n).encode()
    if fmt == "zeros":
        return ("000%x" % n).encode()
    if fmt == "0x":
        return ("0x%x" % n).encode()
    if fmt == "plus":
        return ("+%x" % n).encode()
    if fmt == "neg":
        return ("-%x" % n).encode()
    if fmt == "space-lead":
        return (" %x" % n).encode()
    if fmt == "space-trail":
        return ("%x " % n).encode()
    if fmt == "ext":
        return ("%x;a=b" % n).encode()
    if fmt == "ext-bws":
        return ("%x ; a = b" % n).encode()
    if fmt == "ext-quoted":
        return ("%x;a=\"b;c\"" % n).encode()
    if fmt == "ext-lf":
        return ("%x;a=b\nc" % n).encode()
    if fmt == "huge":
        return ("%x" % (n + 2 ** 64)).encode()
    if fmt == "huge2":
        return b"f" * 20
    if fmt == "empty":
        return b""
    return ("%x" % n).encode()


def _chunked(parts, m):
    out = bytearray()
    first_line = None
    for i, p in enumerate(parts):
        fmt = m["size_fmt"] if i == m["size_idx"] % max(1, len(parts)) else "hex"
        eols = {"crlf": b"\r\n", "lf": b"\n", "cr": b"\r", "crcrlf": b"\r\r\n"}
        line = _size_text(fmt, len(p)) + (eols[m.get("size_eol", "crlf")] if i == m["size_idx"] % max(1, len(parts)) else b"\r\n")
        if first_line is None:
            first_line = len(line)
        out += line + p
        de = m["data_eol"] if i == len(parts) - 1 else "crlf"
        out += {"crlf": b"\r\n", "lf": b"\n", "none": b"", "cr": b"\r"}[de]
    out += m["last"].encode() + {"crlf": b"\r\n", "lf": b"\n", "cr": b"\r", "crcrlf": b"\r\r\n"}[m.get("last_eol", "crlf")]
    if m["trailer"]:
        out += b"X-Trail: v\r\n"
    out += {"crlf": b"\r\n", "lf": b"\n", "missing": b""}[m["final"]]
    return bytes(out), (first_line or 0)


def _cl_value(fmt, n, n2):
    if fmt == "zeros":
        return "00%d" % n
    if fmt == "plus":
        return "+%d" % n
    if fmt == "minus":
        return "-%d" % n
    if fmt == "list-same":
        return "%d, %d" % (n, n)
    if fmt == "list-diff":
        return "%d, %d" % (n, n2)
    if fmt == "list-diff-nosp":
        return "%d,%d" % (n2, n)
    if fmt == "space-sep":
        return "%d %d" % (n, n2)
    if fmt == "garbage":
        return "%dabc" % n
    if fmt == "hex":
        return "0x%x" % n
    if fmt == "empty":
        return ""
    if fmt == "overflow":
        return "%d" % (n + 2 ** 64)
    if fmt == "overflow2":
        return "1" + "0" * 24
    if fmt == "nul":
        return "%d\0" % n
    if fmt == "nul-mid":
        return "%d\0%d" % (n, n2)
    if fmt == "trail-comma":
        return "%d," % n
    if fmt == "lead-comma":
        return ",%d" % n
    if fmt == "ows":
        return " \t%d \t" % n
    if fmt == "dot":
        return "%d.0" % n
    if fmt == "quoted":
        return "\"%d\"" % n
    return "%d" % n


TE_TEXT = {"chunked": "chunked", "Chunked": "Chunked", "CHUNKED": "CHUNKED", "ows": "  chunked\t", "x-chunked": "x, chunked", "gzip-chunked": "gzip, chunked",
           "chunked-x": "chunked, x", "identity": "identity", "identity-chunked": "identity, chunked", "twice": "chunked, chunked", "empty-elems": ", chunked ,",
           "quoted": "\"chunked\"", "xchunked": "xchunked", "chunked-space-x": "chunked x", "param": "chunked;q=1", "empty": "", "nul": "chunked\0", "tab-sep": "x,\tchunked"}


def build_message(m, k, port, ns):
    """-> (bytes, features, offsets {body, part2})"""
    feats = set()
    parts = [_smuggle(port, ns, k, "ab"[i]) for i in range(m["parts"])]
    raw = b"".join(parts)
    if m["wire"] == "chunked":
        wire, hdr = _chunked(parts, m)
        for key, dflt in (("size_fmt", "hex"), ("data_eol", "crlf"), ("size_eol", "crlf"), ("last_eol", "crlf"), ("last", "0"), ("final", "crlf")):
            if m.get(key, dflt) != dflt and (parts or key in ("last", "final", "last_eol")):
                feats.add("chunk-%s:%s" % (key, m[key]))
        if m["trailer"]:
            feats.add("chunk-trailer")
    else:
        wire, hdr = raw, 0
    L = {"wire": len(wire), "zero": 0, "s1": len(parts[0]) if parts else 0, "all": len(raw), "hdr": hdr, "over": len(wire) + 9,
         "under": max(0, len(wire) - (len(parts[-1]) if parts else 0)), "three": 3}
    version = m["version"]
    if version == "1.0":
        feats.add("http10")
    lines = []   # list of raw header line byte strings (without terminator; may contain embedded line breaks for folds)
    lines.append(b"Host: 127.0.0.1:%d" % port)
    lines.append(b"X-Tag: m%d" % k)
    if m["canon"]:
        if m["wire"] == "chunked":
            framing = [b"Transfer-Encoding: chunked"]
        elif parts or m["method"] != "GET":
            framing = [b"Content-Length: %d" % len(wire)]
        else:
            framing = []
    else:
        framing = []
        ncl = nte = 0
        for ln in m["lines"]:
            colon = COLONS[ln["colon"]]
            if ln["h"] == "cl":
                ncl += 1
                name = CL_NAMES[ln["name"]]
                val = _cl_value(ln["fmt"], L[ln["len"]], L[ln["len2"]])
                if ln["fmt"] != "plain":
                    feats.add("cl:" + ln["fmt"])
                if ln["len"] != "wire":
                    feats.add("cl-len:" + ln["len"])
                if name.lower() != "content-length":
                    feats.add("cl-name:underscore")
            else:
                nte += 1
                name = TE_NAMES[ln["name"]]
                val = TE_TEXT[ln["te"]]
                if ln["te"] != "chunked":
                    feats.add("te:" + ln["te"])
                if name.lower() != "transfer-encoding":
                    feats.add("te-name:underscore")
            if colon.strip(" \t") == ":" and colon[0] in " \t":
                feats.add("ws-before-colon")
            if ln["fold"]:
                feats.add("%s-folded" % ln["h"])
                framing.append((name + colon.rstrip(" \t")).encode("latin-1") + b"\n " + val.encode("latin-1"))
            else:
                framing.append(("%s%s%s" % (name, colon, val)).encode("latin-1"))
        if ncl > 1:
            feats.add("cl-repeated")
        if nte > 1:
            feats.add("te-repeated")
        if ncl and nte:
            feats.add("cl+te")
        if m["wire"] == "chunked" and not nte:
            feats.add("chunked-wire-without-te")
        if m["wire"] == "raw" and nte:
            feats.add("raw-wire-with-te")
        if m["wire"] == "raw" and parts and not ncl and not nte:
            feats.add("body-without-framing")
    lines += framing
    ex = m["extra"]
    exlen = L[m["extra_len"]]
    lead = None
    extra_line = None
    if ex != "none":
        feats.add("extra:" + ex)
    if ex == "obs-fold":
        extra_line = b"X-Fill: a\n b"
    elif ex == "fold-hides-cl":
        extra_line = b"X-Fill: a\n Content-Length: %d" % exlen
    elif ex == "fold-hides-te":
        extra_line = b"X-Fill: a\n\tTransfer-Encoding: chunked"
    elif ex == "lead-ws-hides-cl":
        lead = b" Content-Length: %d" % exlen
    elif ex == "lead-ws-hides-te":
        lead = b"\tTransfer-Encoding: chunked"
    elif ex == "bare-cr-hides-cl":
        extra_line = b"X-Fill: a\rContent-Length: %d" % exlen
    elif ex == "bare-cr-hides-te":
        extra_line = b"X-Fill: a\rTransfer-Encoding: chunked"
    elif ex == "nul":
        extra_line = b"X-Fill: a\0b"
    elif ex == "nul-name":
        extra_line = b"X-Fi\0ll: a"
    elif ex == "ws-colon":
        extra_line = b"X-Fill : a"
    elif ex == "cr-only-line":
        extra_line = b"\r"
    if extra_line is not None:
        lines.insert(min(1 + m["extra_pos"], len(lines)), extra_line)
    if lead is not None:
        lines.insert(0, lead)
    # ---- serialise with the message's line-end style; "\n" inside a line spec is a fold break and follows the same style
    eol = m["eol"]
    if eol != "crlf":
        feats.add("eol:" + eol)
    out = bytearray()
    nline = [0]

    def term():
        i = nline[0]
        nline[0] += 1
        if eol == "crlf":
            return b"\r\n"
        if eol == "lf":
            return b"\n"
        return b"\n" if (m["eol_mask"] >> (i % 8)) & 1 else b"\r\n"

    out += ("%s http://127.0.0.1:%d/%s/m%d HTTP/%s" % (m["method"], port, ns, k, version)).encode() + term()
    for ln in lines:
        segs = ln.split(b"\n")
        for s in segs:
            out += s + term()
    out += term()
    body_off = len(out)
    out += wire
    offsets = {"body": body_off, "part2": body_off + (len(parts[0]) if len(parts) > 1 and m["wire"] == "raw" else 0)}
    return bytes(out), feats, offsets


def _path_of(target):
    if target is None:
        return None
    t = bytes(target)
    if t.lower().startswith(b"http://"):
        rest = t[7:]
        i = rest.find(b"/")
        return rest[i:] if i >= 0 else b"/"
    return t


def _wait(pred, timeout):
    deadline = time.time() + timeout
    while time.time() < deadline:
        if pred():
            return True
        time.sleep(0.003)
    return pred()


def execute(env, sc):
    r = Result()
    base = env.base
    origin = base.origin
    ns = base.ns()
    nsb = ns.encode()
    relaxed = sc["relaxed"]
    sq = env.squid(relaxed)
    port = sq.ports[0]
    r.label("relaxed-on" if relaxed else "relaxed-off")

    # ---- build the stream
    stream = bytearray()
    feats = []
    starts = []
    offs = []
    for k, m in enumerate(sc["msgs"]):
        b, f, o = build_message(m, k, origin.port, ns)
        starts.append(len(stream))
        offs.append({x: len(stream) + y for x, y in o.items()})
        stream += b
        if m["origin"] != "normal" and m["parts"]:
            f.add("origin:" + m["origin"])
        feats.append(f)
        beh = {"status": 200, "body_tag": "/%s/m%d#resp" % (ns, k), "body_len": 20, "headers": [["Cache-Control", "no-store"]]}
        if m["origin"] in ("early", "early-close"):
            beh["respond_before_body"] = True
        if m["origin"] == "early-close":
            beh["close"] = True
        origin.script("/%s/m%d" % (ns, k), beh)
    stream = bytes(stream)
    anomalous = [bool(f - {"origin:early", "origin:early-close"}) for f in feats]
    if any(anomalous):
        r.label("has-framing-anomaly")
    if any(anomalous) and len(sc["msgs"]) >= 2:
        r.nontrivial = True
    r.label("messages-%d" % len(sc["msgs"]))

    # ---- reference
    ref = ref9112.parse_stream(stream)
    allowed = {}
    for i, rm in enumerate(ref):
        r.label("ref-" + rm.verdict)
        if rm.verdict != "reject":
            p = _path_of(rm.target)
            if p not in allowed:
                allowed[p] = (i, rm)

    def owner(pos):
        k = 0
        for i, s in enumerate(starts):
            if pos >= s:
                k = i
        return k

    def klass(rm):
        """Stable class of a reference message: its rejection category, or the normalisations the reference applied."""
        if rm.verdict in ("accept", "accept-last"):
            return "+".join(sorted(set(rm.notes))) or "plain"
        return rm.code

    def ref_at(pos):
        """The reference message whose span contains stream offset pos (the last one when pos lies beyond the reference's stop)."""
        cur = ref[0] if ref else None
        for rm in ref:
            if rm.start <= pos:
                cur = rm
        return cur

    # ---- client
    with origin.lock:
        first_arrival = len(origin.arrivals)
    hold = sc["hold"]
    P = None
    if hold is not None and sc["msgs"]:
        hk = hold["msg"] % len(sc["msgs"])
        if sc["msgs"][hk]["parts"]:
            P = offs[hk]["part2" if hold["at"] else "body"]
            r.label("client-holds-body-until-response")
    c = client.Conn(port, timeout=10)
    try:
        if P is None:
            c.send(stream, sc["segments"])
        else:
            c.send(stream[:P], sc["segments"])
            deadline = time.time() + 1.0
            while b"\r\n\r\n" not in c.rbuf and c._fill(deadline):
                pass
            c.send(stream[P:])
        # Wait for the proxy to work through the stream: while fewer responses arrived than the reference has messages the
        # proxy is expected to answer (or to close), be patient (loaded machine); after that only a short quiet period.
        expected = sum(1 for rm in ref if rm.verdict in ("accept", "accept-last")) + (1 if ref and ref[-1].verdict in ("reject", "bad-body") else 0)
        t_end = time.time() + 12
        while time.time() < t_end and not c.eof:
            buf = bytes(c.rbuf)
            seen_resp = buf.count(b"HTTP/1.1 ")   # responses follow each other without a separator; over-counting only shortens the wait
            if not c._fill(time.time() + (2.5 if seen_resp < expected else 0.3)):
                break
    finally:
        c.close()
    nresp = bytes(c.rbuf).count(b"HTTP/1.1 ")
    r.label("client-saw-responses" if nresp else "client-saw-no-response")

    # ---- origin arrivals of this case
    def mine():
        with origin.lock:
            new = origin.arrivals[first_arrival:]
        conns = set(a.conn_id for a in new if nsb in (a.msg.target or b"") or nsb in a.raw or nsb in a.msg.raw_head)
        return [a for a in new if a.conn_id in conns]

    _wait(lambda: all(a.body_done or a.msg.target in (b"<partial>", b"<bad>") for a in mine()), 2.0)
    arrs = mine()
    seen = set()
    r.sub_evaluations = max(1, len(arrs))
    for a in arrs:
        if r.violations:
            break   # later arrivals of a desynchronised stream are consequences of the first disagreement
        t = a.msg.target
        if t in (b"<partial>", b"<bad>"):
            r.fail("upstream-bytes-that-are-not-a-request", "origin connection %d received %r" % (a.conn_id, (a.raw or a.msg.raw_head)[:200]))
            continue
        if t not in allowed:
            # which part of the client stream do these bytes come from?
            marker = t.rsplit(b"/", 1)[-1]
            pos = stream.find(b" http://127.0.0.1:%d" % origin.port + t + b" ")
            src = ref_at(pos if pos >= 0 else len(stream))
            kind = "smuggled-body-bytes-forwarded-as-request" if marker[:1] == b"s" else "message-at-or-after-reference-rejection-forwarded"
            why = "; reference stops at message %d: %s %s" % (len(ref) - 1, ref[-1].verdict, ref[-1].reason) if ref and ref[-1].verdict != "accept" else ""
            r.fail("desync:%s:%s" % (kind, klass(src) if src else "none"), "origin received %s %s which the strict parse does not delimit%s; relaxed=%s; features %s; stream %r" % (
                a.msg.method, t, why, relaxed, [sorted(f) for f in feats], stream[:1500]))
            continue
        i, rm = allowed[t]
        seen.add(i)
        r.label("forwarded")
        ncl, nte = len(a.msg.get_all("content-length")), len(a.msg.get_all("transfer-encoding"))
        if (ncl and nte) or ncl > 1:
            r.fail("upstream-has-CL-and-TE-or-several-CL:%s" % klass(rm), "upstream head %r" % a.msg.raw_head[:600])
        if nte and b", ".join(a.msg.get_all("transfer-encoding")).strip().lower() != b"chunked":
            r.fail("upstream-TE-not-chunked:%s" % klass(rm), "upstream head %r" % a.msg.raw_head[:600])
        if any(x.startswith("bad-body") or x.startswith("bad-message") for x in a.msg.anomalies):
            r.fail("upstream-framing-invalid:%s" % klass(rm), "%s; upstream head %r" % (a.msg.anomalies, a.msg.raw_head[:600]))
            continue
        if not a.body_done:
            r.label("upstream-message-still-open")
            continue
        if a.msg.complete:
            if rm.verdict not in ("accept", "accept-last"):
                r.fail("completed-upstream-although-reference-cannot-complete:%s" % klass(rm), "message %s: reference %s (%s); origin saw a complete message with %d body bytes; stream %r" % (
                    t, rm.verdict, rm.reason, len(a.msg.body), stream[:1200]))
            elif a.msg.body != rm.body:
                r.fail("forwarded-body-differs-from-strict-delimitation:%s" % klass(rm), "message %s: reference body %d bytes (%s%s), origin saw a complete message with %d bytes: %r ; stream %r" % (
                    t, len(rm.body), rm.framing, " " + ",".join(rm.notes) if rm.notes else "", len(a.msg.body), a.msg.body[:80], stream[:1200]))
            else:
                r.label("forwarded-complete-exact")
        else:
            if rm.body[:len(a.msg.body)] != a.msg.body:
                r.fail("forwarded-partial-body-not-a-prefix:%s" % klass(rm), "message %s: origin saw %d bytes %r; reference body %d bytes; stream %r" % (
                    t, len(a.msg.body), a.msg.body[:80], len(rm.body), stream[:1200]))
            else:
                r.label("forwarded-incomplete-prefix")
    for i in sorted(seen) if not r.violations else []:
        missing = [j for j in range(i) if j not in seen]
        if missing:
            j = missing[0]
            r.fail("continued-after-unforwarded-message:%s" % klass(ref[j]), "reference message %d (%s) was not forwarded but later message %d (%s) was; relaxed=%s; stream %r" % (
                j, ref[j].target, i, ref[i].target, relaxed, stream[:1500]))
            break
    if ref and not seen:
        r.label("nothing-forwarded")
    r.labels = sorted(set(r.labels))   # per-scenario presence, so gate fractions are fractions of scenarios
    env.health(r, relaxed)
    return r
