"""Strict RFC 9112 / RFC 9110 reference for delimiting a client request stream (written from the RFCs, not from Squid).

parse_stream(buf) -> list of RefMsg, in stream order.  For every message the reference says either

  accept       the message has exactly one RFC-conformant reading; .end is where the next message starts,
               .body is the decoded body.  (Where the RFC gives a recipient the choice "reject, or apply this
               normalisation" -- bare LF as line end, obs-fold -> SP, bare CR / NUL -> SP, identical repeated
               Content-Length, Transfer-Encoding overriding Content-Length, whitespace-preceded lines before the first
               field are skipped -- the reading is the one the RFC prescribes; rejecting instead is always allowed.)
  accept-last  as accept, but the RFC requires the connection to be closed after this message (HTTP/1.0 request
               carrying Transfer-Encoding: RFC 9112 section 6.1); nothing after it may be processed.
  incomplete   the stream ends inside this message (.body = what is there); it can never be complete upstream.
  bad-body     the head is acceptable and chunked framing applies, but the chunked body is malformed after
               .body decoded bytes; the message can never be complete upstream and nothing after it may be processed.
  reject       no RFC-conformant reading (RFC says MUST reject / framing cannot be determined); neither this
               message nor anything after it may be forwarded.
The list ends at the first message that is not 'accept'.
"""
import re

TOKEN = re.compile(rb"^[!#$%&'*+\-.^_`|~0-9A-Za-z]+$")
REQLINE = re.compile(rb"^([!#$%&'*+\-.^_`|~0-9A-Za-z]+) ([^ \t\r\n\0]+) HTTP/(1\.[01])$")
# transfer-coding = token *( OWS ";" OWS transfer-parameter ); we only need the coding name
CODING = re.compile(rb"^([!#$%&'*+\-.^_`|~0-9A-Za-z]+)((?:[ \t]*;[ \t]*[!#$%&'*+\-.^_`|~0-9A-Za-z]+(?:[ \t]*=[ \t]*(?:[!#$%&'*+\-.^_`|~0-9A-Za-z]+|\"(?:[^\"\\]|\\.)*\"))?)*)$")
CHUNK_EXT = re.compile(rb"^(?:[ \t]*;[ \t]*[!#$%&'*+\-.^_`|~0-9A-Za-z]+(?:[ \t]*=[ \t]*(?:[!#$%&'*+\-.^_`|~0-9A-Za-z]+|\"(?:[^\"\\\r\n]|\\[^\r\n])*\"))?)*([ \t]*)$")


class RefMsg:
    def __init__(self):
        self.start = 0
        self.end = None          # index of the first byte after this message (accept only)
        self.verdict = None
        self.reason = ""
        self.code = ""           # short stable category of the reason (keys violation signatures)
        self.method = None
        self.target = None
        self.version = None
        self.fields = []
        self.framing = None      # 'none' | 'length' | 'chunked'
        self.length = None
        self.body = b""
        self.notes = []          # normalisations the reference applied

    def __repr__(self):
        return "<RefMsg %s %s %s %s body=%d notes=%s %s>" % (self.verdict, self.method, self.target, self.framing, len(self.body), self.notes, self.reason)


def _next_line(buf, pos):
    """-> (line content without terminator, index after terminator, terminator kind) or None"""
    j = buf.find(b"\n", pos)
    if j < 0:
        return None
    if j > pos and buf[j - 1:j] == b"\r":
        return buf[pos:j - 1], j + 1, "crlf"
    return buf[pos:j], j + 1, "lf"


def _parse_one(buf, pos):
    m = RefMsg()
    m.start = pos
    # leading empty lines before a request-line are skipped (RFC 9112 2.2)
    while True:
        ln = _next_line(buf, pos)
        if ln is None:
            m.verdict = "incomplete"
            m.reason = "stream ends in the request line"
            m.code = "stream-ends-in-head"
            return m
        line, nxt, term = ln
        if line == b"":
            pos = nxt
            m.notes.append("leading-empty-line")
            continue
        break
    if term == "lf":
        m.notes.append("bare-lf")
    rl = REQLINE.match(line)
    if not rl:
        m.verdict = "reject"
        m.reason = "malformed request line %r" % line[:60]
        m.code = "request-line-malformed"
        return m
    m.method, m.target, m.version = rl.group(1), rl.group(2), rl.group(3)
    pos = nxt
    fields = []
    first = True
    while True:
        ln = _next_line(buf, pos)
        if ln is None:
            m.verdict = "incomplete"
            m.reason = "stream ends in the header section"
            m.code = "stream-ends-in-head"
            return m
        line, pos, term = ln
        if term == "lf":
            m.notes.append("bare-lf")
        if line == b"":
            break
        if b"\r" in line:
            m.notes.append("bare-cr")
            line = line.replace(b"\r", b" ")
        if b"\0" in line:
            m.notes.append("nul")
            line = line.replace(b"\0", b" ")
        if line[:1] in (b" ", b"\t"):
            if not fields and first:
                m.notes.append("whitespace-preceded-line-skipped")
                continue
            if not fields:
                continue
            m.notes.append("obs-fold")
            fields[-1][1] = fields[-1][1] + b" " + line.strip(b" \t")
            continue
        first = False
        if b":" not in line:
            m.verdict = "reject"
            m.reason = "field line without colon %r" % line[:60]
            m.code = "field-line-without-colon"
            return m
        name, value = line.split(b":", 1)
        if name != name.rstrip(b" \t"):
            m.verdict = "reject"
            m.reason = "whitespace between field name and colon %r" % line[:60]
            m.code = "whitespace-before-colon"
            return m
        if not TOKEN.match(name):
            m.verdict = "reject"
            m.reason = "invalid field name %r" % name[:60]
            m.code = "invalid-field-name"
            return m
        fields.append([name, value.strip(b" \t")])
    m.fields = [(k, v.strip(b" \t")) for k, v in fields]
    head_end = pos
    te = [v for k, v in m.fields if k.lower() == b"transfer-encoding"]
    cl = [v for k, v in m.fields if k.lower() == b"content-length"]
    if te:
        codings = []
        for v in te:
            for part in v.split(b","):
                part = part.strip(b" \t")
                if part == b"":
                    continue
                cm = CODING.match(part)
                if not cm:
                    m.verdict = "reject"
                    m.reason = "malformed transfer-coding %r" % part[:40]
                    m.code = "transfer-coding-malformed"
                    return m
                codings.append(cm.group(1).lower() + (b";" if cm.group(2) else b""))
        if not codings:
            m.verdict = "reject"
            m.reason = "empty Transfer-Encoding"
            m.code = "transfer-encoding-empty"
            return m
        if codings[-1] != b"chunked" or codings.count(b"chunked") != 1:
            m.verdict = "reject"
            m.reason = "Transfer-Encoding without a single final chunked coding: %r" % codings
            m.code = "transfer-encoding-not-final-chunked"
            return m
        if cl:
            m.notes.append("TE-overrides-CL")
        if codings != [b"chunked"]:
            m.notes.append("other-codings-before-chunked")
        m.framing = "chunked"
        ok = _read_chunked(buf, head_end, m)
        if ok and m.version == b"1.0":
            m.verdict = "accept-last"
            m.reason = "HTTP/1.0 request with Transfer-Encoding: connection must be closed after it"
            m.code = "http10-with-transfer-encoding"
        return m
    if cl:
        vals = []
        for v in cl:
            parts = [part.strip(b" \t") for part in v.split(b",")]
            if len(parts) > 1 and any(parts) and not all(parts):
                # "Content-Length: ,3" / "3,": a recipient that reads the value as a list (RFC 9110 8.6 allows that for
                # identical members) ignores empty list elements (RFC 9110 5.6.1.2); the length it implies is unambiguous
                m.notes.append("CL-list-with-empty-elements")
                parts = [x for x in parts if x]
            vals += parts
        if any(not re.match(rb"^[0-9]+$", x) for x in vals):
            m.verdict = "reject"
            m.reason = "invalid Content-Length %r" % cl
            m.code = "content-length-invalid"
            return m
        nums = set(int(x) for x in vals)
        if len(nums) != 1:
            m.verdict = "reject"
            m.reason = "conflicting Content-Length %r" % cl
            m.code = "content-length-conflicting"
            return m
        if len(vals) > 1:
            m.notes.append("repeated-identical-CL")
        n = nums.pop()
        m.framing = "length"
        m.length = n
        avail = len(buf) - head_end
        if avail < n:
            m.body = bytes(buf[head_end:])
            m.verdict = "incomplete"
            m.reason = "stream ends after %d of %d body bytes" % (avail, n)
            m.code = "stream-ends-in-body"
            return m
        m.body = bytes(buf[head_end:head_end + n])
        m.end = head_end + n
        m.verdict = "accept"
        return m
    m.framing = "none"
    m.end = head_end
    m.verdict = "accept"
    return m


def _read_chunked(buf, pos, m):
    """Fills m.body/m.end/m.verdict. -> True when the chunked body is complete and valid."""
    body = bytearray()
    while True:
        ln = _next_line(buf, pos)
        if ln is None:
            m.body = bytes(body)
            m.verdict = "incomplete"
            m.reason = "stream ends in a chunk-size line"
            m.code = "stream-ends-in-body"
            return False
        line, nxt, term = ln
        if term == "lf":
            # RFC 9112 section 2.2 lets a recipient take a bare LF as the terminator of the start-line and of FIELD
            # lines only; the chunk-size line is "chunk-size [ chunk-ext ] CRLF" (section 7.1) with no such licence,
            # and a proxy that reads it leniently disagrees with strict peers about where chunk data starts
            # (the CVE-2023-46846 class).  So a strict reader cannot delimit this body.
            m.body = bytes(body)
            m.verdict = "bad-body"
            m.reason = "chunk-size line terminated by a bare LF"
            m.code = "chunk-size-line-bare-lf"
            return False
        cm = re.match(rb"^([0-9A-Fa-f]+)(.*)$", line, re.S)
        if not cm or not CHUNK_EXT.match(cm.group(2)):
            m.body = bytes(body)
            m.verdict = "bad-body"
            m.reason = "malformed chunk-size line %r" % line[:60]
            m.code = "chunk-size-line-malformed"
            return False
        ext = CHUNK_EXT.match(cm.group(2))
        if ext.group(1):
            # whitespace between chunk-size/chunk-ext and CRLF is not in the grammar; Squid documents tolerating it
            # (bug 4492, senders that pad the chunk-size line); the size it implies is unambiguous
            m.notes.append("chunk-line-trailing-whitespace")
        if cm.group(2).strip(b" \t"):
            m.notes.append("chunk-ext")
        size = int(cm.group(1), 16)
        pos = nxt
        if size == 0:
            # trailer section
            while True:
                ln = _next_line(buf, pos)
                if ln is None:
                    m.body = bytes(body)
                    m.verdict = "incomplete"
                    m.reason = "stream ends in the trailer section"
                    m.code = "stream-ends-in-trailer"
                    return False
                line, pos, term = ln
                if term == "lf":
                    m.notes.append("bare-lf-in-chunked")
                if line == b"":
                    m.body = bytes(body)
                    m.end = pos
                    m.verdict = "accept"
                    return True
                line = line.replace(b"\r", b" ").replace(b"\0", b" ")
                if line[:1] in (b" ", b"\t"):
                    continue
                if b":" not in line or not TOKEN.match(line.split(b":", 1)[0]):
                    m.body = bytes(body)
                    m.verdict = "bad-body"
                    m.reason = "malformed trailer line %r" % line[:60]
                    m.code = "trailer-line-malformed"
                    return False
                m.notes.append("trailer")
        if len(buf) - pos < size:
            body += buf[pos:]
            m.body = bytes(body)
            m.verdict = "incomplete"
            m.reason = "stream ends inside chunk data"
            m.code = "stream-ends-in-body"
            return False
        body += buf[pos:pos + size]
        pos += size
        if buf[pos:pos + 2] == b"\r\n":
            pos += 2
        elif buf[pos:pos + 1] == b"\n":
            m.body = bytes(body)
            m.verdict = "bad-body"
            m.reason = "chunk data followed by a bare LF"
            m.code = "chunk-data-followed-by-bare-lf"
            return False
        elif len(buf) - pos < 2 and buf[pos:pos + 1] in (b"", b"\r"):
            m.body = bytes(body)
            m.verdict = "incomplete"
            m.reason = "stream ends after chunk data"
            m.code = "stream-ends-in-body"
            return False
        else:
            m.body = bytes(body)
            m.verdict = "bad-body"
            m.reason = "chunk data not followed by CRLF"
            m.code = "chunk-data-not-followed-by-crlf"
            return False


def parse_stream(buf):
    out = []
    pos = 0
    buf = bytes(buf)
    while pos < len(buf):
        if not buf[pos:].strip(b"\r\n"):
            break
        m = _parse_one(buf, pos)
        out.append(m)
        if m.verdict != "accept":
            break
        pos = m.end
    return out
