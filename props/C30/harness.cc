// C30 URI parsing is canonical and validates authority.
// Domain : request-targets as the request-line parser hands them to AnyP::Uri::parse (no whitespace/CTL bytes):
//          absolute URIs  scheme "://" [userinfo "@"] host [":" port] [path] ["?" query] ["#" fragment]  with
//          schemes http/https/ftp/coap(s)/wais/whois/ws/unknown in random case, reg-names (random case, empty labels,
//          trailing dots, underscores), IPv4, bracketed IPv6, bad brackets, ports (empty, 0, 1, 65535, 65536, 2^16k+p,
//          2^32+p, 2^64+p, signed, trailing garbage, non-digit), paths with queries and non-pchar bytes; authority-form
//          CONNECT targets; OPTIONS/TRACE "*"; urn:.  All request methods.  Configuration: documented defaults
//          (check_hostnames on, allow_underscore on, uri_whitespace strip, no append_domain).
// Oracle : reference RFC 3986 splitter (scheme / authority up to the first "/?#" / userinfo up to the last "@" /
//          bracketed or last-colon host:port split).  One-directional, as the statement: IF Squid accepts THEN the host
//          is lower-case, has no empty label, equals the written host (modulo IP-literal canonical text and trailing
//          dots), the port is 1..65535 and equals the written decimal or the scheme default (RFC/IANA table);
//          a written port that is not 1*DIGIT or is outside 1..65535 must be rejected; parse(absolute()) gives equal
//          scheme, host, port, path (path compared after percent-encoding the bytes RFC 3986 does not allow in a
//          path/query) and absolute() is a fixpoint.
// Left open (accepted both ways, counted): empty port ("h:"), several "@" in the authority, an unbracketed authority
//          that as a whole is a valid IPv6 address, "*" (not an absolute URI), urn: (no authority; round trip only).
#include "squid.h"
#include "anyp/Uri.h"
#include "anyp/UriScheme.h"
#include "http/RequestMethod.h"
#include "mem/forward.h"
#include "sbuf/SBuf.h"
#include "SquidConfig.h"

#include "verif_pbt.h"

#include <arpa/inet.h>
#include <climits>

extern "C" const char *__asan_default_options() { return "quarantine_size_mb=4:malloc_context_size=2"; }

using u128 = unsigned __int128;

struct MethodInfo { const char *name; Http::MethodType id; };
static const MethodInfo Methods[] = {
    {"GET", Http::METHOD_GET}, {"POST", Http::METHOD_POST}, {"PUT", Http::METHOD_PUT}, {"HEAD", Http::METHOD_HEAD},
    {"CONNECT", Http::METHOD_CONNECT}, {"TRACE", Http::METHOD_TRACE}, {"OPTIONS", Http::METHOD_OPTIONS}, {"DELETE", Http::METHOD_DELETE},
    {"SEARCH", Http::METHOD_SEARCH}, {"PROPFIND", Http::METHOD_PROPFIND}, {"PURGE", Http::METHOD_PURGE}, {"OTHER", Http::METHOD_OTHER}
};
static const int NMethods = sizeof(Methods) / sizeof(Methods[0]);

struct Case {
    std::string method = "GET";
    std::string uri;
};
static std::string show(const Case &c) { return vp::Writer().s("method", c.method).s("uri", c.uri).str(); }
static Case parse(const std::string &t) { vp::Reader r(t); Case c; c.method = r.s("method"); c.uri = r.s("uri"); return c; }

static Http::MethodType methodId(const std::string &m)
{
    for (const auto &x : Methods) if (m == x.name) return x.id;
    return Http::METHOD_GET;
}

// ------------------------------------------------------------------ reference

static std::string lower(std::string s) { for (auto &c : s) c = static_cast<char>(tolower(static_cast<unsigned char>(c))); return s; }
static bool allDigits(const std::string &s) { if (s.empty()) return false; for (unsigned char c : s) if (!isdigit(c)) return false; return true; }

struct RefUri {
    bool hasScheme = false;
    std::string scheme;      // lower-case
    bool urn = false;
    bool hasAuthority = false;
    std::string userinfo; bool hasUserinfo = false; bool multiAt = false;
    std::string host;        // as written (brackets included)
    bool bracketed = false, badBracket = false;
    bool hasPort = false;    // a ':' after the host
    std::string portText;
    bool multiColon = false; // unbracketed host part still contains ':'
    std::string rest;        // path [?query] [#fragment] as written
};

/// RFC 3986 Appendix B style split (the authority ends at the first "/", "?" or "#")
static RefUri refSplit(const std::string &u)
{
    RefUri r;
    size_t i = 0;
    if (u.empty() || !isalpha(static_cast<unsigned char>(u[0]))) return r;
    while (i < u.size() && (isalnum(static_cast<unsigned char>(u[i])) || u[i] == '+' || u[i] == '-' || u[i] == '.')) ++i;
    if (i >= u.size() || u[i] != ':') return r;
    r.hasScheme = true;
    r.scheme = lower(u.substr(0, i));
    ++i;
    if (r.scheme == "urn") { r.urn = true; r.rest = u.substr(i); return r; }
    if (u.compare(i, 2, "//") != 0) { r.rest = u.substr(i); return r; }
    i += 2;
    r.hasAuthority = true;
    const size_t end = std::min(u.find_first_of("/?#", i), u.size());
    std::string auth = u.substr(i, end - i);
    r.rest = u.substr(end);
    const size_t at = auth.rfind('@');
    if (at != std::string::npos) {
        r.hasUserinfo = true;
        r.userinfo = auth.substr(0, at);
        r.multiAt = r.userinfo.find('@') != std::string::npos;
        auth = auth.substr(at + 1);
    }
    if (!auth.empty() && auth[0] == '[') {
        r.bracketed = true;
        const size_t close = auth.find(']');
        if (close == std::string::npos) { r.badBracket = true; r.host = auth; return r; }
        r.host = auth.substr(0, close + 1);
        {
            unsigned char b6[16];
            if (inet_pton(AF_INET6, auth.substr(1, close - 1).c_str(), b6) != 1) r.badBracket = true; // not an IPv6address (IPvFuture is not supported)
        }
        const std::string after = auth.substr(close + 1);
        if (after.empty()) return r;
        if (after[0] != ':') { r.badBracket = true; return r; }
        r.hasPort = true;
        r.portText = after.substr(1);
        return r;
    }
    const size_t colon = auth.rfind(':');
    if (colon == std::string::npos) { r.host = auth; return r; }
    r.host = auth.substr(0, colon);
    r.hasPort = true;
    r.portText = auth.substr(colon + 1);
    r.multiColon = r.host.find(':') != std::string::npos;
    return r;
}

/// scheme default ports: RFC 9110 (http 80, https 443), RFC 959/1738 (ftp 21), RFC 7252 (coap 5683, coaps 5684),
/// RFC 1625/4156 (wais 210), RFC 3912 (whois 43)
static int refDefaultPort(const std::string &scheme)
{
    if (scheme == "http") return 80;
    if (scheme == "https") return 443;
    if (scheme == "ftp") return 21;
    if (scheme == "coap") return 5683;
    if (scheme == "coaps") return 5684;
    if (scheme == "wais") return 210;
    if (scheme == "whois") return 43;
    return 0; // none known
}

enum class PortKind { Valid, Empty, OutOfRange, Signed, TrailingGarbage, NonNumeric };
static PortKind classifyPort(const std::string &t, u128 &value)
{
    value = 0;
    if (t.empty()) return PortKind::Empty;
    if (allDigits(t)) {
        for (char ch : t) if (value < (static_cast<u128>(1) << 100)) value = value * 10 + (ch - '0');
        return (value >= 1 && value <= 65535) ? PortKind::Valid : PortKind::OutOfRange;
    }
    size_t i = 0;
    const bool sign = t[0] == '+' || t[0] == '-';
    if (sign) i = 1;
    size_t nd = 0;
    while (i < t.size() && isdigit(static_cast<unsigned char>(t[i]))) { ++i; ++nd; }
    if (!nd) return PortKind::NonNumeric;
    if (i < t.size()) return PortKind::TrailingGarbage;
    return PortKind::Signed;
}

/// 16-byte binary form of an IP literal (v6 when bracketed/with colons, else v4 -- including the legacy inet_aton forms -- as IPv4-mapped)
static bool ipBytes(std::string h, std::string &out)
{
    if (h.size() >= 2 && h.front() == '[' && h.back() == ']') h = h.substr(1, h.size() - 2);
    unsigned char b6[16];
    if (h.find(':') != std::string::npos) {
        if (inet_pton(AF_INET6, h.c_str(), b6) != 1) return false;
        out.assign(reinterpret_cast<char *>(b6), 16);
        return true;
    }
    struct in_addr a4;
    if (h.empty() || !isdigit(static_cast<unsigned char>(h[0]))) return false;
    if (inet_aton(h.c_str(), &a4) != 1) return false;
    // an IPv4 address and its IPv4-mapped IPv6 form (::ffff:a.b.c.d) name the same endpoint
    out.assign(10, '\0');
    out += "\xff\xff";
    out.append(reinterpret_cast<char *>(&a4), 4);
    return true;
}

static std::string stripTrailingDots(std::string h) { while (!h.empty() && h.back() == '.') h.pop_back(); return h; }

static bool hostsEquivalent(const std::string &written, const std::string &squid)
{
    const std::string w = lower(written);
    if (w == squid || stripTrailingDots(w) == squid) return true;
    std::string a, b;
    return ipBytes(stripTrailingDots(w), a) && ipBytes(squid, b) && a == b;
}

/// bytes RFC 3986 allows in path and query (pchar / "/" / "?") plus "%" itself
static bool pathByteAllowed(unsigned char c)
{
    if (isalnum(c)) return true;
    return c && strchr("-._~!$&'()*+,;=:@/?%", c) != nullptr;
}
static std::string pctNormalise(const std::string &p)
{
    static const char *hex = "0123456789ABCDEF";
    std::string o;
    for (size_t i = 0; i < p.size(); ++i) {
        const unsigned char c = p[i];
        if (c == '%' && i + 2 < p.size() + 0 && isxdigit(static_cast<unsigned char>(p[i + 1])) && isxdigit(static_cast<unsigned char>(p[i + 2]))) {
            o += '%'; o += static_cast<char>(toupper(p[i + 1])); o += static_cast<char>(toupper(p[i + 2]));
            i += 2;
        } else if (pathByteAllowed(c)) o += static_cast<char>(c);
        else { o += '%'; o += hex[c >> 4]; o += hex[c & 15]; }
    }
    return o;
}

static std::string sb(const SBuf &s) { return std::string(s.rawContent(), s.length()); }

// ------------------------------------------------------------------ property

static void resetConfig()
{
    Config.onoff.check_hostnames = 1;
    Config.onoff.allow_underscore = 1;
    Config.uri_whitespace = URI_WHITESPACE_STRIP;
    Config.appendDomain = nullptr;
    Config.appendDomainLen = 0;
}

static vp::Verdict hostRules(const std::string &squidHost, bool numeric)
{
    for (unsigned char ch : squidHost) if (isupper(ch)) return vp::fail("uri:host-not-lowercase", "host " + vp::esc(squidHost));
    if (squidHost.empty()) return vp::fail("uri:empty-host-accepted");
    if (!numeric) {
        if (squidHost.front() == '.' || squidHost.back() == '.' || squidHost.find("..") != std::string::npos)
            return vp::fail("uri:host-with-empty-label-accepted", "host " + vp::esc(squidHost));
    }
    return vp::pass();
}

static vp::Verdict portRules(const RefUri &ref, const std::string &portText, bool hasPort, int squidPort, bool squidHasPort, const Case &c)
{
    const std::string where = c.method + " " + vp::esc(c.uri) + " -> port " + (squidHasPort ? std::to_string(squidPort) : std::string("none"));
    if (!squidHasPort || squidPort < 1 || squidPort > 65535) return vp::fail("uri:accepted-port-outside-1-65535", where);
    if (hasPort) {
        u128 v = 0;
        switch (classifyPort(portText, v)) {
        case PortKind::Valid:
            if (static_cast<u128>(squidPort) != v) return vp::fail("uri:port-differs-from-written", where);
            break;
        case PortKind::Empty: { // "h:" -- RFC 3986 allows an empty port (= default); left open, but the port must then be the default
            const int d = refDefaultPort(ref.scheme);
            if (d && squidPort != d) return vp::fail("uri:empty-port-not-default", where);
            break;
        }
        case PortKind::OutOfRange: return vp::fail("uri:port-out-of-range-accepted", where);
        case PortKind::Signed: return vp::fail("uri:port-with-sign-accepted", where);
        case PortKind::TrailingGarbage: return vp::fail("uri:port-trailing-garbage-accepted", where);
        case PortKind::NonNumeric: return vp::fail("uri:non-numeric-port-accepted", where);
        }
    } else {
        const int d = refDefaultPort(ref.scheme);
        if (!d) return vp::fail("uri:port-invented-for-scheme-without-default", where);
        if (squidPort != d) return vp::fail("uri:default-port-wrong:" + ref.scheme, where);
    }
    return vp::pass();
}

static vp::Verdict check(const Case &c, vp::Ctx &ctx)
{
    static bool inited = false;
    if (!inited) { Mem::Init(); AnyP::UriScheme::Init(); inited = true; }
    resetConfig();

    for (unsigned char ch : c.uri)
        if (ch <= 0x20 || ch == 0x7f) { ctx.excluded("whitespace/CTL in request-target"); return vp::pass(); }
    if (c.uri.size() > 4000) { ctx.excluded("longer than the generator bound"); return vp::pass(); }

    const Http::MethodType mid = methodId(c.method);
    const HttpRequestMethod method(mid);
    const SBuf raw(c.uri.data(), c.uri.size());
    AnyP::Uri u;
    const bool ok = u.parse(method, raw);
    ctx.label(ok ? "squid-accepts" : "squid-rejects");

    // ---- CONNECT: authority-form
    if (mid == Http::METHOD_CONNECT) {
        ctx.label("connect");
        std::string host, portText;
        bool hasPort = false;
        if (!c.uri.empty() && c.uri[0] == '[') {
            const size_t close = c.uri.find(']');
            if (close != std::string::npos) {
                host = c.uri.substr(0, close + 1);
                if (close + 1 < c.uri.size() && c.uri[close + 1] == ':') { hasPort = true; portText = c.uri.substr(close + 2); }
                else if (close + 1 < c.uri.size()) host = c.uri; // garbage after the bracket
            } else host = c.uri;
            ctx.label("bracketed-host");
            ctx.nontrivial();
        } else {
            const size_t colon = c.uri.rfind(':');
            if (colon == std::string::npos) host = c.uri;
            else { host = c.uri.substr(0, colon); hasPort = true; portText = c.uri.substr(colon + 1); }
        }
        if (hasPort) { ctx.label("explicit-port"); ctx.nontrivial(); }
        if (!ok) return vp::pass();
        RefUri ref;
        ref.scheme = "";
        if (!hasPort) return vp::fail("uri:connect-target-without-port-accepted", vp::esc(c.uri));
        const std::string sh = u.host();
        if (auto v = hostRules(sh, u.hostIsNumeric()); !v.ok) return v;
        if (!hostsEquivalent(host, sh)) return vp::fail("uri:host-differs-from-written", "CONNECT " + vp::esc(c.uri) + " -> host " + vp::esc(sh));
        u128 pv = 0;
        if (classifyPort(portText, pv) == PortKind::Empty) return vp::fail("uri:connect-empty-port-accepted", vp::esc(c.uri));
        if (auto v = portRules(ref, portText, true, u.port().value_or(0), u.port().has_value(), c); !v.ok) return v;
        // canonical authority-form round trip
        const std::string canon = sb(u.authority(true));
        AnyP::Uri u2;
        const bool unspecified6 = sh == "::"; // the unspecified IPv6 address is stored without brackets
        if (!u2.parse(method, SBuf(canon.data(), canon.size())))
            return vp::fail(unspecified6 ? "uri:roundtrip:unspecified-ipv6-loses-brackets" : "uri:roundtrip:canonical-form-rejected", "CONNECT " + vp::esc(c.uri) + " canonical " + vp::esc(canon));
        if (std::string(u2.host()) != sh) return vp::fail(unspecified6 ? "uri:roundtrip:unspecified-ipv6-loses-brackets" : "uri:roundtrip:host-differs", vp::esc(canon) + " -> " + vp::esc(u2.host()));
        if (u2.port() != u.port()) return vp::fail("uri:roundtrip:port-differs", vp::esc(canon));
        ctx.label("roundtrip-checked");
        return vp::pass();
    }

    // ---- "*"
    if (c.uri == "*") {
        ctx.label("asterisk");
        ctx.excluded("'*' is not an absolute URI: authority rules not judged");
        return vp::pass();
    }

    const RefUri ref = refSplit(c.uri);
    if (ref.hasAuthority) {
        if (ref.hasPort) { ctx.label("explicit-port"); ctx.nontrivial(); }
        if (ref.bracketed) { ctx.label("bracketed-host"); ctx.nontrivial(); }
        if (ref.hasUserinfo) { ctx.label("userinfo"); ctx.nontrivial(); }
        if (ref.rest.find('?') != std::string::npos) ctx.label("has-query");
        if (pctNormalise(ref.rest) != ref.rest) ctx.label("path-with-bytes-needing-encoding");
        if (ref.hasPort) {
            u128 v = 0;
            switch (classifyPort(ref.portText, v)) {
            case PortKind::Valid: ctx.label("port:valid"); break;
            case PortKind::Empty: ctx.label("port:empty"); break;
            case PortKind::OutOfRange: ctx.label(v > 0xffffffffULL ? "port:above-2^32" : (v == 0 ? "port:zero" : "port:out-of-range")); break;
            case PortKind::Signed: ctx.label("port:signed"); break;
            case PortKind::TrailingGarbage: ctx.label("port:trailing-garbage"); break;
            case PortKind::NonNumeric: ctx.label("port:non-numeric"); break;
            }
        }
    }
    if (!ok) return vp::pass(); // the statement only constrains what Squid accepts
    // what is accepted is labelled too, so that a parser that starts refusing a whole class shows up in the gates
    if (ref.hasAuthority && ref.bracketed && !ref.badBracket) ctx.label("accepted:bracketed-ipv6");
    if (ref.hasAuthority && ref.hasPort) ctx.label("accepted:explicit-port");
    if (ref.hasAuthority && ref.hasUserinfo) ctx.label("accepted:userinfo");

    if (!ref.hasScheme) return vp::fail("uri:accepted-without-scheme", c.method + " " + vp::esc(c.uri));
    const std::string squidScheme = sb(u.getScheme().image());
    if (lower(squidScheme) != ref.scheme) return vp::fail("uri:scheme-differs-from-written", vp::esc(c.uri) + " -> " + vp::esc(squidScheme));

    const std::string canon = sb(u.absolute());
    const std::string sh = u.host();
    const std::string spath = sb(u.path());

    if (ref.urn) {
        ctx.label("urn");
        if (u.hostIsNumeric()) // e.g. urn:1234:x -> "host" 0.0.4.210; the canonical form then no longer parses
            return vp::fail("uri:urn-nid-converted-to-ip-address", vp::esc(c.uri) + " canonical " + vp::esc(canon));
        ctx.excluded("urn: has no authority; only the canonical-form round trip is judged");
    } else {
        if (!ref.hasAuthority) return vp::fail("uri:accepted-without-authority", vp::esc(c.uri));
        if (auto v = hostRules(sh, u.hostIsNumeric()); !v.ok) { v.detail = c.method + " " + vp::esc(c.uri) + " " + v.detail; return v; }
        if (ref.badBracket) return vp::fail("uri:malformed-bracketed-host-accepted", vp::esc(c.uri) + " -> host " + vp::esc(sh));
        bool hasPort = ref.hasPort;
        std::string host = ref.host, portText = ref.portText;
        if (ref.multiColon) {
            // several colons and no brackets: the grammar has no reading for it
            const std::string whole = ref.host + ":" + ref.portText;
            std::string bytes;
            if (ipBytes("[" + whole + "]", bytes)) {
                ctx.label("unbracketed-ipv6");
                ctx.excluded("unbracketed authority that is an IPv6 address as a whole (left open)");
                host = whole; hasPort = false; portText.clear();
            } else
                return vp::fail("uri:multi-colon-authority-accepted", vp::esc(c.uri) + " -> host " + vp::esc(sh) + " port " + std::to_string(u.port().value_or(0)));
        }
        if (ref.multiAt) ctx.excluded("several '@' in the authority (userinfo split left open)");
        if (!hostsEquivalent(host, sh)) return vp::fail("uri:host-differs-from-written", vp::esc(c.uri) + " -> host " + vp::esc(sh));
        if (auto v = portRules(ref, portText, hasPort, u.port().value_or(0), u.port().has_value(), c); !v.ok) return v;
    }

    // ---- parse(absolute()) round trip
    AnyP::Uri u2;
    if (!u2.parse(method, SBuf(canon.data(), canon.size())))
        return vp::fail(ref.urn ? "uri:roundtrip:canonical-form-rejected:urn" : (sh == "::" ? "uri:roundtrip:unspecified-ipv6-loses-brackets" : "uri:roundtrip:canonical-form-rejected"), vp::esc(c.uri) + " canonical " + vp::esc(canon));
    const std::string what = vp::esc(c.uri) + " canonical " + vp::esc(canon);
    if (sb(u2.getScheme().image()) != squidScheme) return vp::fail("uri:roundtrip:scheme-differs", what);
    if (std::string(u2.host()) != sh) return vp::fail(sh == "::" ? "uri:roundtrip:unspecified-ipv6-loses-brackets" : "uri:roundtrip:host-differs", what + " -> host " + vp::esc(u2.host()));
    if (u2.port() != u.port()) return vp::fail("uri:roundtrip:port-differs", what + " -> port " + std::to_string(u2.port().value_or(0)));
    const std::string path2 = sb(u2.path());
    if (pctNormalise(path2) != pctNormalise(spath)) return vp::fail("uri:roundtrip:path-differs", what + " path " + vp::esc(spath) + " -> " + vp::esc(path2));
    if (sb(u2.absolute()) != canon) return vp::fail("uri:roundtrip:canonical-form-not-a-fixpoint", what + " -> " + vp::esc(sb(u2.absolute())));
    ctx.label("roundtrip-checked");
    return vp::pass();
}

// ------------------------------------------------------------------ generator

static rc::Gen<std::string> hostGen()
{
    using namespace rc;
    return gen::exec([]() -> std::string {
        const int k = *gen::weightedElement<int>({{10, 0}, {4, 1}, {5, 2}, {3, 3}, {2, 4}});
        switch (k) {
        case 0: { // reg-name
            const int labels = *vp::range<int>(1, 4);
            std::string h;
            for (int i = 0; i < labels; ++i) {
                if (i) h += ".";
                const int lk = *vp::range<int>(0, 19);
                if (lk == 0) continue; // empty label
                h += *gen::element(std::string("example"), std::string("a"), std::string("WWW"), std::string("Ex-Ample"), std::string("x_y"), std::string("b2"),
                                   std::string("com"), std::string("ORG"), std::string("localhost"), std::string("xn--nxasmq6b"), std::string("1e3"), std::string("-a"), std::string("a%41"), std::string("h~"));
            }
            const int tail = *vp::range<int>(0, 14);
            if (tail == 0) h += ".";
            if (tail == 1) h += "..";
            if (tail == 2) h = "." + h;
            return h;
        }
        case 1:
            return *gen::element(std::string("127.0.0.1"), std::string("10.0.0.255"), std::string("1.2.3.4"), std::string("256.1.1.1"), std::string("127.1"), std::string("2130706433"),
                                 std::string("0x7f.0.0.1"), std::string("1.2.3"), std::string("0.0.0.0"), std::string("1.2.3.4."), std::string("999.999.999.999"));
        case 2:
            return "[" + *gen::element(std::string("::1"), std::string("2001:DB8::1"), std::string("2001:db8:0:0:0:0:0:1"), std::string("::ffff:1.2.3.4"), std::string("fe80::1"),
                                       std::string("::"), std::string("1::"), std::string("::0001"), std::string("0:0:0:0:0:0:0:1")) + "]";
        case 3: // bad brackets and friends
            return *gen::element(std::string("[::1"), std::string("::1]"), std::string("[::1]x"), std::string("[127.0.0.1]"), std::string("[example.com]"), std::string("[v1.fe80::a]"),
                                 std::string("[:::1]"), std::string("[1:2:3:4:5:6:7:8:9]"), std::string("::1"), std::string("2001:db8::1"), std::string("[]"), std::string("[::1]]"), std::string("[[::1]"));
        default:
            return *gen::element(std::string(""), std::string("."), std::string(".."), std::string("a..b"), std::string(".a"), std::string("-"), std::string("_"), std::string("a:b"), std::string("EXAMPLE.COM."));
        }
    });
}

static rc::Gen<std::string> portGen()
{
    using namespace rc;
    return gen::exec([]() -> std::string {
        const int k = *vp::range<int>(0, 23);
        const unsigned p = *gen::element(1u, 21u, 80u, 443u, 3128u, 8080u, 33180u, 65535u);
        switch (k) {
        case 0: return "";
        case 1: return "0";
        case 2: return "65535";
        case 3: return "65536";
        case 4: return std::to_string(65536ULL * *vp::range<int>(1, 40000) + p);       // wraps in 16 bits
        case 5: return std::to_string(4294967296ULL * *vp::range<int>(1, 1000) + p);   // wraps in 32 bits
        case 6: return "18446744073709551616" ;                                         // 2^64
        case 7: return "1844674407370955" + std::to_string(161600 + p);                 // 2^64 + p
        case 8: return "-" + std::to_string(p);
        case 9: return "+" + std::to_string(p);
        case 10: return std::to_string(p) + *gen::element(std::string("abc"), std::string("x"), std::string(".0"), std::string("e1"), std::string("%20"), std::string(":"));
        case 11: return *gen::element(std::string("http"), std::string("x"), std::string("0x50"), std::string("%38%30"), std::string("8o"));
        case 12: return "0" + std::to_string(p);
        case 13: return "000000000000000000000" + std::to_string(p);
        case 14: return "2147483648";
        case 15: return "4294967295";
        case 16: return std::to_string(*vp::range<int>(65536, 200000));
        default: return std::to_string(*vp::range<int>(1, 65535));
        }
    });
}

static rc::Gen<std::string> pathGen()
{
    using namespace rc;
    return gen::exec([]() -> std::string {
        std::string p;
        const int segs = *gen::weightedElement<int>({{3, 0}, {5, 1}, {3, 2}, {1, 4}});
        for (int i = 0; i < segs; ++i)
            p += "/" + *gen::element(std::string("a"), std::string("index.html"), std::string(""), std::string(".."), std::string("%7Euser"), std::string("%7euser"), std::string("a:b@c"),
                                     std::string("x;y=1"), std::string("<b>"), std::string("a\"b"), std::string("caf\xc3\xa9"), std::string("{x}"), std::string("a|b"), std::string("100%"),
                                     std::string("%zz"), std::string("a\\b"), std::string("^"), std::string("`"), std::string("[1]"), std::string("*"));
        const int q = *vp::range<int>(0, 9);
        if (q <= 3) p += "?" + *gen::element(std::string("x=1"), std::string(""), std::string("a=b&c=d"), std::string("q=a?b"), std::string("?"), std::string("u=http://h/?x"), std::string("a=<>"),
                                             std::string("k=%3F"), std::string("/../"), std::string("a=b#c"));
        if (*vp::range<int>(0, 14) == 0) p += "#" + *gen::element(std::string("frag"), std::string(""), std::string("a?b"));
        return p;
    });
}

static std::string mixCase(const std::string &s, unsigned bits)
{
    std::string o = s;
    for (size_t i = 0; i < o.size(); ++i) if (bits & (1u << (i % 16))) o[i] = static_cast<char>(toupper(static_cast<unsigned char>(o[i])));
    return o;
}

static rc::Gen<Case> gen()
{
    using namespace rc;
    return gen::exec([]() {
        Case c;
        const int shape = *gen::weightedElement<int>({{30, 0}, {6, 1}, {1, 2}, {1, 3}, {1, 4}});
        if (shape == 1) { // CONNECT authority-form
            c.method = "CONNECT";
            c.uri = *hostGen();
            if (*vp::range<int>(0, 9) != 0) c.uri += ":" + *portGen();
            if (*vp::range<int>(0, 19) == 0) c.uri += *gen::element(std::string("/"), std::string("x"), std::string(":1"));
            return c;
        }
        c.method = Methods[*vp::range<int>(0, NMethods - 1)].name;
        if (*vp::range<int>(0, 2) != 0) c.method = "GET";
        if (shape == 2) { c.method = *gen::element(std::string("OPTIONS"), std::string("TRACE"), std::string("GET")); c.uri = "*"; return c; }
        if (shape == 3) {
            c.uri = *gen::element(std::string("urn:"), std::string("URN:"), std::string("Urn:")) +
                    *gen::element(std::string("isbn"), std::string("ISBN"), std::string("ietf"), std::string("a"), std::string("1234"), std::string("a-b"), std::string("-ab"), std::string("ex.ample"),
                                  std::string("0x10"), std::string("127.1"), std::string("uuid")) +
                    *gen::element(std::string(":"), std::string("")) + *gen::element(std::string("0451450523"), std::string("rfc:2648"), std::string("a/b?c"), std::string(""), std::string("x<y"));
            return c;
        }
        if (shape == 4) { // not an absolute URI with authority
            c.uri = *gen::element(std::string("/index.html"), std::string("http:/a/b"), std::string("http:a"), std::string("//h/p"), std::string("mailto:a@b"), std::string("://h/"), std::string("1http://h/"),
                                  std::string("http//h/"), std::string(":80"), std::string("h:80"), std::string("averyveryverylongscheme://h:1/"));
            return c;
        }
        std::string scheme = *gen::weightedElement<std::string>({{20, "http"}, {6, "https"}, {5, "ftp"}, {2, "ws"}, {2, "wss"}, {1, "coap"}, {1, "coaps"}, {1, "wais"}, {1, "whois"},
                                                                   {2, "foo"}, {1, "a+b-c.d"}, {1, "cache_object"}, {1, "h2"}});
        if (*vp::range<int>(0, 3) == 0) scheme = mixCase(scheme, *vp::range<unsigned>(0, 65535));
        std::string u = scheme + "://";
        const int ui = *vp::range<int>(0, 9);
        if (ui == 0) u += *gen::element(std::string("user"), std::string("user:pw"), std::string(""), std::string("a%40b"), std::string("u:p:q"), std::string("a@b"), std::string("%zz"), std::string("U;x=1")) + "@";
        u += *hostGen();
        if (*vp::range<int>(0, 9) < 6) u += ":" + *portGen();
        u += *pathGen();
        c.uri = u;
        return c;
    });
}

#ifdef VP_FUZZ
static Case fuzzCase(FuzzedDataProvider &fdp)
{
    Case c;
    c.method = Methods[fdp.ConsumeIntegralInRange<int>(0, NMethods - 1)].name;
    static const char *const prefixes[] = {"", "http://", "https://", "ftp://", "foo://", "urn:"};
    const int p = fdp.ConsumeIntegralInRange<int>(0, 5);
    c.uri = (c.method == "CONNECT" ? std::string() : std::string(prefixes[p])) + fdp.ConsumeRemainingBytesAsString();
    return c;
}
#else
static std::function<Case(FuzzedDataProvider &)> fuzzCase = nullptr;
#endif

static void registerAll()
{
    vp::add<Case>("uri_parse", gen(), check, show, parse, 1.0, fuzzCase);
}

VP_MAIN(registerAll)
