// C32 HTML quoting neutralises markup and is reversible (src/html/Quoting.cc html_quote).
// Domain : every string over the 16-symbol alphabet < > " ' & ; # a l t g q 0 3 9 SP up to length 4
//          (69 905 strings, enumerated by index); random NUL-free byte strings up to 16 KB dense in
//          metacharacters, look-alike entity references, control and high bytes.
// Oracle : from the statement: the output contains no raw < > " ' ; every & starts one of the
//          references &lt; &gt; &quot; &apos; &amp; &#N; (decimal or hex, N <= 255); a reference
//          decoder (numeric reference N -> byte N) applied to the output returns the input.
#include "squid.h"
#include "html/Quoting.h"

#include "verif_pbt.h"

static const char kAlphabet[17] = "<>\"'&;#altgq039 ";

/// decodes the character references of `q`; false when a raw metacharacter or a bare '&' is met
static bool referenceDecode(const std::string &q, std::string &out, std::string &why)
{
    out.clear();
    for (size_t i = 0; i < q.size(); ++i) {
        const char c = q[i];
        if (c == '<' || c == '>' || c == '"' || c == '\'') { why = "raw-metacharacter"; return false; }
        if (c != '&') { out += c; continue; }
        const size_t semi = q.find(';', i);
        if (semi == std::string::npos || semi - i > 8) { why = "ampersand-without-reference"; return false; }
        const std::string name = q.substr(i + 1, semi - i - 1);
        if (name == "lt") out += '<';
        else if (name == "gt") out += '>';
        else if (name == "quot") out += '"';
        else if (name == "apos") out += '\'';
        else if (name == "amp") out += '&';
        else if (name.size() >= 2 && name[0] == '#') {
            unsigned v = 0;
            size_t k = 1;
            const bool hex = name[1] == 'x' || name[1] == 'X';
            if (hex) ++k;
            if (k >= name.size()) { why = "ampersand-without-reference"; return false; }
            for (; k < name.size(); ++k) {
                const unsigned char d = name[k];
                int dv = -1;
                if (d >= '0' && d <= '9') dv = d - '0';
                else if (hex && d >= 'a' && d <= 'f') dv = d - 'a' + 10;
                else if (hex && d >= 'A' && d <= 'F') dv = d - 'A' + 10;
                if (dv < 0) { why = "ampersand-without-reference"; return false; }
                v = v * (hex ? 16 : 10) + dv;
                if (v > 255) { why = "numeric-reference-out-of-byte-range"; return false; }
            }
            if (v == 0) { why = "numeric-reference-to-NUL"; return false; }
            out += static_cast<char>(v);
        } else { why = "ampersand-without-reference"; return false; }
        i = semi;
    }
    return true;
}

static vp::Verdict judge(const std::string &s)
{
    const std::string q = html_quote(s.c_str());
    if (q.size() > s.size() * 6)
        return vp::fail("html:output-longer-than-6x", "input " + vp::esc(s.substr(0, 200)));
    std::string back, why;
    if (!referenceDecode(q, back, why))
        return vp::fail("html:" + why, "input " + vp::esc(s.substr(0, 200)) + " quoted " + vp::esc(q.substr(0, 400)));
    if (back != s)
        return vp::fail("html:decoded-output-differs-from-input", "input " + vp::esc(s.substr(0, 200)) + " quoted " + vp::esc(q.substr(0, 400)) + " decoded " + vp::esc(back.substr(0, 200)));
    return vp::pass();
}

// ------------------------------------------------------------------ random strings

static const char *const kPieces[] = {"&lt;", "&gt;", "&quot;", "&apos;", "&amp;", "&#60;", "&#x3c;", "&#39", "&amp", "&#", "&;", "&lt", "<script>", "</a>", "\"'", "&&", "<!--", "]]>", "javascript:", "onload='x'"};

template <class Next>
static void appendSome(std::string &s, const int flavour, Next &&next)
{
    const int k = next(10);
    if (flavour == 0 && k < 9) { s += static_cast<char>(1 + next(255)); return; }
    if (k < 3) s += kAlphabet[next(16)];
    else if (k < 5) s += kPieces[next(static_cast<int>(sizeof(kPieces) / sizeof(*kPieces)))];
    else if (k == 5) s += static_cast<char>(0x7f + next(0x81));
    else if (k == 6) s += static_cast<char>(1 + next(0x1f));
    else s += static_cast<char>('a' + next(26));
}

/// Short strings are drawn symbol by symbol from rapidcheck (shrinkable); long ones are a
/// deterministic splitmix64 expansion of a rapidcheck-drawn word (per-byte draws cost ms per case).
/// The case file stores the resulting string.
static rc::Gen<std::string> genString()
{
    using namespace rc;
    return gen::exec([]() {
        const int lenKind = *vp::range<int>(0, 19);
        const int flavour = *vp::range<int>(0, 3);
        std::string s;
        if (lenKind < 10) {
            const size_t n = *vp::range<size_t>(0, 10);
            while (s.size() < n) appendSome(s, flavour, [](int m) { return *vp::range<int>(0, m - 1); });
            return s;
        }
        const size_t n = lenKind < 17 ? *vp::range<size_t>(0, 100) : lenKind < 19 ? *vp::range<size_t>(0, 1500) : *vp::range<size_t>(0, 16384);
        uint64_t state = *gen::arbitrary<uint64_t>();
        s.reserve(n + 12);
        auto next = [&state](int m) {
            state += 0x9E3779B97F4A7C15ULL;
            uint64_t z = state;
            z = (z ^ (z >> 30)) * 0xBF58476D1CE4E5B9ULL;
            z = (z ^ (z >> 27)) * 0x94D049BB133111EBULL;
            z ^= z >> 31;
            return static_cast<int>(z % static_cast<uint64_t>(m));
        };
        while (s.size() < n) appendSome(s, flavour, next);
        if (s.size() > n) s.resize(n);
        return s;
    });
}

struct StrCase { std::string s; };
static std::string showStr(const StrCase &c) { return vp::Writer().s("s", c.s).str(); }
static StrCase parseStr(const std::string &t) { vp::Reader r(t); StrCase c; c.s = r.s("s"); return c; }

static vp::Verdict checkRandom(const StrCase &c, vp::Ctx &ctx)
{
    if (c.s.find('\0') != std::string::npos) { ctx.excluded("string contains NUL (not a C string)"); return vp::pass(); }
    bool meta = false, amp = false, high = false, ctl = false;
    for (const unsigned char ch : c.s) {
        meta |= ch == '<' || ch == '>' || ch == '"' || ch == '\'';
        amp |= ch == '&';
        high |= ch >= 0x7f;
        ctl |= ch < 0x20;
    }
    bool lookalike = false;
    for (const char *p : {"&lt;", "&gt;", "&quot;", "&apos;", "&amp;", "&#"}) lookalike |= c.s.find(p) != std::string::npos;
    if (meta) ctx.label("has-markup-metacharacter");
    if (amp) ctx.label("has-ampersand");
    if (lookalike) ctx.label("input-contains-entity-lookalike");
    if (high) ctx.label("has-high-byte");
    if (ctl) ctx.label("has-control-byte");
    if (c.s.size() > 1000) ctx.label("longer-than-1000");
    if (meta || amp || high || ctl) ctx.nontrivial();
    return judge(c.s);
}

// ------------------------------------------------------------------ exhaustive enumeration by index

/// unit u in 0..255: the 256 length-4 strings whose first two symbols are alphabet[u/16], alphabet[u%16];
/// unit 256: all strings of length 0..3 (4369 strings)
struct BlockCase { int unit = 0; };
static std::string showBlock(const BlockCase &c) { return vp::Writer().i("unit", c.unit).str(); }
static BlockCase parseBlock(const std::string &t) { vp::Reader r(t); BlockCase c; c.unit = static_cast<int>(r.i("unit")); return c; }

struct Enumerator { uint64_t total; uint64_t next = 0, produced = 0; };
static Enumerator gEnum{257};

static rc::Gen<BlockCase> genBlock()
{
    return rc::gen::exec([]() {
        BlockCase c;
        c.unit = static_cast<int>(gEnum.next);
        gEnum.next = (gEnum.next + 1) % gEnum.total;
        ++gEnum.produced;
        return c;
    });
}

static vp::Verdict checkBlock(const BlockCase &c, vp::Ctx &ctx)
{
    if (c.unit < 0 || c.unit > 256) { ctx.excluded("malformed replay"); return vp::pass(); }
    uint64_t n = 0;
    if (c.unit == 256) {
        for (int len = 0; len <= 3; ++len) {
            const int count = 1 << (4 * len);
            for (int idx = 0; idx < count; ++idx) {
                std::string s(len, ' ');
                for (int p = 0; p < len; ++p) s[p] = kAlphabet[(idx >> (4 * p)) & 15];
                const auto v = judge(s);
                if (!v.ok) return v;
                ++n;
            }
        }
    } else {
        std::string s(4, ' ');
        s[0] = kAlphabet[c.unit / 16];
        s[1] = kAlphabet[c.unit % 16];
        for (int idx = 0; idx < 256; ++idx) {
            s[2] = kAlphabet[idx / 16];
            s[3] = kAlphabet[idx % 16];
            const auto v = judge(s);
            if (!v.ok) return v;
            ++n;
        }
    }
    ctx.labels["strings-evaluated"] += n;
    if (gEnum.produced % gEnum.total == 0) ctx.label("complete-enumeration-finished");
    ctx.nontrivial();
    return vp::pass();
}

static void registerAll()
{
    vp::add<StrCase>("html_quote_random", rc::gen::exec([]() { StrCase c; c.s = *genString(); return c; }), checkRandom, showStr, parseStr, 1.0);
    vp::add<BlockCase>("exhaustive_alphabet16_len_le4", genBlock(), checkBlock, showBlock, parseBlock, 0.01);
}

VP_MAIN(registerAll)
