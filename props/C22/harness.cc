// C22 Request-line acceptance matches the HTTP grammar.
//
// Domain : request lines generated from the RFC 9112 section 3 grammar (method = 1*tchar, the four
//          request-target forms over the RFC 3986 character set, "HTTP/" DIGIT "." DIGIT, CRLF) and RFC 1945
//          simple requests, then mutated: single-byte substitution over all 256 values at any position,
//          insertion, deletion, delimiter mutations (2 SP, HTAB, VT, FF, CR, none), terminator mutations
//          (LF, CR CR LF, CR), leading empty lines, case changes, length mutations around the 32-byte method
//          limit and the 65536-byte request-target limit (String::RawSizeMaxXXX()).
// Driver : the bytes of the line followed by a fixed well-formed tail "Host: a" CRLF CRLF are parsed in one
//          piece by the real Http1::RequestParser, once with relaxed_header_parser off and once with on (or
//          warn); request_header_max_size is 256 KB so that the request-target limit is reachable.  (Segmentation is C21's subject.)
// Oracle : reference recogniser written from the grammar, parameterised by Squid's two length limits.
//   strict : accepted <=> the first line of the stream is  method SP request-target SP HTTP-version CRLF  and
//            the reported method/target/version are the grammar's fields.
//   relaxed: every line the strict grammar accepts is accepted with the same fields (a known method in the
//            wrong case is reported in its registered spelling: documented in-code normalisation); whatever
//            is accepted lies in the tolerant language: optional leading empty lines (CRLF or LF), method =
//            1*32 tchar, separators = 1*(SP / HTAB / VT / FF / CR), request-target over the RFC 3986
//            characters plus Squid's documented extension (RFC 2396 "unwise" characters, bytes >= 0x80,
//            embedded whitespace), an optional HTTP-version, any number of CR before the LF.
// Scope decisions (DESIGN.md section 6 item 12 and section 5 C22 notes):
//   * the request-target is judged at the character-set level only (non-empty, RFC 3986 characters, length
//     limit); its structure (the four forms, pct-triplets) is the URL parser's subject (C30);
//   * the RFC 1945 simple request "GET" SP target CRLF is not an RFC 9112 request line; accepting it (as
//     version 0.9) or not is allowed either way for method GET and asserted for no other method;
//   * a multi-digit version is parsed to the "0.0" marker that the server answers with 505: counted as rejected.
#include "squid.h"
#include "http/one/RequestParser.h"
#include "http/RequestMethod.h"
#include "sbuf/SBuf.h"
#include "SquidConfig.h"
#include "SquidString.h"

#include "verif_pbt.h"

namespace {

const std::string kTail = "Host: a\r\n\r\n";

struct Case {
    std::string text;   // the bytes of the (mutated) request line including its terminator
    int warn = 0;       // relaxed run uses relaxed_header_parser = -1 (warn) instead of 1
    std::string note;   // which mutation produced the text (labels only)
};

std::string show(const Case &c) { return vp::Writer().s("text", c.text).i("warn", c.warn).s("note", c.note).str(); }
Case parse(const std::string &t)
{
    vp::Reader r(t);
    Case c;
    c.text = r.s("text");
    c.warn = static_cast<int>(r.i("warn"));
    c.note = r.s("note");
    return c;
}

// ------------------------------------------------------------------ character classes (RFC 9110 / RFC 3986 / RFC 9112)

bool isTchar(unsigned char ch)
{
    if (isalnum(ch)) return true;
    return ch && strchr("!#$%&'*+-.^_`|~", ch) != nullptr;
}
bool isUriChar(unsigned char ch)
{
    if (isalnum(ch)) return true;
    return ch && strchr("-._~:/?#[]@!$&'()*+,;=%", ch) != nullptr;
}
bool isRelaxedDelim(unsigned char ch) { return ch == ' ' || ch == '\t' || ch == '\v' || ch == '\f' || ch == '\r'; }
bool isRelaxedTargetChar(unsigned char ch)
{
    if (isUriChar(ch) || isRelaxedDelim(ch) || ch >= 0x80) return true;
    return ch && strchr("\"\\|^<>`{}", ch) != nullptr;
}
bool isDigit(unsigned char ch) { return ch >= '0' && ch <= '9'; }

const size_t kMaxMethod = 32;
size_t maxTarget() { return String::RawSizeMaxXXX(); }

bool isVersion(const std::string &v) // "HTTP/" DIGIT "." DIGIT
{
    return v.size() == 8 && v.compare(0, 5, "HTTP/") == 0 && isDigit(v[5]) && v[6] == '.' && isDigit(v[7]);
}

// ------------------------------------------------------------------ generator

using Strs = std::vector<std::string>;
std::string pick(const Strs &v) { return v[*vp::range<size_t>(0, v.size() - 1)]; }
bool chance(int percent) { return *vp::range<int>(0, 99) < percent; }

const std::string kTcharAlphabet = "!#$%&'*+-.^_`|~0123456789abcdefghijklmnopqrstuvwxyzABCDEFGHIJKLMNOPQRSTUVWXYZ";
const std::string kPchar = "abcdefghijklmnopqrstuvwxyzABCXYZ0123456789-._~!$&'()*+,;=:@%";

std::string genMethod()
{
    const int k = *vp::range<int>(0, 19);
    if (k < 10) {
        static const Strs known = {"GET", "GET", "GET", "POST", "HEAD", "PUT", "CONNECT", "OPTIONS", "DELETE", "TRACE", "PATCH", "PROPFIND", "VERSION-CONTROL", "PRI", "PURGE"};
        return pick(known);
    }
    if (k < 12) {
        static const Strs odd = {"get", "Get", "gEt", "post", "NONE", "METHOD_OTHER", "M-SEARCH", "a", "0", "~"};
        return pick(odd);
    }
    if (k < 17) {
        std::string s;
        const int n = *vp::range<int>(1, 12);
        for (int i = 0; i < n; ++i) s += kTcharAlphabet[*vp::range<size_t>(0, kTcharAlphabet.size() - 1)];
        return s;
    }
    // around the 32-byte limit
    const int n = *vp::range<int>(30, 34);
    std::string s;
    for (int i = 0; i < n; ++i) s += kTcharAlphabet[*vp::range<size_t>(0, kTcharAlphabet.size() - 1)];
    return s;
}

std::string genSegment(int maxLen)
{
    std::string s;
    const int n = *vp::range<int>(0, maxLen);
    for (int i = 0; i < n; ++i) s += kPchar[*vp::range<size_t>(0, kPchar.size() - 1)];
    return s;
}

std::string genHost()
{
    static const Strs h = {"example.com", "a", "127.0.0.1", "[::1]", "[2001:db8::1]", "www.example.org", "x-y.z", "user@host", "h%41"};
    return pick(h);
}

std::string genTarget()
{
    const int k = *vp::range<int>(0, 19);
    if (k < 9) { // origin-form
        std::string s;
        const int segs = *vp::range<int>(1, 3);
        for (int i = 0; i < segs; ++i) { s += '/'; s += genSegment(8); }
        if (chance(35)) { s += '?'; s += genSegment(10); }
        return s;
    }
    if (k < 14) { // absolute-form
        std::string s = chance(80) ? "http://" : pick({"https://", "ftp://", "urn:", "HTTP://", "ws://"});
        s += genHost();
        if (chance(40)) s += ":" + std::to_string(*vp::range<int>(0, 65535));
        if (chance(80)) { s += '/'; s += genSegment(10); }
        if (chance(30)) { s += '?'; s += genSegment(8); }
        if (chance(10)) { s += '#'; s += genSegment(4); }
        return s;
    }
    if (k < 16) return genHost() + ":" + std::to_string(*vp::range<int>(1, 65535)); // authority-form
    if (k < 17) return "*";                                                          // asterisk-form
    if (k < 19) { // targets that look like other fields
        static const Strs t = {"/1.1", "/HTTP/1.1", "/x1", "/HTTP/", "HTTP/1.1", "/a/HTTP/1.0", "/9", "/.", "/%", "/%zz", "//", "?", "#", "/[", "%41"};
        return pick(t);
    }
    std::string s = "/";
    s += genSegment(120);
    return s;
}

std::string genVersion()
{
    const int k = *vp::range<int>(0, 19);
    if (k < 11) return "HTTP/1.1";
    if (k < 14) return "HTTP/1.0";
    std::string s = "HTTP/";
    s += static_cast<char>('0' + *vp::range<int>(0, 9));
    s += '.';
    s += static_cast<char>('0' + *vp::range<int>(0, 9));
    return s;
}

const char kInterestingRaw[] = "\r\n \t\v\f\0:/.?#%*19HTP\"\\|^<>`{}\x7f\x80\xff";
const std::string kInteresting(kInterestingRaw, sizeof(kInterestingRaw) - 1);

char anyByte()
{
    if (chance(55)) return kInteresting[*vp::range<size_t>(0, kInteresting.size() - 1)];
    return static_cast<char>(*vp::range<int>(0, 255));
}

rc::Gen<Case> gen()
{
    return rc::gen::exec([]() {
        Case c;
        c.warn = chance(15);
        const std::string method = genMethod();
        std::string target = genTarget();
        const std::string version = genVersion();
        const bool simple = chance(10);
        const bool huge = *vp::range<int>(0, 3999) == 0;
        if (huge) target = "/" + std::string(maxTarget() - 1 + static_cast<size_t>(*vp::range<int>(-2, 2)), 'u');
        std::string sp1 = " ", sp2 = " ", eol = "\r\n", lead;
        c.note = "none";
        const int mk = *vp::range<int>(0, 99);
        if (mk < 22) {
            // unmutated grammar sentence
        } else if (mk < 34) {
            static const Strs d = {"  ", "\t", "\v", "\f", "\r", "", " \t", "\t ", "   ", "\r "};
            (chance(50) ? sp1 : sp2) = pick(d);
            c.note = "delimiter";
        } else if (mk < 42) {
            static const Strs e = {"\n", "\r\r\n", "\r", "\n\r", "", "\r\r\r\n", " \r\n", "\r \n"};
            eol = pick(e);
            c.note = "terminator";
        } else if (mk < 47) {
            static const Strs l = {"\r\n", "\n", "\r\n\r\n", "\r", " ", "\n\n", "\r\r\n", "\t"};
            lead = pick(l);
            c.note = "leading";
        }
        std::string line = lead + method + sp1 + target;
        if (!simple) line += sp2 + version;
        else if (c.note == "none") c.note = "simple-request";
        line += eol;
        if (mk >= 47 && !huge) {
            const int kind = *vp::range<int>(0, 9);
            if (kind < 6) {
                if (!line.empty()) { line[*vp::range<size_t>(0, line.size() - 1)] = anyByte(); c.note = "substitute"; }
            } else if (kind < 8) {
                line.insert(line.begin() + static_cast<long>(*vp::range<size_t>(0, line.size())), anyByte());
                c.note = "insert";
            } else if (kind < 9) {
                if (!line.empty()) { line.erase(*vp::range<size_t>(0, line.size() - 1), 1); c.note = "delete"; }
            } else {
                // version tail mutations
                static const Strs tails = {"x", "1", " ", ".1", "0", "/", "\t"};
                if (line.size() >= 2) { line.insert(line.size() - eol.size(), pick(tails)); c.note = "version-tail"; }
            }
            if (chance(12)) { // a second, independent mutation (edit distance 2)
                if (!line.empty()) line[*vp::range<size_t>(0, line.size() - 1)] = anyByte();
                c.note += "+substitute";
            }
        }
        if (huge) c.note = "huge-target";
        c.text = line;
        return c;
    });
}

// ------------------------------------------------------------------ reference recognisers

struct Ref {
    enum Kind { None, Full, Simple } kind = None;
    std::string method, target;
    int major = 0, minor = 0;
};

/// strict RFC 9112 request-line (plus the RFC 1945 simple request, reported separately)
Ref refStrict(const std::string &stream)
{
    Ref r;
    const size_t lf = stream.find('\n');
    if (lf == std::string::npos || lf < 1 || stream[lf - 1] != '\r') return r;
    const std::string b = stream.substr(0, lf - 1);
    const size_t sp1 = b.find(' ');
    if (sp1 == std::string::npos) return r;
    const std::string method = b.substr(0, sp1);
    if (method.empty() || method.size() > kMaxMethod) return r;
    for (unsigned char ch : method) if (!isTchar(ch)) return r;
    const std::string rest = b.substr(sp1 + 1);
    const size_t sp2 = rest.find(' ');
    const std::string target = sp2 == std::string::npos ? rest : rest.substr(0, sp2);
    if (target.empty() || target.size() > maxTarget()) return r;
    for (unsigned char ch : target) if (!isUriChar(ch)) return r;
    if (sp2 == std::string::npos) {
        if (method == "GET") { r.kind = Ref::Simple; r.method = method; r.target = target; r.major = 0; r.minor = 9; }
        return r;
    }
    const std::string version = rest.substr(sp2 + 1);
    if (!isVersion(version)) return r;
    r.kind = Ref::Full;
    r.method = method;
    r.target = target;
    r.major = version[5] - '0';
    r.minor = version[7] - '0';
    return r;
}

bool equalsIgnoreCase(const std::string &a, const std::string &b)
{
    if (a.size() != b.size()) return false;
    for (size_t i = 0; i < a.size(); ++i)
        if (tolower(static_cast<unsigned char>(a[i])) != tolower(static_cast<unsigned char>(b[i]))) return false;
    return true;
}

/// membership of the first line of the stream in the tolerant language; empty = member, else the reason
std::string tolerantMembership(const std::string &stream, size_t &firstLineStart)
{
    size_t g = 0;
    const size_t n = stream.size();
    while (g < n) {
        if (stream[g] == '\n') ++g;
        else if (stream[g] == '\r' && g + 1 < n && stream[g + 1] == '\n') g += 2;
        else break;
    }
    firstLineStart = g;
    const size_t lf = stream.find('\n', g);
    if (lf == std::string::npos) return "no-line-terminator";
    std::string b = stream.substr(g, lf - g);
    while (!b.empty() && b.back() == '\r') b.pop_back();
    size_t i = 0;
    while (i < b.size() && isTchar(b[i])) ++i;
    if (i == 0) return "no-method";
    if (i > kMaxMethod) return "method-longer-than-32";
    const std::string method = b.substr(0, i);
    size_t j = i;
    while (j < b.size() && isRelaxedDelim(b[j])) ++j;
    if (j == i) return "no-separator-after-method";
    std::string rest = b.substr(j);
    for (unsigned char ch : rest) if (!isRelaxedTargetChar(ch)) return "byte-outside-the-tolerated-target-characters";
    // with a version: target 1*( ... ) separators version
    bool withVersion = false;
    if (rest.size() >= 10 && isVersion(rest.substr(rest.size() - 8))) {
        size_t k = rest.size() - 8;
        size_t d = k;
        while (d > 0 && isRelaxedDelim(rest[d - 1])) --d;
        if (d < k) {
            bool visible = false;
            for (size_t p = 0; p < d; ++p) if (!isRelaxedDelim(rest[p])) visible = true;
            if (visible && d <= maxTarget()) withVersion = true;
        }
    }
    if (withVersion) return std::string();
    // without one: RFC 1945 simple request, GET only
    if (!equalsIgnoreCase(method, "GET")) return "no-version-and-method-is-not-GET";
    bool visible = false;
    for (unsigned char ch : rest) if (!isRelaxedDelim(ch)) visible = true;
    if (!visible) return "no-target";
    if (rest.size() > maxTarget()) return "target-longer-than-limit";
    return std::string();
}

// ------------------------------------------------------------------ driving the real parser

struct Out {
    bool accepted = false; // parse() returned true and the version is not the multi-digit marker
    bool parsedOk = false;
    bool needMore = false;
    bool versionMarker = false;
    int status = 0;
    int methodId = 0;
    std::string method, target;
    int proto = 0, major = 0, minor = 0;
};

std::string str(const SBuf &b) { return std::string(b.rawContent(), b.length()); }

Out run(const std::string &stream, int relaxed)
{
    Config.onoff.relaxed_header_parser = relaxed;
    Config.maxRequestHeaderSize = 262144; // large enough for the request-target limit to be reachable
    Config.maxReplyHeaderSize = 65536;
    Out o;
    Http1::RequestParserPointer hp = new Http1::RequestParser;
    SBuf in(stream.data(), stream.size());
    o.parsedOk = hp->parse(in);
    o.needMore = hp->needsMoreData();
    o.status = static_cast<int>(hp->parseStatusCode);
    if (o.parsedOk) {
        o.methodId = static_cast<int>(hp->method().id());
        o.method = str(hp->method().image());
        o.target = str(hp->requestUri());
        const auto &v = hp->messageProtocol();
        o.proto = static_cast<int>(v.protocol);
        o.major = static_cast<int>(v.major);
        o.minor = static_cast<int>(v.minor);
        o.accepted = true;
    }
    return o;
}

/// the text of the version field as it stands at the end of the first line, if it looks like one
std::string trailingVersionText(const std::string &stream, size_t from)
{
    const size_t lf = stream.find('\n', from);
    if (lf == std::string::npos) return std::string();
    std::string b = stream.substr(from, lf - from);
    while (!b.empty() && b.back() == '\r') b.pop_back();
    size_t i = b.size();
    while (i > 0 && (isDigit(b[i - 1]) || b[i - 1] == '.')) --i;
    if (i >= 5 && b.compare(i - 5, 5, "HTTP/") == 0) return b.substr(i - 5);
    return std::string();
}

std::string describe(const Out &o)
{
    if (o.needMore) return "need-more";
    if (!o.parsedOk) return "rejected status=" + std::to_string(o.status);
    return std::string(o.versionMarker ? "accepted-with-unsupported-version-marker" : "accepted") + " method=" + vp::esc(o.method) + " target=" + vp::esc(o.target.substr(0, 80)) +
           " version=" + std::to_string(o.major) + "." + std::to_string(o.minor);
}

/// is the version text one of the major-0 forms "HTTP/0.D" (see the finding about http0())?
bool isMajorZeroVersion(const std::string &v) { return isVersion(v) && v[5] == '0'; }

/// the stream with one SP inserted in front of the HTTP-version that ends its first line (from: line start)
std::string withSpBeforeVersion(const std::string &stream, size_t from)
{
    const size_t lf = stream.find('\n', from);
    if (lf == std::string::npos) return stream;
    size_t e = lf;
    while (e > from && stream[e - 1] == '\r') --e;
    if (e < from + 8) return stream;
    std::string t = stream;
    t.insert(e - 8, " ");
    return t;
}

vp::Verdict check(const Case &c, vp::Ctx &ctx)
{
    const std::string stream = c.text + kTail;
    Out s = run(stream, 0);
    Out r = run(stream, c.warn ? -1 : 1);
    const Ref ref = refStrict(stream);

    // multi-digit versions come back as the 0.0 marker: counted as rejected
    size_t relaxedStart = 0;
    const std::string membership = tolerantMembership(stream, relaxedStart);
    for (Out *o : {&s, &r}) {
        if (!o->parsedOk || o->major != 0 || o->minor != 0) continue;
        const std::string vt = trailingVersionText(stream, o == &s ? 0 : relaxedStart);
        if (vt != "HTTP/0.0") { o->versionMarker = true; o->accepted = false; }
    }

    // ---- labels
    ctx.label("mutation-" + (c.note.empty() ? std::string("unknown") : c.note.substr(0, c.note.find('+'))));
    ctx.label(ref.kind == Ref::Full ? "ref-strict-valid" : ref.kind == Ref::Simple ? "ref-simple-request" : "ref-strict-invalid");
    ctx.label(membership.empty() ? "ref-tolerant-member" : "ref-tolerant-nonmember");
    ctx.label(s.accepted ? "strict-accepts" : "strict-rejects");
    ctx.label(r.accepted ? "relaxed-accepts" : "relaxed-rejects");
    if (r.accepted && !s.accepted) ctx.label("relaxed-only");
    if (s.versionMarker || r.versionMarker) ctx.label("multi-digit-version-marker");
    if (s.needMore) ctx.label("strict-need-more");
    if (c.text.size() > 60000) ctx.label("huge-target");
    if (ref.kind == Ref::Full && ref.method.size() >= 31) ctx.label("method-at-limit");
    if (c.note != "none" && c.note != "simple-request") ctx.nontrivial();

    const std::string vtext = trailingVersionText(stream, 0);

    // ---- strict mode: acceptance <=> grammar, fields = grammar's fields
    if (s.accepted) {
        const bool asSimple = s.major == 0 && s.minor == 9 && ref.kind == Ref::Simple;
        if (!asSimple) {
            if (ref.kind != Ref::Full) {
                if (isMajorZeroVersion(vtext) && s.major == 0 && refStrict(withSpBeforeVersion(stream, 0)).kind == Ref::Full)
                    return vp::fail("c22:strict:accepts-HTTP/0.x-version-without-preceding-SP", "strict: " + describe(s));
                return vp::fail("c22:strict:accepts-line-outside-the-grammar", "strict: " + describe(s));
            }
            if (s.method != ref.method) return vp::fail("c22:strict:method-is-not-the-grammar-field", "strict: " + describe(s));
            if (s.target != ref.target) return vp::fail("c22:strict:target-is-not-the-grammar-field", "strict: " + describe(s));
            if (s.major != ref.major || s.minor != ref.minor) return vp::fail("c22:strict:version-is-not-the-grammar-field", "strict: " + describe(s));
        } else {
            if (s.method != "GET" || s.target != ref.target) {
                // "GET /xHTTP/0.9": the glued HTTP/0.9 was taken for a version field (same root cause as above)
                if (isMajorZeroVersion(vtext) && s.target + vtext == ref.target && refStrict(withSpBeforeVersion(stream, 0)).kind == Ref::Full)
                    return vp::fail("c22:strict:accepts-HTTP/0.x-version-without-preceding-SP", "strict: " + describe(s));
                return vp::fail("c22:strict:simple-request-fields-wrong", "strict: " + describe(s));
            }
        }
    } else if (ref.kind == Ref::Full) {
        if (ref.major == 0)
            return vp::fail("c22:strict:rejects-valid-line-with-HTTP/0.x-version", "strict: " + describe(s));
        return vp::fail("c22:strict:rejects-grammar-valid-line", "strict: " + describe(s));
    }
    if (ref.kind == Ref::Simple && !s.accepted) ctx.excluded("RFC 1945 simple request not accepted in strict mode (allowed either way)");

    // ---- relaxed mode, direction 1: superset of strict with the same fields
    if (ref.kind == Ref::Full && ref.major != 0) {
        if (!r.accepted) return vp::fail("c22:relaxed:rejects-grammar-valid-line", "relaxed: " + describe(r));
        const bool methodOk = r.method == ref.method || (r.methodId != static_cast<int>(Http::METHOD_OTHER) && equalsIgnoreCase(r.method, ref.method));
        if (!methodOk) return vp::fail("c22:relaxed:method-differs-from-strict-field", "relaxed: " + describe(r));
        if (r.target != ref.target) return vp::fail("c22:relaxed:target-differs-from-strict-field", "relaxed: " + describe(r));
        if (r.major != ref.major || r.minor != ref.minor) return vp::fail("c22:relaxed:version-differs-from-strict-field", "relaxed: " + describe(r));
    }
    if (ref.kind == Ref::Full && ref.major == 0) {
        // the strict rejection of these lines is reported above; in relaxed mode they are accepted with the
        // separator glued to the target: fields are asserted only for lines strict mode accepts
        ctx.excluded("HTTP/0.x version: relaxed fields not compared (strict mode rejects the line)");
    }
    // ---- relaxed mode, direction 2: only the documented tolerances
    if (r.accepted && !membership.empty()) {
        const std::string rv = trailingVersionText(stream, relaxedStart);
        size_t ignored = 0;
        if (isMajorZeroVersion(rv) && r.major == 0 && membership == "no-version-and-method-is-not-GET" &&
                tolerantMembership(withSpBeforeVersion(stream, relaxedStart), ignored).empty())
            return vp::fail("c22:relaxed:accepts-HTTP/0.x-version-without-preceding-separator", "relaxed: " + describe(r) + " | " + membership);
        return vp::fail("c22:relaxed:accepts-line-outside-the-tolerant-language:" + membership, "relaxed: " + describe(r));
    }
    return vp::pass();
}

#ifdef VP_FUZZ
Case fuzzDecode(FuzzedDataProvider &fdp)
{
    Case c;
    c.warn = fdp.ConsumeBool();
    c.note = "fuzz";
    c.text = fdp.ConsumeRemainingBytesAsString();
    return c;
}
#else
std::function<Case(FuzzedDataProvider &)> fuzzDecode = nullptr;
#endif

void registerAll()
{
    vp::add<Case>("request_line_grammar", gen(), check, show, parse, 1.0, fuzzDecode);
}

} // namespace

VP_MAIN(registerAll)
