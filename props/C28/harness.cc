// C28 Range canonicalisation preserves the requested byte set.
// Domain : Range field values ("bytes=" lists of a-b / a- / -n over boundary-dense values up to 2^64, OWS, empty
//          members, syntactically invalid members, other units) x representation length 0..INT64_MAX
//          (callers never canonize with an unknown (<0) length: http/Stream.cc checks content_length < 0 first).
// Oracle : RFC 9110 section 14.1.1/14.1.2 grammar + interval-set model written from the statement:
//          invalid member => header ignored entirely; otherwise the canonical specs are non-empty, inside
//          [0,clen) and their union equals the union of (requested /\ [0,clen)); UBSan silent.
// Left open (accepted both ways, counted): OWS directly after "bytes=", a syntactically valid position that does
//          not fit int64 (a server MAY ignore Range), coalescing/ordering of the canonical specs.
// Not generated: CTL bytes other than HTAB (not allowed in a field value).
#include "squid.h"
#include "HttpHeaderRange.h"
#include "SquidString.h"

#include "verif_pbt.h"

#include <climits>

using u128 = unsigned __int128;
using i128 = __int128;

// The unit-test allocator stub hands out 64 KB per pooled object; with ASan's default 256 MB quarantine every case
// then touches fresh pages (0.8 ms/case).  A smaller quarantine keeps the search fast; detection of the errors this
// property is about (overflow, bad arithmetic) is unaffected.  Options given in ASAN_OPTIONS still win.
extern "C" const char *__asan_default_options() { return "quarantine_size_mb=4:malloc_context_size=2"; }

static const char *const SigUb = "ubsan:signed-integer-overflow:HttpHdrRange.cc";

// --- which signatures are registered as open known findings (passed by the runner as --known / VP_KNOWN).
// A *known* undefined-behaviour input class is not executed (it would stop the process and with it the search);
// a replay file carrying force=1 executes it regardless, so the finding stays reproducible.
static const std::set<std::string> &knownSigs()
{
    static std::set<std::string> k;
    static bool init = false;
    if (init) return k;
    init = true;
    if (const char *e = getenv("VP_KNOWN")) k = vp::splitCsv(e);
    std::ifstream f("/proc/self/cmdline", std::ios::binary);
    std::string all((std::istreambuf_iterator<char>(f)), std::istreambuf_iterator<char>());
    std::vector<std::string> args;
    std::string cur;
    for (char ch : all) { if (ch == '\0') { args.push_back(cur); cur.clear(); } else cur += ch; }
    for (size_t i = 0; i + 1 < args.size(); ++i)
        if (args[i] == "--known") for (const auto &s : vp::splitCsv(args[i + 1])) k.insert(s);
    return k;
}

struct Case {
    std::string header;
    long long clen = 0;
    int force = 0; ///< 1 (replay files only): execute even a known-UB input class
};

static std::string show(const Case &c)
{
    return vp::Writer().s("header", c.header).i("clen", c.clen).i("force", c.force).str();
}
static Case parse(const std::string &t)
{
    vp::Reader r(t);
    Case c;
    c.header = r.s("header");
    c.clen = r.i("clen");
    c.force = static_cast<int>(r.i("force"));
    return c;
}

// ------------------------------------------------------------------ reference (RFC 9110)

static bool isDigit(char c) { return c >= '0' && c <= '9'; }

/// 1*DIGIT with saturation at 2^100
static bool refNumber(const std::string &s, size_t &i, u128 &v)
{
    const size_t start = i;
    v = 0;
    while (i < s.size() && isDigit(s[i])) {
        if (v < (static_cast<u128>(1) << 100)) v = v * 10 + (s[i] - '0');
        ++i;
    }
    return i > start;
}

struct Spec {
    enum Kind { Closed, Open, Suffix } kind = Closed;
    u128 a = 0, b = 0; // Closed: a-b; Open: a-; Suffix: -a
};

enum class Member { Valid, LastBeforeFirst, Malformed };

/// parses the longest range-spec prefix of m starting at 0; returns chars consumed (0 = none)
static size_t specPrefix(const std::string &m, Spec &sp)
{
    size_t i = 0;
    if (!m.empty() && m[0] == '-') {
        i = 1;
        if (!refNumber(m, i, sp.a)) return 0;
        sp.kind = Spec::Suffix;
        return i;
    }
    if (!refNumber(m, i, sp.a)) return 0;
    if (i >= m.size() || m[i] != '-') return 0;
    ++i;
    if (refNumber(m, i, sp.b)) sp.kind = Spec::Closed;
    else sp.kind = Spec::Open;
    return i;
}

static Member refMember(const std::string &m, Spec &sp)
{
    const size_t n = specPrefix(m, sp);
    if (!n || n != m.size()) return Member::Malformed;
    if (sp.kind == Spec::Closed && sp.b < sp.a) return Member::LastBeforeFirst;
    return Member::Valid;
}

/// why an invalid member might still be taken by a lenient number parser (classification of findings only):
/// "number-prefix"    the member is a valid spec once blanks and one sign in front of its numbers are removed
///                    (what strtoll() skips),
/// "trailing-garbage" after that removal a number of an otherwise valid spec is followed by more characters
///                    (0-1xyz, -5abc, 1-2-3, 5xyz-10, 0 -0),
/// "other"            neither.
static const char *leniencyClass(const std::string &m)
{
    std::string n;
    bool stripped = false, garbage = false;
    size_t i = 0;
    auto number = [&]() {
        size_t j = i;
        while (j < m.size() && (m[j] == ' ' || m[j] == '\t')) ++j;
        if (j < m.size() && (m[j] == '+' || m[j] == '-')) ++j;
        if (j != i && j < m.size() && isDigit(m[j])) { stripped = true; i = j; }
        while (i < m.size() && isDigit(m[i])) n += m[i++];
    };
    if (!m.empty() && m[0] == '-') {
        n += '-';
        i = 1;
        number();
    } else {
        number();
        if (!n.empty() && i < m.size() && m[i] != '-') { // characters between first-byte-pos and the dash
            const size_t q = m.find('-', i);
            if (q != std::string::npos) { garbage = true; i = q; }
        }
        if (i < m.size() && m[i] == '-') { n += '-'; ++i; number(); }
    }
    n += m.substr(i);
    Spec sp;
    const size_t used = specPrefix(n, sp);
    if (!used) return "other";
    if (used != n.size() || garbage) return "trailing-garbage";
    return stripped ? "number-prefix" : "other"; // "other": only last<first remains
}

struct RefHeader {
    bool unitOk = false;
    bool leadingOws = false;
    bool anyInvalid = false;
    bool lastBeforeFirst = false;
    std::string firstInvalid;
    std::string firstInvalidRest; ///< the field value from the start of that member to its end
    std::vector<Spec> specs;
    bool hugeValue = false; // some position does not fit int64
    bool valid() const { return unitOk && !anyInvalid && !specs.empty(); }
};

static RefHeader refParse(const std::string &h)
{
    RefHeader r;
    if (h.size() < 6) return r;
    const char *unit = "bytes=";
    for (int i = 0; i < 6; ++i)
        if (tolower(static_cast<unsigned char>(h[i])) != unit[i]) return r;
    r.unitOk = true;
    const std::string set = h.substr(6);
    if (!set.empty() && (set[0] == ' ' || set[0] == '\t')) r.leadingOws = true;
    size_t pos = 0;
    while (pos <= set.size()) {
        size_t comma = set.find(',', pos);
        if (comma == std::string::npos) comma = set.size();
        std::string m = set.substr(pos, comma - pos);
        const size_t memberStart = pos;
        pos = comma + 1;
        size_t b = 0, e = m.size();
        while (b < e && (m[b] == ' ' || m[b] == '\t')) ++b;
        while (e > b && (m[e - 1] == ' ' || m[e - 1] == '\t')) --e;
        m = m.substr(b, e - b);
        if (m.empty()) continue; // empty list elements are skipped (RFC 9110 5.6.1.2)
        Spec sp;
        const Member k = refMember(m, sp);
        if (k != Member::Valid) {
            if (!r.anyInvalid) { r.firstInvalid = m; r.firstInvalidRest = set.substr(memberStart + b); }
            r.anyInvalid = true;
            if (k == Member::LastBeforeFirst) r.lastBeforeFirst = true;
            continue;
        }
        const u128 lim = static_cast<u128>(INT64_MAX);
        if (sp.a > lim || (sp.kind == Spec::Closed && sp.b > lim)) r.hugeValue = true;
        r.specs.push_back(sp);
    }
    return r;
}

using Interval = std::pair<u128, u128>; // [first, second)

static std::vector<Interval> normalise(std::vector<Interval> v)
{
    std::sort(v.begin(), v.end());
    std::vector<Interval> o;
    for (const auto &x : v) {
        if (x.first >= x.second) continue;
        if (!o.empty() && x.first <= o.back().second) o.back().second = std::max(o.back().second, x.second);
        else o.push_back(x);
    }
    return o;
}

/// bytes of a representation of length clen selected by one spec (RFC 9110 14.1.2)
static Interval selected(const Spec &s, u128 clen)
{
    switch (s.kind) {
    case Spec::Closed:
        if (s.a >= clen) return {0, 0};
        return {s.a, std::min(s.b + 1, clen)};
    case Spec::Open:
        if (s.a >= clen) return {0, 0};
        return {s.a, clen};
    case Spec::Suffix:
        if (s.a == 0) return {0, 0};
        return {s.a >= clen ? 0 : clen - s.a, clen};
    }
    return {0, 0};
}

// ------------------------------------------------------------------ generator

static std::string dec(u128 v)
{
    if (v == 0) return "0";
    std::string s;
    while (v) { s += static_cast<char>('0' + static_cast<int>(v % 10)); v /= 10; }
    std::reverse(s.begin(), s.end());
    return s;
}

static rc::Gen<u128> valueGen(u128 clen)
{
    using namespace rc;
    return gen::exec([clen]() -> u128 {
        const int kind = *vp::range<int>(0, 11);
        const int d = *vp::range<int>(-3, 3);
        u128 base;
        switch (kind) {
        case 0: base = 0; break;
        case 1: case 2: base = clen; break;
        case 3: base = clen / 2; break;
        case 4: return clen ? static_cast<u128>(*vp::range<uint64_t>(0, UINT64_MAX - 1)) % clen : 0;
        case 5: return *vp::range<uint64_t>(0, 40);
        case 6: base = static_cast<u128>(1) << *gen::element(31, 32, 40, 62, 62, 63, 64); break;
        case 7: return static_cast<u128>(INT64_MAX) - *vp::range<int>(1, 3); // near but below the int64 limit
        case 8: return *vp::range<int>(0, 19) == 0 ? static_cast<u128>(INT64_MAX) : static_cast<u128>(INT64_MAX) - 1;
        case 9: return static_cast<u128>(*vp::range<uint64_t>(0, UINT64_MAX - 1)) >> *gen::element(0, 1, 1, 2, 20);
        case 10: base = (static_cast<u128>(1) << 62); break;
        default: return clen + *vp::range<uint64_t>(0, 1000);
        }
        if (d < 0 && base < static_cast<u128>(-d)) return base;
        return base + d;
    });
}

static rc::Gen<std::string> numText(u128 v)
{
    using namespace rc;
    return gen::map(gen::weightedElement<int>({{12, 0}, {1, 1}, {1, 4}}), [v](int zeros) { return std::string(zeros, '0') + dec(v); });
}

static rc::Gen<std::string> memberGen(u128 clen)
{
    using namespace rc;
    return gen::exec([clen]() -> std::string {
        const int kind = *gen::weightedElement<int>({{40, 0}, {12, 1}, {12, 2}, {2, 3}, {5, 4}, {1, 5}});
        const u128 a = *valueGen(clen), b = *valueGen(clen);
        const u128 lo = std::min(a, b), hi = std::max(a, b);
        switch (kind) {
        case 0: return *numText(lo) + "-" + *numText(hi);
        case 1: return *numText(a) + "-";
        case 2: return "-" + *numText(a);
        case 3: // last < first
            if (lo == hi) return dec(hi + 1) + "-" + dec(lo);
            return dec(hi) + "-" + dec(lo);
        case 4: { // syntactically invalid in assorted ways
            const int w = *vp::range<int>(0, 17);
            const std::string A = dec(lo), B = dec(hi);
            switch (w) {
            case 0: return A;                       // no dash
            case 1: return A + "-" + B + "xyz";     // trailing garbage
            case 2: return "-" + A + "abc";
            case 3: return "+" + A + "-" + B;       // sign
            case 4: return A + "-+" + B;
            case 5: return "-+" + A;
            case 6: return " " + A + "- " + B;      // blanks inside (the outer blank is list OWS)
            case 7: return A + " -" + B;
            case 8: return A + "-" + B + "-" + dec(a);
            case 9: return "-";
            case 10: return "--" + A;
            case 11: return "a-" + B;
            case 12: return A + "-b";
            case 13: return "\"" + A + "-" + B + "\"";
            case 14: return A + "-" + B + "\"";
            case 15: return A + "--0";
            case 16: return "- " + A;
            default: return A + "-" + B + " " + dec(a);
            }
        }
        default: return *vp::bytes(6, "0123456789-- ,+x\t\"=;.");
        }
    });
}

static rc::Gen<Case> gen()
{
    using namespace rc;
    return gen::exec([]() {
        Case c;
        const int lk = *vp::range<int>(0, 9);
        uint64_t len;
        if (lk == 0) len = *vp::range<uint64_t>(0, 3);
        else if (lk <= 4) len = *vp::range<uint64_t>(0, 100);
        else if (lk <= 6) len = *vp::range<uint64_t>(0, 1u << 20);
        else if (lk == 7) len = (1ULL << *gen::element(31, 32, 40, 62)) + *vp::range<int>(-2, 2);
        else if (lk == 8) len = static_cast<uint64_t>(INT64_MAX) - *vp::range<int>(0, 3);
        else len = *vp::range<uint64_t>(0, static_cast<uint64_t>(INT64_MAX));
        c.clen = static_cast<long long>(len);
        const std::string unit = *gen::weightedElement<std::string>({
            {40, "bytes="}, {2, "Bytes="}, {2, "BYTES="}, {1, "bytes= "}, {1, "bytes=\t"},
            {1, "byte="}, {1, "bytes"}, {1, "bytes ="}, {1, "items="}, {1, " bytes="}, {1, "bytes:"}, {1, ""}});
        std::string h = unit;
        const int n = *gen::weightedElement<int>({{6, 1}, {6, 2}, {5, 3}, {3, 4}, {2, 6}, {1, 8}, {1, 0}});
        for (int i = 0; i < n; ++i) {
            if (i) h += *gen::weightedElement<std::string>({{8, ","}, {6, ", "}, {1, " ,"}, {1, " , "}, {1, ",\t"}, {1, ",,"}, {1, ", ,"}});
            else if (*vp::range<int>(0, 24) == 0) h += ",";
            h += *memberGen(len);
        }
        if (*vp::range<int>(0, 24) == 0) h += *gen::element(std::string(","), std::string(" ,"), std::string(", "));
        c.header = h;
        return c;
    });
}

// ------------------------------------------------------------------ property

static vp::Verdict check(const Case &c, vp::Ctx &ctx)
{
    if (c.clen < 0) { ctx.excluded("negative representation length (callers never canonize it)"); return vp::pass(); }
    if (c.header.find('\0') != std::string::npos) { ctx.excluded("NUL in field value"); return vp::pass(); }
    for (unsigned char ch : c.header)
        if ((ch < 0x20 && ch != '\t') || ch == 0x7f) { ctx.excluded("CTL in field value"); return vp::pass(); }

    const RefHeader ref = refParse(c.header);
    const u128 clen = static_cast<u128>(c.clen);

    // model
    std::vector<Interval> want;
    int satisfiable = 0;
    bool overlapOrUnordered = false, bigValue = false;
    if (ref.valid()) {
        u128 prevEnd = 0;
        for (const auto &s : ref.specs) {
            const Interval iv = selected(s, clen);
            if (iv.first < iv.second) {
                if (satisfiable && iv.first < prevEnd) overlapOrUnordered = true;
                prevEnd = std::max(prevEnd, iv.second);
                ++satisfiable;
                want.push_back(iv);
            }
            if (s.a >= (static_cast<u128>(1) << 62) || (s.kind == Spec::Closed && s.b >= (static_cast<u128>(1) << 62))) bigValue = true;
        }
    }
    const auto wantSet = normalise(want);

    ctx.label(ref.valid() ? "valid-header" : "invalid-header");
    if (!ref.unitOk) ctx.label("other-unit");
    if (ref.valid()) {
        if (ref.specs.size() > 1) ctx.label("multi-spec");
        if (overlapOrUnordered) ctx.label("overlap-or-unordered");
        if (bigValue) ctx.label("value>=2^62");
        if (!satisfiable) ctx.label("nothing-satisfiable");
        if (ref.hugeValue) ctx.label("value>int64");
        for (const auto &s : ref.specs) {
            if (s.kind == Spec::Suffix) { ctx.label("has-suffix"); break; }
        }
        for (const auto &s : ref.specs) {
            if (s.kind == Spec::Open) { ctx.label("has-open"); break; }
        }
        if (overlapOrUnordered || bigValue) ctx.nontrivial();
    } else if (ref.unitOk && ref.anyInvalid) {
        ctx.label(ref.specs.empty() ? "invalid-only" : "invalid-mixed-with-valid");
        if (!ref.specs.empty()) ctx.nontrivial();
    }

    // known undefined behaviour: last-byte-pos == INT64_MAX makes parseInit compute last_pos + 1
    if (c.header.find("9223372036854775807") != std::string::npos) {
        ctx.label("ub-class:INT64_MAX-position");
        static const bool execAnyway = getenv("VP_EXEC_KNOWN_UB") != nullptr; // verification of a proposed fix
        if (!c.force && !execAnyway && knownSigs().count(SigUb)) {
            ctx.excluded("position 9223372036854775807 present: known UB class (" + std::string(SigUb) + ") not executed");
            return vp::pass();
        }
    }

    const String value(c.header.c_str());
    HttpHdrRange *range = HttpHdrRange::ParseCreate(&value);

    if (!ref.valid()) {
        if (!range) return vp::pass();
        delete range;
        if (!ref.unitOk) return vp::fail("range:other-unit-accepted", "header " + vp::esc(c.header));
        if (!ref.anyInvalid) return vp::fail("range:empty-set-accepted", "header " + vp::esc(c.header));
        // classification only: a member with a double quote is not split at the following commas by a
        // quoted-string aware list splitter, so the number parser sees the rest of the field value
        std::string cls = leniencyClass(ref.firstInvalid);
        if (cls == "other" && ref.firstInvalid.find('"') != std::string::npos) cls = leniencyClass(ref.firstInvalidRest);
        if (cls == "other" && ref.lastBeforeFirst) cls = "last-before-first";
        return vp::fail("range:invalid-spec-accepted:" + cls,
                        "header " + vp::esc(c.header) + " first invalid member " + vp::esc(ref.firstInvalid));
    }

    if (!range) {
        if (ref.hugeValue) { ctx.excluded("valid header with a position above INT64_MAX ignored (server MAY ignore Range)"); return vp::pass(); }
        if (ref.leadingOws) { ctx.excluded("OWS directly after 'bytes=' and header ignored (left open)"); return vp::pass(); }
        return vp::fail("range:valid-header-ignored", "header " + vp::esc(c.header));
    }

    // helpers used on the same object by the range-handling callers: exercised for the sanitizers only
    (void)range->willBeComplex();
    (void)range->firstOffset();
    (void)range->lowestOffset(c.clen);
    (void)range->offsetLimitExceeded(c.clen / 2);
    {
        HttpHdrRange copy(*range);
        (void)copy.willBeComplex();
    }

    const int rv = range->canonize(static_cast<int64_t>(c.clen));

    std::vector<Interval> got;
    vp::Verdict verdict = vp::pass();
    for (const auto *s : range->specs) {
        const i128 off = s->offset, len = s->length;
        if (len <= 0) { verdict = vp::fail("range:canonical-spec-empty", "offset " + std::to_string(s->offset) + " length " + std::to_string(s->length)); break; }
        if (off < 0 || off + len > static_cast<i128>(c.clen)) {
            verdict = vp::fail("range:canonical-spec-outside-representation", "offset " + std::to_string(s->offset) + " length " + std::to_string(s->length) + " clen " + std::to_string(c.clen));
            break;
        }
        got.push_back({static_cast<u128>(off), static_cast<u128>(off + len)});
    }
    if (verdict.ok) {
        const auto gotSet = normalise(got);
        if (gotSet != wantSet) {
            std::string d = "want";
            for (const auto &x : wantSet) d += " [" + dec(x.first) + "," + dec(x.second) + ")";
            d += " got";
            for (const auto &x : gotSet) d += " [" + dec(x.first) + "," + dec(x.second) + ")";
            // which way is it wrong?
            u128 wantBytes = 0, gotBytes = 0;
            for (const auto &x : wantSet) wantBytes += x.second - x.first;
            for (const auto &x : gotSet) gotBytes += x.second - x.first;
            verdict = vp::fail(gotBytes < wantBytes ? "range:byte-set-lost-bytes" : (gotBytes > wantBytes ? "range:byte-set-extra-bytes" : "range:byte-set-differs"), d);
        } else if ((rv != 0) != !wantSet.empty()) {
            verdict = vp::fail("range:canonize-result-disagrees-with-set", "rv " + std::to_string(rv));
        }
    }
    if (verdict.ok && rv) (void)range->isComplex();
    delete range;
    return verdict;
}

#ifdef VP_FUZZ
static Case fuzzCase(FuzzedDataProvider &fdp)
{
    Case c;
    c.clen = fdp.ConsumeIntegralInRange<long long>(0, LLONG_MAX);
    if (fdp.ConsumeBool()) c.clen &= 0xff;
    c.header = (fdp.ConsumeBool() ? "bytes=" : "") + fdp.ConsumeRemainingBytesAsString();
    return c;
}
#else
static std::function<Case(FuzzedDataProvider &)> fuzzCase = nullptr;
#endif

static void registerAll()
{
    vp::add<Case>("range_canonize", gen(), check, show, parse, 1.0, fuzzCase);
}

VP_MAIN(registerAll)
