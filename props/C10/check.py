"""C10 Cache hits reproduce one complete stored response: model-based histories over versions of URLs across store types."""
import threading
import time

from hypothesis import strategies as st

from vlib.e2e import httpref
from vlib.e2e.cachekit import fetch_url, usable
from vlib.e2e.env import ProxyEnv
from vlib.e2e_runner import Result

# store type -> ProxyEnv keyword arguments.  Small caches so that filler traffic forces eviction/replacement; cache_mem 0 in front of
# the disk stores so that hits really come from disk.
STORES = {
    "memory": dict(cache_mem="4 MB", conf="maximum_object_size_in_memory 512 KB\nacl purge method PURGE\n"),
    "ufs": dict(cache_mem="0 MB", cache_dirs=["ufs {run}/ufs 4 4 4"], conf="acl purge method PURGE\n"),
    "aufs": dict(cache_mem="0 MB", cache_dirs=["aufs {run}/aufs 4 4 4"], conf="acl purge method PURGE\n"),
    "diskd": dict(cache_mem="0 MB", cache_dirs=["diskd {run}/diskd 4 4 4"], conf="acl purge method PURGE\n"),
    "rock": dict(cache_mem="0 MB", cache_dirs=["rock {run}/rock 4 slot-size=4096 max-size=400000"], conf="acl purge method PURGE\n"),
    # memory cache in front of rock: a hit may take its first bytes from memory and continue from disk part-way through the entry
    # (tcp_recv_bufsize keeps the proxy from pushing a whole object into the socket of a reader that stops reading)
    # a small memory cache in front of a larger rock dir: "fill" operations push the memory copies out while the disk copies
    # stay, and a reader that goes away early leaves a memory prefix of a disk entry behind (the next hit is served from
    # memory first and continues on disk in the middle of the entry)
    "rock+mem": dict(cache_mem="1 MB", cache_dirs=["rock {run}/rock 32 slot-size=4096 max-size=400000"],
                     conf="maximum_object_size_in_memory 512 KB\ntcp_recv_bufsize 8192 bytes\nacl purge method PURGE\n"),
    "shm": dict(cache_mem="4 MB", workers=2, conf="memory_cache_shared on\nmaximum_object_size_in_memory 512 KB\nacl purge method PURGE\n"),
}
ORDER = ["memory", "ufs", "aufs", "diskd", "rock", "shm", "rock+mem"]
SIZES = [0, 1, 100, 4000, 4095, 4096, 4097, 8192, 12000, 16384, 16385, 32769, 70000, 200000, 390000]
_worker = [0]


def strategy(tp):
    stores = tp.get("stores") or ORDER
    store = stores[_worker[0] % len(stores)]      # one store type per worker process (the scenario records it, replay honours it)
    size = st.one_of(st.sampled_from(SIZES), st.integers(0, 20000), st.integers(0, 390000))
    nurl = 2
    op = st.one_of(
        st.fixed_dictionaries({"op": st.just("get"), "u": st.integers(0, nurl - 1)}),
        st.fixed_dictionaries({"op": st.just("get"), "u": st.integers(0, nurl - 1)}),
        st.fixed_dictionaries({"op": st.just("refetch"), "u": st.integers(0, nurl - 1)}),
        st.fixed_dictionaries({"op": st.just("concurrent"), "u": st.integers(0, nurl - 1), "readers": st.integers(1, 4),
                               "stagger_ms": st.lists(st.sampled_from([0, 1, 5, 20, 60]), min_size=4, max_size=4),
                               "cuts_permille": st.lists(st.integers(1, 999), min_size=1, max_size=4),
                               "pause_ms": st.sampled_from([5, 20, 50])}),
        st.fixed_dictionaries({"op": st.just("purge"), "u": st.integers(0, nurl - 1)}),
        # a reader that consumes only the first k bytes of the response and goes away
        st.fixed_dictionaries({"op": st.just("partial"), "u": st.integers(0, nurl - 1), "read": st.sampled_from([1, 2000, 9000, 30000, 60000, 130000])}),
        st.fixed_dictionaries({"op": st.just("fill"), "n": st.integers(3, 14), "size": st.sampled_from([30000, 150000, 300000])}),
    )
    if store == "rock+mem":
        # this store's own hazard is the hand-over between a memory prefix and the disk remainder of one entry: more
        # early-leaving readers, and fillers large enough to empty the 1 MB memory cache
        g = st.fixed_dictionaries({"op": st.just("get"), "u": st.integers(0, nurl - 1)})
        pr = st.fixed_dictionaries({"op": st.just("partial"), "u": st.integers(0, nurl - 1), "read": st.sampled_from([1, 2000, 9000, 30000, 60000, 130000])})
        fl = st.fixed_dictionaries({"op": st.just("fill"), "n": st.integers(4, 8), "size": st.sampled_from([300000, 150000, 300000])})
        # the whole hand-over as one step: (hit or miss), memory emptied, early-leaving reader, full reader
        ho = st.fixed_dictionaries({"op": st.just("handover"), "u": st.integers(0, nurl - 1), "n": st.integers(4, 6), "size": st.just(300000),
                                    "read": st.sampled_from([1, 2000, 9000, 30000, 60000, 130000])})
        op = st.one_of(ho, g, pr, fl, ho, op)
        size = st.one_of(st.sampled_from([32769, 70000, 200000, 390000, 16385, 50000, 100000]), size)
    return st.fixed_dictionaries({
        "store": st.just(store),
        "sizes": st.lists(st.lists(size, min_size=1, max_size=4), min_size=nurl, max_size=nurl),
        "ops": st.lists(op, min_size=3, max_size=12),
    })


class Envs:
    """one proxy per store type, started on demand (normally exactly one per worker process)"""

    def __init__(self, ctx):
        self.ctx = ctx
        self.envs = {}

    def get(self, store):
        if store not in self.envs:
            kw = dict(STORES[store])
            conf = kw.pop("conf", "")
            self.envs[store] = ProxyEnv(self.ctx, conf=conf, **kw)
        return self.envs[store]

    def close(self):
        for e in self.envs.values():
            try:
                e.close()
            except Exception:
                pass


def setup(ctx):
    _worker[0] = ctx.worker
    return Envs(ctx)


def teardown(envs):
    envs.close()


def _headers(path, v):
    tag = "%s-v%d" % (path, v)
    return [["Cache-Control", "max-age=86400"], ["ETag", '"%s"' % tag], ["X-Version", str(v)], ["X-Tag-A", "A-" + tag],
            ["X-Pad", "p" * ((v * 37) % 300) + "-" + tag], ["X-Tag-B", "B-" + tag]]


def execute(envs, sc):
    r = Result()
    env = envs.get(sc["store"])
    ns = env.ns()
    paths = ["/%s/u%d" % (ns, i) for i in range(len(sc["sizes"]))]
    slow = {}

    def size_of(u, v):
        s = sc["sizes"][u]
        return s[(v - 1) % len(s)]

    def make_beh(u):
        path = paths[u]

        def beh(arr):
            v = arr.index + 1
            n = size_of(u, v)
            b = {"status": 200, "headers": _headers(path, v), "body_tag": "%s#%d" % (path, v), "body_len": n}
            pat = slow.pop(path, None)
            if pat and n > 0:
                cuts = sorted(set(max(1, (n * c) // 1000) for c in pat["cuts"]))
                segs, last = [], 0
                for c in cuts:
                    if c > last:
                        segs.append(c - last)
                        last = c
                # first segment also carries the head: the origin counts bytes of head+body, so give the head its own write
                b["segments"] = [300] + segs
                b["pause_ms"] = [pat["pause"]] * (len(segs) + 1)
            return b
        return beh

    for u in range(len(paths)):
        env.origin.script(paths[u], make_beh(u))
    fill_no = [0]
    r.label("store:" + sc["store"])
    r.sub_evaluations = 0
    lock = threading.Lock()

    def judge(u, m, what):
        """every complete response is exactly one version the origin has sent; a truncated one is a prefix of one version"""
        path = paths[u]
        if m.status != 200 or m.has("x-squid-error"):
            with lock:
                r.label("status-%s" % m.status)
            return None
        sent = env.origin.arrival_count(path)
        try:
            v = int(m.get("x-version", b"0"))
        except ValueError:
            v = 0
        with lock:
            r.sub_evaluations += 1
            if not (1 <= v <= sent):
                r.fail("response-of-no-origin-version", "%s: X-Version %r, origin has sent %d version(s)" % (what, m.get("x-version"), sent))
                return None
            want = httpref.keyed_stream("%s#%d" % (path, v), size_of(u, v))
            if m.complete:
                if m.body != want:
                    kind = "short-body-framed-as-complete" if want.startswith(m.body) else ("long-body" if m.body.startswith(want) else "body-differs")
                    r.fail("complete-response-body-is-not-the-version-its-headers-name:" + kind,
                           "%s: headers of version %d (%d bytes), body %d bytes, first difference at offset %d" % (
                               what, v, len(want), len(m.body), next((i for i in range(min(len(want), len(m.body))) if want[i] != m.body[i]), min(len(want), len(m.body)))))
                    return None
            else:
                r.label("truncated-delivery")
                if not want.startswith(m.body):
                    r.fail("truncated-response-is-not-a-prefix-of-its-version", "%s: version %d, %d bytes received" % (what, v, len(m.body)))
                    return None
            for name, val in _headers(path, v):
                if name in ("Cache-Control",):
                    continue
                got = m.get_all(name)
                if [g.decode("latin-1") for g in got] != [val]:
                    r.fail("header-of-another-version-or-missing:" + name.lower(), "%s: body/X-Version of version %d, %s = %r, origin sent %r" % (what, v, name, got, val))
                    return None
        return v

    ops = []
    for op in sc["ops"]:
        if op["op"] == "handover":
            ops += [{"op": "get", "u": op["u"]}, {"op": "fill", "n": op["n"], "size": op["size"]},
                    {"op": "partial", "u": op["u"], "read": op["read"]}, {"op": "get", "u": op["u"]}]
            r.label("op:handover")
        else:
            ops.append(op)
    for i, op in enumerate(ops):
        kind = op["op"]
        if kind == "fill":
            for _ in range(op["n"]):
                fill_no[0] += 1
                p = "/%s/fill%d" % (ns, fill_no[0])
                env.origin.script(p, {"status": 200, "headers": [["Cache-Control", "max-age=86400"]], "body_tag": p, "body_len": op["size"]})
                m = fetch_url(env, env.url(p))
                if not usable(m, r):
                    break
                if m.status == 200 and m.complete and m.body != httpref.keyed_stream(p, op["size"]):
                    r.fail("filler-object-corrupted", "op %d: filler %s (%d bytes) delivered with a different body" % (i, p, op["size"]))
            r.label("op:fill")
            if r.inconclusive:
                break
            continue
        u = op["u"]
        path, url = paths[u], env.url(paths[u])
        if kind == "partial":
            from vlib.e2e import client as _client
            try:
                pc = _client.Conn(env.port, timeout=10, rcvbuf=4096)
                pc.send(("GET %s HTTP/1.1\r\nHost: x\r\nConnection: close\r\n\r\n" % url).encode())
                dl = time.time() + 8
                while len(pc.rbuf) < op["read"] and not pc.eof and time.time() < dl:
                    pc._fill(dl)
                time.sleep(0.05)
                pc.close()
            except OSError:
                pass
            r.label("op:partial")
            continue
        if kind == "purge":
            m = fetch_url(env, url, method="PURGE")
            if not usable(m, r):
                break
            r.label("op:purge:%s" % m.status)
            continue
        if kind in ("get", "refetch"):
            before = env.origin.arrival_count(path)
            m = fetch_url(env, url, [("Cache-Control", "no-cache")] if kind == "refetch" else [])
            if not usable(m, r):
                break
            v = judge(u, m, "op %d %s %s (%s)" % (i, kind, path, sc["store"]))
            arrived = env.origin.arrival_count(path) > before
            r.label("op:%s:%s" % (kind, "miss" if arrived else "hit"))
            if v is not None and not arrived and m.complete:
                if size_of(u, v) > 4096 and before >= 2:
                    r.nontrivial = True
                    r.label("hit-multi-slot-after-replacement")
                    r.label("hit-multi-slot-after-replacement:" + sc["store"])
                elif size_of(u, v) > 4096:
                    r.label("hit-multi-slot")
            continue
        if kind == "concurrent":
            slow[path] = {"cuts": op["cuts_permille"], "pause": op["pause_ms"]}
            results = []

            def reader(delay_ms, hdrs, who):
                if delay_ms:
                    time.sleep(delay_ms / 1000.0)
                try:
                    mm = fetch_url(env, url, hdrs)
                except Exception as e:     # connection refused etc.: not a verdict
                    mm = None
                results.append((who, mm))

            ts = [threading.Thread(target=reader, args=(0, [("Cache-Control", "no-cache")], "writer"))]
            for k in range(op["readers"]):
                ts.append(threading.Thread(target=reader, args=(op["stagger_ms"][k], [], "reader%d" % k)))
            for t in ts:
                t.start()
            for t in ts:
                t.join()
            slow.pop(path, None)
            bad = False
            for who, mm in results:
                if mm is None or not usable(mm, r):
                    bad = True
                    continue
                judge(u, mm, "op %d concurrent %s %s (%s)" % (i, who, path, sc["store"]))
            r.label("op:concurrent")
            if bad:
                break
    r.sub_evaluations = max(1, r.sub_evaluations)
    env.health(r)
    return r
