// C25 Header blocks are parsed into exactly their fields.
// Domain : request and reply header blocks of 0..30 field lines: token and registered names in random case,
//          values with OWS, obs-fold, bare CR, NUL, VT/FF, high bytes, empty values, duplicates, framing
//          fields, whitespace before the colon, CRLF / LF / CR CR LF line ends, lines without colon,
//          whitespace-preceded first lines, CR-only lines; strict and relaxed parsing.
// Driving: the real pipeline of client_side.cc / http.cc: Http1::RequestParser or ResponseParser parses
//          start line + block (and unfolds), then HttpHeader::parse(hp.mimeHeader().c_str(),
//          hp.headerBlockSize(), interpreter) exactly as Http::Message::parseHeader() does.
// Oracle : a reference field splitter written from RFC 9112 section 5 (line = up to LF minus one CR; a line
//          starting with SP/HTAB continues the previous field; split at the first colon; OWS trimmed; every
//          obs-fold becomes one or more SP): when Squid accepts, its entry list (names case-insensitively,
//          values, order; Content-Length left to C26) equals the reference list and pack -> reparse returns
//          the same entries; blocks with NUL, whitespace before the colon (requests), obs-fold or bare CR in
//          Content-Length/Transfer-Encoding, a CR-only line (requests) or a line that is no field are rejected.
#include "squid.h"
#include "http/ContentLengthInterpreter.h"
#include "http/one/RequestParser.h"
#include "http/one/ResponseParser.h"
#include "HttpHeader.h"
#include "MemBuf.h"
#include "sbuf/SBuf.h"
#include "SquidConfig.h"

#include "verif_pbt.h"

// ------------------------------------------------------------------ reference field splitter

static bool isTchar(unsigned char c)
{
    if ((c >= '0' && c <= '9') || (c >= 'a' && c <= 'z') || (c >= 'A' && c <= 'Z')) return true;
    return c && strchr("!#$%&'*+-.^_`|~", c) != nullptr;
}
static bool isWsp(unsigned char c) { return c == ' ' || c == '\t'; }
static bool isSpaceLike(unsigned char c) { return c == ' ' || (c >= '\t' && c <= '\r'); } // isspace()

static std::string trimChars(const std::string &s, const char *set)
{
    size_t a = 0, b = s.size();
    while (a < b && s[a] && strchr(set, s[a])) ++a;
    while (b > a && s[b - 1] && strchr(set, s[b - 1])) --b;
    return s.substr(a, b - a);
}

static std::string lower(std::string s)
{
    for (auto &ch : s) ch = static_cast<char>(tolower(static_cast<unsigned char>(ch)));
    return s;
}

struct RefField {
    std::string name;                  ///< as written (replies: without whitespace before the colon)
    std::vector<std::string> segments; ///< first-line value text and the continuation lines, bare CR -> SP
    bool folded = false, bareCr = false, wsBeforeColon = false;
    bool framing() const { const std::string n = lower(name); return n == "content-length" || n == "transfer-encoding"; }
};

struct RefBlock {
    bool terminated = false;
    size_t blockLen = 0;               ///< bytes up to and including the empty line
    std::vector<RefField> fields;
    // reasons why the block must not be accepted (the first one names the signature)
    std::vector<std::string> mustReject;
    // things the statement leaves open
    bool droppedLeadingLines = false;  ///< whitespace-preceded lines before the first field (RFC 9112 2.2: ignore or reject)
    bool nulOnlyInDroppedLines = false;
    bool crOnlyLineOnlyInDroppedLines = false;
    bool crOnlyLineFoldedAway = false;
    bool crOnlyLinesAllBeforeContinuation = false; ///< the only non-field lines are CR-only lines followed by a continuation line ///< every CR-only line sits among those whitespace-preceded first lines
    bool anyFold = false, anyBareCr = false, anyLfOnly = false, anyDuplicate = false, anyWsBeforeColon = false, anyEmptyValue = false, anyEdgeVtFf = false;
};

/// \param foldOverCrOnlyLines read "CR-only line + continuation line" the way Http1::Parser::unfoldMime() does (as
///        part of one obs-fold); only used to attribute an acceptance to that known defect class
static RefBlock refParse(const std::string &raw, const bool request, const bool foldOverCrOnlyLines = false)
{
    RefBlock b;
    std::vector<std::string> lines;
    size_t pos = 0;
    for (;;) {
        const size_t lf = raw.find('\n', pos);
        if (lf == std::string::npos) return b; // no empty line: not a complete block
        const std::string line = raw.substr(pos, lf - pos);
        pos = lf + 1;
        if (line.empty() || line == "\r") { b.terminated = true; b.blockLen = pos; break; }
        if (line.back() != '\r') b.anyLfOnly = true;
        lines.push_back(line);
    }

    bool nulInKept = false, nulInDropped = false;
    bool crOnlyLine = false, notAField = false, wsBeforeColonInRequest = false, framingFolded = false, framingBareCr = false;
    struct Logical { std::vector<std::string> segs; bool bareCr = false, folded = false, crOnly = false; };
    std::vector<Logical> logical;
    bool sawField = false;
    bool crOnlyInDropped = false, crOnlyInKept = false, crOnlyStandalone = false, notAFieldOther = false;
    for (size_t li = 0; li < lines.size(); ++li) {
        const std::string &line = lines[li];
        std::string content = line;
        if (!content.empty() && content.back() == '\r') content.pop_back();
        const bool hasNul = content.find('\0') != std::string::npos;
        bool onlyCr = !content.empty();
        for (const char ch : content) if (ch != '\r') onlyCr = false;
        if (foldOverCrOnlyLines && onlyCr && sawField && li + 1 < lines.size() && !lines[li + 1].empty() && isWsp(static_cast<unsigned char>(lines[li + 1][0]))) {
            b.crOnlyLineFoldedAway = true;
            continue;
        }
        if (onlyCr) crOnlyLine = true;
        if (onlyCr && sawField) crOnlyInKept = true;

        if (!sawField && !content.empty() && (isWsp(content[0]) || content[0] == '\v' || content[0] == '\f' || content[0] == '\r')) {
            // "whitespace-preceded line" between start line and first field: a recipient may ignore it
            b.droppedLeadingLines = true;
            if (hasNul) nulInDropped = true;
            if (onlyCr) crOnlyInDropped = true;
            continue;
        }
        if (hasNul) nulInKept = true;
        const bool bareCr = content.find('\r') != std::string::npos;
        std::string text = content;
        for (auto &ch : text) if (ch == '\r') ch = ' ';
        if (bareCr) b.anyBareCr = true;

        if (!content.empty() && isWsp(content[0])) {
            // obs-fold continuation (sawField is true here)
            Logical &l = logical.back();
            l.folded = true;
            if (bareCr) l.bareCr = true;
            l.segs.push_back(text);
            b.anyFold = true;
            continue;
        }
        sawField = true;
        Logical l;
        l.bareCr = bareCr;
        l.crOnly = onlyCr;
        l.segs.push_back(text);
        logical.push_back(l);
    }

    // a field is its first line plus its continuation lines; the name ends at the first colon of the whole
    for (const auto &l : logical) {
        RefField f;
        f.folded = l.folded;
        f.bareCr = l.bareCr;
        std::string name;
        size_t k = 0;
        bool found = false;
        for (; k < l.segs.size(); ++k) {
            const size_t colon = l.segs[k].find(':');
            if (colon != std::string::npos) {
                name += l.segs[k].substr(0, colon);
                f.segments.push_back(l.segs[k].substr(colon + 1));
                found = true;
                break;
            }
            name += l.segs[k];
            name += ' '; // the obs-fold
        }
        if (l.crOnly && !l.folded) crOnlyStandalone = true;
        if (l.crOnly && l.folded) {
            // a CR-only line with continuation lines behind it: not a field, whatever the continuation holds
            notAField = true;
            f.name = "?";
            b.fields.push_back(f);
            continue;
        }
        if ((!found || name.empty()) && !(l.crOnly && l.folded)) notAFieldOther = true;
        if (!found || name.empty()) {
            notAField = true;
            f.name = "?";
            b.fields.push_back(f);
            continue;
        }
        for (++k; k < l.segs.size(); ++k) f.segments.push_back(l.segs[k]);
        if (isSpaceLike(static_cast<unsigned char>(name.back()))) {
            f.wsBeforeColon = true;
            b.anyWsBeforeColon = true;
            if (request) wsBeforeColonInRequest = true;
            while (!name.empty() && isSpaceLike(static_cast<unsigned char>(name.back()))) name.pop_back();
        }
        bool token = !name.empty();
        for (const unsigned char ch : name) if (!isTchar(ch)) token = false;
        if (!token) { notAField = true; notAFieldOther = true; }
        f.name = name;
        b.fields.push_back(f);
    }
    for (const auto &f : b.fields) {
        if (f.framing() && f.folded) framingFolded = true;
        if (f.framing() && f.bareCr) framingBareCr = true;
    }
    for (size_t i = 0; i < b.fields.size(); ++i)
        for (size_t j = 0; j < i; ++j)
            if (lower(b.fields[i].name) == lower(b.fields[j].name)) b.anyDuplicate = true;

    if (nulInKept) b.mustReject.push_back("nul-byte");
    if (wsBeforeColonInRequest) b.mustReject.push_back("whitespace-before-colon-in-request");
    if (framingFolded) b.mustReject.push_back("obs-fold-in-framing-field");
    if (framingBareCr) b.mustReject.push_back("bare-cr-in-framing-field");
    if (request && crOnlyLine) b.mustReject.push_back("cr-only-line-in-request");
    if (notAField) b.mustReject.push_back("line-is-not-a-field");
    b.nulOnlyInDroppedLines = nulInDropped && !nulInKept;
    b.crOnlyLineOnlyInDroppedLines = crOnlyInDropped && !crOnlyInKept;
    b.crOnlyLinesAllBeforeContinuation = crOnlyInKept && !crOnlyInDropped && !crOnlyStandalone && !notAFieldOther;
    return b;
}

static std::string ltrimChars(const std::string &s, const char *set)
{
    size_t a = 0;
    while (a < s.size() && s[a] && strchr(set, s[a])) ++a;
    return s.substr(a);
}
static std::string rtrimChars(const std::string &s, const char *set)
{
    size_t b = s.size();
    while (b > 0 && s[b - 1] && strchr(set, s[b - 1])) --b;
    return s.substr(0, b);
}

/// whether `got` is the field value the segments stand for: OWS trimmed, each obs-fold replaced by 1+ SP/HTAB.
/// \param edge the characters trimmed at the two ends of the whole value
static bool valueMatches(const std::vector<std::string> &segments, const std::string &got, const char *edge)
{
    std::vector<std::string> segs;
    for (const auto &s : segments) {
        const std::string t = trimChars(s, " \t");
        if (!t.empty()) segs.push_back(t);
    }
    while (!segs.empty() && ltrimChars(segs.front(), edge).empty()) segs.erase(segs.begin());
    while (!segs.empty() && rtrimChars(segs.back(), edge).empty()) segs.pop_back();
    if (segs.empty()) return got.empty();
    segs.front() = ltrimChars(segs.front(), edge);
    segs.back() = rtrimChars(segs.back(), edge);
    size_t pos = 0;
    for (size_t k = 0; k < segs.size(); ++k) {
        if (k > 0) {
            size_t n = 0;
            while (pos < got.size() && isWsp(static_cast<unsigned char>(got[pos]))) { ++pos; ++n; }
            if (!n) return false;
        }
        if (got.compare(pos, segs[k].size(), segs[k]) != 0) return false;
        pos += segs[k].size();
    }
    return pos == got.size();
}

// ------------------------------------------------------------------ case

struct Case {
    int relaxed = 0;
    int request = 1;
    std::string block; ///< the bytes after the start line (normally ending with an empty line)
};

static std::string show(const Case &c) { return vp::Writer().i("relaxed", c.relaxed).i("request", c.request).s("block", c.block).str(); }
static Case parse(const std::string &t)
{
    vp::Reader r(t);
    Case c;
    c.relaxed = r.i("relaxed"); c.request = r.i("request"); c.block = r.s("block");
    return c;
}

struct Entry { int id; std::string name, value; };

static std::vector<Entry> entriesOf(const HttpHeader &h)
{
    std::vector<Entry> v;
    HttpHeaderPos pos = HttpHeaderInitPos;
    while (const HttpHeaderEntry *e = h.getEntry(&pos))
        v.push_back(Entry{static_cast<int>(e->id), std::string(e->name.rawContent(), e->name.length()), std::string(e->value.rawBuf() ? e->value.rawBuf() : "", e->value.size())});
    return v;
}

static vp::Verdict check(const Case &c, vp::Ctx &ctx)
{
    Config.onoff.relaxed_header_parser = c.relaxed;
    Config.maxRequestHeaderSize = 64 * 1024;
    Config.maxReplyHeaderSize = 64 * 1024;

    const bool request = c.request != 0;
    const RefBlock ref = refParse(c.block, request);
    const std::string startLine = request ? "GET / HTTP/1.1\r\n" : "HTTP/1.1 200 OK\r\n";
    const std::string msg = startLine + c.block;

    ctx.label(request ? "owner:request" : "owner:reply");
    ctx.label(c.relaxed ? "relaxed" : "strict");
    if (ref.anyFold) ctx.label("obs-fold");
    if (ref.anyBareCr) ctx.label("bare-cr");
    if (ref.anyLfOnly) ctx.label("lf-only-line-end");
    if (ref.anyDuplicate) ctx.label("duplicate-names");
    if (ref.anyWsBeforeColon) ctx.label("whitespace-before-colon");
    if (ref.droppedLeadingLines) ctx.label("whitespace-preceded-first-line");
    for (const auto &m : ref.mustReject) ctx.label("must-reject:" + m);
    if (ref.mustReject.empty() && ref.terminated) ctx.label("ref:well-formed");
    if (!ref.terminated) ctx.label("ref:unterminated");

    // --- the pipeline
    bool hpOk = false;
    SBuf mime;
    size_t consumed = 0;
    const SBuf in(msg.data(), msg.size());
    if (request) {
        Http1::RequestParser hp;
        hpOk = hp.parse(in);
        mime = hp.mimeHeader();
        consumed = msg.size() - hp.remaining().length();
    } else {
        Http1::ResponseParser hp;
        hpOk = hp.parse(in);
        mime = hp.mimeHeader();
        consumed = msg.size() - hp.remaining().length();
    }
    HttpHeader hdr(request ? hoRequest : hoReply);
    bool accepted = false;
    if (hpOk) {
        Http::ContentLengthInterpreter clen;
        if (!request) clen.applyStatusCodeRules(Http::scOkay);
        // Http::Message::parseHeader(): "zero header fields" needs no parsing
        accepted = !mime.length() || hdr.parse(mime.c_str(), mime.length(), clen) != 0;
    }
    const bool flaggedFraming = accepted && (hdr.conflictingContentLength() || hdr.unsupportedTe());
    ctx.label(!hpOk ? "squid:http1-parser-refused" : !accepted ? "squid:header-parse-failed" : flaggedFraming ? "squid:accepted-but-framing-flagged" : "squid:accepted");

    if (!ref.terminated) {
        if (hpOk) return vp::fail("accepted-block-without-empty-line");
        ctx.excluded("unterminated block");
        return vp::pass();
    }

    if (!accepted) {
        if (!hdr.entries.empty() && hpOk) return vp::fail("failed-parse-leaves-entries-behind");
        return vp::pass(); // the statement speaks about accepted blocks
    }

    // --- accepted: nothing that must be rejected may be in it
    if (!ref.mustReject.empty()) {
        const std::string &why = ref.mustReject.front();
        const bool framingReason = why == "obs-fold-in-framing-field" || why == "bare-cr-in-framing-field";
        if (framingReason && flaggedFraming) {
            ctx.label("framing-anomaly-flagged-for-the-caller");
            return vp::pass(); // callers refuse messages flagged conflictingContentLength()/unsupportedTe()
        }
        if (why == "cr-only-line-in-request" && ref.crOnlyLineOnlyInDroppedLines) {
            // was it the whitespace-preceded-line rule that swallowed the CR-only line?
            return vp::fail("accepted:cr-only-line-in-request:as-first-line", "block " + vp::esc(c.block.substr(0, 80)));
        }
        const RefBlock squidView = refParse(c.block, request, true);
        if (squidView.crOnlyLineFoldedAway && squidView.mustReject.empty())
            return vp::fail("accepted:cr-only-line:unfolded-into-the-following-continuation-line", "block " + vp::esc(c.block.substr(0, 80)));
        return vp::fail("accepted:" + why, "block " + vp::esc(c.block.substr(0, 120)));
    }
    if (ref.nulOnlyInDroppedLines) ctx.excluded("NUL only inside an ignored whitespace-preceded first line");
    if (ref.droppedLeadingLines) ctx.excluded("whitespace-preceded first line(s): ignoring them is allowed");

    if (consumed != startLine.size() + ref.blockLen)
        return vp::fail("consumed-length-differs-from-block-length", "consumed " + std::to_string(consumed) + " want " + std::to_string(startLine.size() + ref.blockLen));

    // --- the stored fields are the block's fields (Content-Length is judged by C26)
    const std::vector<Entry> got = entriesOf(hdr);
    std::vector<const Entry *> gotCmp;
    for (const auto &e : got) if (lower(e.name) != "content-length") gotCmp.push_back(&e);
    std::vector<const RefField *> want;
    for (const auto &f : ref.fields)
        if (lower(f.name) != "content-length") want.push_back(&f);
    if (gotCmp.size() != want.size())
        return vp::fail(gotCmp.size() < want.size() ? "stored-fewer-fields-than-the-block-has" : "stored-more-fields-than-the-block-has", std::to_string(gotCmp.size()) + " vs " + std::to_string(want.size()));
    bool edgeOpen = false;
    for (size_t k = 0; k < want.size(); ++k) {
        const Entry &e = *gotCmp[k];
        const RefField &f = *want[k];
        if (lower(e.name) != lower(f.name)) return vp::fail("field-name-differs", "#" + std::to_string(k) + " got " + vp::esc(e.name) + " want " + vp::esc(f.name));
        if (valueMatches(f.segments, e.value, " \t")) continue;
        if (valueMatches(f.segments, e.value, " \t\v\f")) { edgeOpen = true; continue; } // VT/FF at the edge of a value: whitespace or data
        std::string all;
        for (const auto &s : f.segments) { all += "["; all += vp::esc(s); all += "]"; }
        // classify the commonest ways to get it wrong
        const std::string flat = f.segments.size() == 1 ? f.segments[0] : std::string();
        if (f.segments.size() == 1 && e.value != trimChars(flat, " \t") && trimChars(e.value, " \t") == trimChars(flat, " \t")) return vp::fail("field-value-not-trimmed", "got [" + vp::esc(e.value) + "] from " + all);
        if (e.value.find('\n') != std::string::npos || e.value.find('\r') != std::string::npos) return vp::fail("field-value-contains-line-break", "got [" + vp::esc(e.value) + "] from " + all);
        return vp::fail("field-value-differs", "#" + std::to_string(k) + " " + vp::esc(e.name) + " got [" + vp::esc(e.value) + "] from " + all);
    }
    if (edgeOpen) { ctx.label("vt-ff-at-value-edge"); ctx.excluded("VT/FF at the edge of a field value trimmed as whitespace"); }

    // --- pack -> reparse gives the same entries
    MemBuf mb;
    mb.init();
    hdr.packInto(&mb);
    std::vector<char> packed(mb.content(), mb.content() + mb.contentSize());
    packed.push_back('\0');
    HttpHeader again(request ? hoRequest : hoReply);
    Http::ContentLengthInterpreter clen2;
    if (!request) clen2.applyStatusCodeRules(Http::scOkay);
    if (!again.parse(packed.data(), packed.size() - 1, clen2)) {
        if (hdr.conflictingContentLength()) return vp::pass();
        return vp::fail("packed-fields-do-not-reparse", vp::esc(std::string(packed.data(), packed.size() - 1)).substr(0, 200));
    }
    const std::vector<Entry> got2 = entriesOf(again);
    if (got2.size() != got.size()) return vp::fail("reparse-changes-the-number-of-fields", std::to_string(got.size()) + " -> " + std::to_string(got2.size()));
    for (size_t k = 0; k < got.size(); ++k) {
        if (got[k].id != got2[k].id || got[k].name != got2[k].name) return vp::fail("reparse-changes-a-field-name", vp::esc(got[k].name) + " -> " + vp::esc(got2[k].name));
        if (got[k].value != got2[k].value) return vp::fail("reparse-changes-a-field-value", "[" + vp::esc(got[k].value) + "] -> [" + vp::esc(got2[k].value) + "]");
    }

    const bool anomaly = ref.anyFold || ref.anyDuplicate || ref.anyBareCr || ref.anyWsBeforeColon || ref.anyLfOnly;
    if (anomaly && !want.empty()) { ctx.label("nontrivial:accepted-with-fold-duplicate-or-whitespace-anomaly"); ctx.nontrivial(); }
    if (!want.empty()) ctx.label("accepted-and-compared");
    return vp::pass();
}

// ------------------------------------------------------------------ generators

namespace {

const std::vector<std::string> KnownNames = {"Host", "Content-Length", "Transfer-Encoding", "Content-Type", "Connection", "Cache-Control", "Accept", "Via", "Date", "Cookie", "Set-Cookie", "X-Forwarded-For", "TE", "Expect", "Content-Encoding", "Server"};

std::string genName()
{
    const int kind = *vp::range<int>(0, 9);
    std::string n;
    if (kind < 5) n = *rc::gen::elementOf(KnownNames);
    else if (kind < 9) n = *rc::gen::container<std::string>(static_cast<size_t>(*vp::range<int>(1, 8)), rc::gen::elementOf(std::string("abcxyzXYZ019-_.!#$%&'*+^`|~")));
    else n = *rc::gen::element(std::string("Content-Length"), std::string("Transfer-Encoding"));
    const int how = *vp::range<int>(0, 3);
    if (how == 1) n = lower(n);
    else if (how == 2) for (auto &ch : n) ch = static_cast<char>(toupper(static_cast<unsigned char>(ch)));
    return n;
}

std::string genOws()
{
    return *rc::gen::weightedElement<std::string>({{30, " "}, {20, ""}, {6, "\t"}, {6, "  "}, {3, " \t "}, {1, "\v"}, {1, "\f"}});
}

std::string genText(const bool dirty)
{
    static const std::string clean = "abcdefXYZ0123456789 ,;=/\"()<>@[]{}?:\\\t\x80\xfe";
    const int n = *rc::gen::weightedElement<int>({{2, 0}, {3, 1}, {6, *vp::range<int>(2, 12)}, {1, *vp::range<int>(13, 60)}});
    std::string s = *rc::gen::container<std::string>(static_cast<size_t>(n), rc::gen::elementOf(clean));
    if (dirty && !s.empty()) {
        const size_t at = static_cast<size_t>(*vp::range<int>(0, static_cast<int>(s.size()) - 1));
        s[at] = *rc::gen::elementOf(std::string("\r\r\v\f\x7f\x01") + std::string(1, '\0'));
    }
    return s;
}

std::string genLineEnd()
{
    return *rc::gen::weightedElement<std::string>({{40, "\r\n"}, {4, "\n"}, {1, "\r\r\n"}});
}

std::string genFramingValue(const std::string &lname)
{
    if (lname == "content-length") return *rc::gen::weightedElement<std::string>({{8, "5"}, {2, "0"}, {1, "17"}, {1, "5, 5"}, {1, "abc"}});
    return *rc::gen::weightedElement<std::string>({{8, "chunked"}, {1, "Chunked"}, {1, "gzip, chunked"}, {1, "identity"}});
}

} // namespace

static rc::Gen<Case> genCase()
{
    using namespace rc;
    return gen::exec([]() {
        Case c;
        c.relaxed = *vp::range<int>(0, 1);
        c.request = *vp::range<int>(0, 1);
        // most cases carry at most one class of anomaly so that many blocks are accepted
        const int flavour = *gen::weightedElement<int>({{6, 0}, {4, 1}, {3, 2}, {2, 3}, {2, 4}, {2, 5}, {2, 6}, {1, 7}, {1, 8}, {2, 9}});
        // 0 plain, 1 folds, 2 ws-before-colon, 3 bare CR/odd bytes, 4 LF/CRCRLF line ends, 5 junk lines, 6 CR-only line, 7 NUL, 8 leading ws line, 9 everything
        auto on = [&](int f) { return flavour == f || flavour == 9; };
        const int nFields = *gen::weightedElement<int>({{1, 0}, {3, 1}, {4, 2}, {4, 3}, {3, 5}, {2, 8}, {1, 14}, {1, 30}});
        std::string b;
        if (on(8) && *vp::range<int>(0, 1)) {
            b += *gen::element(std::string(" "), std::string("\t"), std::string("\v"), std::string("\f"), std::string("\r"));
            b += genText(*vp::range<int>(0, 5) == 0);
            if (*vp::range<int>(0, 1)) b += ": x";
            b += "\r\n";
        }
        const int crOnlyAt = on(6) ? *vp::range<int>(0, nFields) : -1;
        const int junkAt = on(5) ? *vp::range<int>(0, nFields) : -1;
        for (int k = 0; k <= nFields; ++k) {
            if (k == crOnlyAt) b += std::string(static_cast<size_t>(*gen::weightedElement<int>({{4, 2}, {2, 3}, {1, 5}})), '\r') + "\n";
            if (k == junkAt) {
                b += *gen::element(std::string("no colon here"), std::string(": empty name"), std::string("bad name: v"), std::string("na(me: v"), std::string("\x80: v"), std::string("a\x7f: v"), std::string("=: v"), std::string("X"), std::string("\"q\": v"));
                b += "\r\n";
            }
            if (k == nFields) break;
            const std::string name = genName();
            const std::string lname = lower(name);
            const bool framing = lname == "content-length" || lname == "transfer-encoding";
            b += name;
            if (on(2) && *vp::range<int>(0, 2) == 0) b += *gen::element(std::string(" "), std::string("\t"), std::string("  "), std::string("\r"), std::string("\v"));
            b += ':';
            b += genOws();
            const bool dirty = (on(3) && *vp::range<int>(0, 2) == 0) || (on(7) && *vp::range<int>(0, 2) == 0);
            if (framing && *vp::range<int>(0, 5) != 0) {
                b += genFramingValue(lname);
                if (dirty) b += *gen::element(std::string("\r"), std::string(" \r"), std::string("\v"));
            } else {
                std::string t = genText(false);
                if (dirty && on(7)) { if (t.empty()) t = "x"; t[t.size() / 2] = '\0'; }
                else if (dirty) t = genText(true);
                b += t;
            }
            b += genOws();
            const int folds = on(1) ? *gen::weightedElement<int>({{3, 0}, {4, 1}, {2, 2}, {1, 3}}) : 0;
            for (int f = 0; f < folds; ++f) {
                b += on(4) ? genLineEnd() : std::string("\r\n");
                b += *gen::element(std::string(" "), std::string("\t"), std::string("   "), std::string(" \t"));
                if (*vp::range<int>(0, 7) != 0) b += genText(dirty && *vp::range<int>(0, 3) == 0);
                b += *gen::element(std::string(""), std::string(""), std::string(" "), std::string("\t"));
            }
            b += on(4) ? genLineEnd() : std::string("\r\n");
        }
        b += (on(4) && *vp::range<int>(0, 2) == 0) ? "\n" : "\r\n";
        b += *gen::weightedElement<std::string>({{5, ""}, {1, "body"}, {1, "GET / HTTP/1.1\r\n\r\n"}});
        c.block = b;
        return c;
    });
}

#ifdef VP_FUZZ
static Case fuzzCase(FuzzedDataProvider &fdp)
{
    Case c;
    const unsigned b0 = fdp.ConsumeIntegral<uint8_t>();
    c.relaxed = b0 & 1;
    c.request = (b0 >> 1) & 1;
    c.block = fdp.ConsumeRemainingBytesAsString();
    c.block += "\r\n\r\n";
    return c;
}
#else
static std::function<Case(FuzzedDataProvider &)> fuzzCase = nullptr;
#endif

static void registerAll()
{
    vp::add<Case>("header_block", genCase(), check, show, parse, 1.0, fuzzCase);
}

VP_MAIN(registerAll)
