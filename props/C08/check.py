"""C08 No descriptor leaks or crashes across abort histories."""
import os
import socket
import threading
import time

from hypothesis import strategies as st

from vlib.e2e import client, httpref
from vlib.e2e.env import ProxyEnv, fetch
from vlib.e2e_runner import Result


def strategy(tp):
    txn = st.fixed_dictionaries({
        "kind": st.sampled_from(["get", "get", "get", "post", "connect", "pipeline", "get-refused", "connect-refused"]),
        "start_ms": st.integers(0, 60),
        "cacheable": st.booleans(),
        "shared_url": st.integers(0, 3),                   # several transactions may hit the same URL (hits, collapsing)
        "body_len": st.sampled_from([0, 100, 5000, 70000, 300000]),
        "framing": st.sampled_from(["length", "chunked", "close"]),
        "req_partial": st.one_of(st.none(), st.none(), st.integers(1, 120)),   # send only k bytes of the request, then end
        "client_end": st.sampled_from(["read-all", "read-all", "close-early", "rst-early", "half-close", "stall"]),
        "client_read": st.integers(0, 20000),              # bytes of response read before an early end
        "origin": st.sampled_from(["ok", "ok", "abort-fin", "abort-rst", "stall", "stall-mid", "no-response"]),
        "origin_at": st.integers(0, 999),
        "post_len": st.sampled_from([0, 10, 5000, 100000]),
        # on workers with a disk cache: make the STORED object (swap metadata + reply head + body) end exactly at,
        # just below or just above a multiple of the 4 KB disk I/O page ([pages, delta]); None = use body_len as is
        "page_align": st.one_of(st.none(), st.tuples(st.integers(1, 4), st.sampled_from([-1, 0, 0, 0, 0, 1]), st.sampled_from(["object", "object", "file"])).map(list)),
        "post_sent": st.one_of(st.just(1000), st.just(1000), st.integers(0, 1000)),                 # permille of the request body actually sent
    })
    return st.fixed_dictionaries({
        "txns": st.lists(txn, min_size=3, max_size=int(tp.get("max_txns", 14))),
        "caching": st.booleans(),
    })


CONF = """client_idle_pconn_timeout 2 seconds
server_idle_pconn_timeout 2 seconds
read_timeout 5 seconds
write_timeout 5 seconds
request_timeout 5 seconds
connect_timeout 3 seconds
client_lifetime 60 seconds
pconn_lifetime 10 seconds
half_closed_clients off
collapsed_forwarding on
"""


def fd_count(pid):
    try:
        return len(os.listdir("/proc/%d/fd" % pid))
    except OSError:
        return -1


def fd_list(pid):
    out = []
    try:
        for n in os.listdir("/proc/%d/fd" % pid):
            try:
                out.append("%s->%s" % (n, os.readlink("/proc/%d/fd/%s" % (pid, n))))
            except OSError:
                pass
    except OSError:
        pass
    return out


def settle(env, target=None, deadline_s=25):
    """Make every timeout due (clock +1 day), then wait for the fd count to stop changing / reach target."""
    env.squid.set_clock(env.clock.offset + 86400)
    pid = env.squid.proc.pid
    deadline = time.time() + deadline_s
    last, stable_since = None, time.time()
    while time.time() < deadline:
        n = fd_count(pid)
        if target is not None and 0 <= n <= target:
            return n
        if n != last:
            last, stable_since = n, time.time()
        elif target is None and time.time() - stable_since > 1.5:
            return n
        time.sleep(0.1)
    return fd_count(pid)


def setup(ctx):
    # odd workers add a ufs cache_dir, so descriptors of swap-out/swap-in files are part of the count
    disk = (ctx.worker % 2 == 1)
    env = ProxyEnv(ctx, conf=CONF + ("maximum_object_size 2 MB\n" if disk else ""), cache_mem="32 MB",
                   cache_dirs=["ufs {run}/ufs 50 4 4"] if disk else [])
    env.disk = disk
    env.stored_overhead = None
    from vlib.e2e.squidproc import free_port
    env.dead_port = free_port()      # nothing listens there: upstream connection attempts are refused
    _baseline(env)
    return env


def _baseline(env):
    # warm-up: one complete miss, one hit, one CONNECT, so lazily opened descriptors (logs, DNS, ...) exist
    p = "/" + env.ns()
    env.origin.script(p, {"status": 200, "headers": [["Cache-Control", "max-age=60"]], "body_tag": p, "body_len": 100})
    fetch(env, p)
    fetch(env, p)
    if getattr(env, "disk", False):
        # learn how many bytes precede the body in a swap file (swap metadata + stored reply head), from the file itself
        q = "/" + env.ns()
        env.origin.script(q, {"status": 200, "framing": "length", "headers": [["Cache-Control", "max-age=600"]], "body_tag": q, "body_len": 1000})
        fetch(env, q)
        deadline = time.time() + 10
        env.stored_overhead = None
        while time.time() < deadline and env.stored_overhead is None:
            for base, _dirs, names in os.walk(os.path.join(env.squid.run, "ufs")):
                for n in names:
                    if n.startswith("swap.state"):
                        continue
                    sz = os.path.getsize(os.path.join(base, n))
                    if 1000 < sz < 3000:
                        env.stored_overhead = sz - 1000 - len(q)   # the swap metadata contains the URL: keep the URL-independent part
            time.sleep(0.1)
    env.origin.close_conns()
    env.baseline = settle(env, None)
    env.baseline_pid = env.squid.proc.pid


def teardown(env):
    env.close()


def run_txn(env, ns, t, idx, socks):
    path = "/%s/u%d" % (ns, t["shared_url"]) if t["cacheable"] else "/%s/t%d" % (ns, idx)
    ev = "hold-%s-%d" % (ns, idx)
    body_len = t["body_len"]
    pa = t.get("page_align")
    if pa and t["cacheable"] and getattr(env, "disk", False):
        # two alignments matter to a disk store: the swap FILE (metadata + reply head + body; mode 0) and the OBJECT as the
        # store counts it (reply head + body: the unit in which data is queued for swap-out; mode 1)
        from vlib.e2e import origin as om0

        def head_len(n):
            probe = {"status": 200, "framing": "length", "body_tag": path, "body_len": n, "headers": [["Cache-Control", "max-age=600"]]}
            return len(om0.serialize_response(probe, env.clock)[0])
        mode = pa[2] if len(pa) > 2 else "object"
        body_len = 4000
        for _ in range(3):   # the head contains the decimal body length: iterate to the fixed point
            extra = (env.stored_overhead + len(path)) if (mode == "file" and env.stored_overhead) else head_len(body_len)
            body_len = max(1, pa[0] * 4096 - extra + pa[1])
    beh = {"status": 200, "framing": "length" if body_len != t["body_len"] else t["framing"], "body_tag": path, "body_len": body_len,
           "headers": [["Cache-Control", "max-age=600" if t["cacheable"] else "no-store"]], "hold_timeout": 30}
    from vlib.e2e import origin as om
    head, enc = om.serialize_response(beh, env.clock)
    total = len(head) + len(enc)
    o = t["origin"]
    if o in ("abort-fin", "abort-rst"):
        beh["abort_after"] = total * t["origin_at"] // 1000
        beh["abort_rst"] = (o == "abort-rst")
    elif o == "stall":
        beh["hold"] = ev
    elif o == "stall-mid":
        beh["head_hold"] = ev
        beh["head_hold_bytes"] = max(1, total * t["origin_at"] // 1000)
    elif o == "no-response":
        beh["no_response"] = True
    env.origin.script(path, beh)
    time.sleep(t["start_ms"] / 1000.0)
    try:
        c = client.Conn(env.port, timeout=8)
    except OSError:
        return
    socks.append(c)
    hostport = "127.0.0.1:%d" % env.origin.port
    kind = t["kind"]
    if kind.endswith("-refused"):
        hostport = "127.0.0.1:%d" % env.dead_port
        kind = kind.split("-")[0]
    if kind == "connect":
        req = ("CONNECT %s HTTP/1.1\r\nHost: %s\r\n\r\n" % (hostport, hostport)).encode()
        body = b"GET %s HTTP/1.1\r\nHost: x\r\n\r\n" % path.encode()
    elif kind == "post":
        payload = httpref.keyed_stream(path + "#req", t["post_len"])
        req = ("POST http://%s%s HTTP/1.1\r\nHost: %s\r\nContent-Length: %d\r\n\r\n" % (hostport, path, hostport, len(payload))).encode()
        body = payload[:len(payload) * t["post_sent"] // 1000]
    elif kind == "pipeline":
        one = ("GET http://%s%s HTTP/1.1\r\nHost: %s\r\n\r\n" % (hostport, path, hostport)).encode()
        req, body = one + one, b""
    else:
        req, body = ("GET http://%s%s HTTP/1.1\r\nHost: %s\r\n\r\n" % (hostport, path, hostport)).encode(), b""
    data = req + body
    if t["req_partial"] is not None:
        data = data[:t["req_partial"]]
    c.send(data)
    end = t["client_end"]
    if end == "stall":
        return                                  # socket stays open until the end of the history
    if end == "half-close":
        c.half_close()
    want = None if end in ("read-all", "half-close") else t["client_read"]
    deadline = time.time() + 6
    while time.time() < deadline and not c.eof:
        if want is not None and len(c.rbuf) >= want:
            break
        if not c._fill(min(deadline, time.time() + 0.5)) and want is None and len(c.rbuf) and end == "read-all":
            # a complete response may have arrived on a persistent connection
            try:
                m, _ = httpref.parse_message(bytes(c.rbuf), "response", False, b"GET")
                if m.complete:
                    break
            except Exception:
                pass
    if end == "rst-early":
        c.rst()
    else:
        c.close()


def execute(env, sc):
    r = Result()
    if not env.squid.alive() or env.squid.proc.pid != env.baseline_pid:
        _baseline(env)
    ns = env.ns()
    socks = []
    threads = [threading.Thread(target=run_txn, args=(env, ns, t, i, socks), daemon=True) for i, t in enumerate(sc["txns"])]
    for th in threads:
        th.start()
    for th in threads:
        th.join(20)
    # end of history: the harness lets go of everything it holds
    for c in socks:
        c.close()
    env.origin.close_conns()
    kinds = set()
    for t in sc["txns"]:
        if t["client_end"] in ("close-early", "rst-early", "stall", "half-close"):
            kinds.add("client-" + t["client_end"])
        if t["origin"] != "ok":
            kinds.add("origin-" + t["origin"])
        if t["req_partial"] is not None:
            kinds.add("partial-request")
        if t["kind"].endswith("-refused"):
            kinds.add("upstream-connect-refused")
    if len(kinds) >= 3:
        r.nontrivial = True
    r.label("abort-kinds-%d" % min(len(kinds), 6))
    r.sub_evaluations = len(sc["txns"])
    if not env.health(r):
        _baseline(env)
        return r
    n = settle(env, env.baseline)
    if n > env.baseline:
        # give slow close paths one more round before calling it a leak
        n = settle(env, env.baseline, deadline_s=15)
    if n > env.baseline:
        extra = [f for f in fd_list(env.squid.proc.pid) if "socket:" in f]
        r.fail("descriptors-above-idle-baseline-after-quiescence",
               "baseline %d, now %d after all peers closed and every timeout expired; sockets still open: %s" % (env.baseline, n, extra[:12]))
        # start from a clean instance so one leak is not reported for every later history
        env.restart()
        _baseline(env)
    elif n < 0:
        r.inconclusive = "cannot read the proxy's descriptor table"
    else:
        r.label("returned-to-baseline")
    return r
