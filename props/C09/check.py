"""C09 Adversarial HTTP peers cannot cause memory errors or crashes."""
import base64
import time

from hypothesis import strategies as st

from vlib.e2e import client
from vlib.e2e.env import ProxyEnv, fetch
from vlib.e2e_runner import Result

TOKENS = [b"\r", b"\n", b"\r\n", b"\x00", b" ", b"\t", b"\x0b", b":", b",", b";", b"=", b"\"", b"%00", b"%", b"/", b"?", b"#", b"@", b"[", b"]",
          b"0", b"-1", b"+1", b"4294967296", b"9223372036854775807", b"9223372036854775808", b"18446744073709551616", b"99999999999999999999999",
          b"0x10", b"1e9", b"chunked", b"identity", b"gzip", b"close", b"keep-alive", b"Upgrade", b"100-continue", b"HTTP/1.1", b"HTTP/1.0", b"HTTP/0.9", b"HTTP/2.0", b"HTTP/1.10",
          b"Content-Length: 5\r\n", b"Content-Length: 0\r\n", b"Transfer-Encoding: chunked\r\n", b"Transfer-Encoding: x\r\n", b"Connection: close\r\n", b"Expect: 100-continue\r\n",
          b"Host: a\r\n", b"Range: bytes=0-9223372036854775807\r\n", b"Range: bytes=-1\r\n", b"If-Range: x\r\n", b"Cache-Control: max-age=99999999999\r\n", b"Vary: *\r\n",
          b"Authorization: Basic ====\r\n", b"Proxy-Authorization: Basic dTpw\r\n", b"Via: 1.1 verifproxy (squid)\r\n", b"X-Forwarded-For: " + b"1.1.1.1, " * 50 + b"\r\n",
          b"A" * 64, b"A" * 1024, b"h" * 9000, b"/" + b"p" * 9000, b"\xff\xfe", b"\x80", b"\x7f", b"()<>@,;:\\\"/[]?={}"]

mutation = st.one_of(
    st.tuples(st.just("sub"), st.integers(0, 999), st.integers(0, 255)),
    st.tuples(st.just("ins"), st.integers(0, 999), st.integers(0, len(TOKENS) - 1)),
    st.tuples(st.just("del"), st.integers(0, 999), st.integers(1, 40)),
    st.tuples(st.just("dup"), st.integers(0, 999), st.integers(1, 80)),
    st.tuples(st.just("trunc"), st.integers(0, 999), st.just(0)),
    st.tuples(st.just("pad"), st.integers(0, 999), st.integers(1, 5000)),
).map(list)

REQ_HEADERS = ["Accept: */*", "User-Agent: x", "Cache-Control: no-cache", "Range: bytes=0-10,20-30", "If-None-Match: \"a\", W/\"b\"", "If-Modified-Since: Sat, 29 Oct 1994 19:43:31 GMT",
               "Accept-Encoding: gzip", "Connection: keep-alive, X-A", "X-A: 1", "Cookie: a=b", "Pragma: no-cache", "Max-Forwards: 3", "Expect: 100-continue", "TE: trailers",
               "Upgrade: websocket", "Proxy-Connection: keep-alive", "Authorization: Basic dTpw", "Content-Type: text/plain", "Trailer: X-T"]
RESP_HEADERS = ["Cache-Control: max-age=60", "Cache-Control: private=\"x\"", "ETag: \"v1\"", "Last-Modified: Sat, 29 Oct 1994 19:43:31 GMT", "Vary: Accept-Encoding, X-A", "Age: 10",
                "Expires: Thu, 01 Dec 2044 16:00:00 GMT", "Content-Type: text/html", "Content-Range: bytes 0-9/100", "Connection: close, X-B", "X-B: 2", "Set-Cookie: a=b",
                "Location: /x", "Content-Location: /y", "Warning: 110 - \"stale\"", "Accept-Ranges: bytes", "Trailer: X-T", "Upgrade: h2c", "WWW-Authenticate: Basic realm=\"r\"",
                "Proxy-Authenticate: Basic realm=\"p\"", "Surrogate-Control: no-store", "Content-Encoding: gzip"]


def _chain(t):
    start, steps = t
    out, last = [], start
    for step, ln in steps:
        a = max(0, last + step)
        out.append([a, a + ln])
        last = a + ln
    return out


def strategy(tp):
    req = st.fixed_dictionaries({
        "method": st.sampled_from(["GET", "GET", "POST", "PUT", "HEAD", "OPTIONS", "TRACE", "DELETE", "PURGE", "CONNECT", "FROB"]),
        "form": st.sampled_from(["absolute", "absolute", "origin", "authority", "star"]),
        "version": st.sampled_from(["HTTP/1.1", "HTTP/1.1", "HTTP/1.0"]),
        "headers": st.lists(st.sampled_from(REQ_HEADERS), min_size=0, max_size=6),
        "body": st.sampled_from(["none", "length", "chunked"]),
        "body_len": st.sampled_from([0, 1, 10, 5000]),
        "mut": st.lists(mutation, min_size=0, max_size=4),
        # a generated multi-range request over small positions: touching, overlapping, nested, reversed and duplicate specs
        "range": st.one_of(st.none(), st.none(), st.lists(st.tuples(st.integers(0, 24), st.integers(0, 12)).map(lambda t: [t[0], t[0] + t[1]]), min_size=1, max_size=5),
                           # a chain: every spec starts at the previous spec's last byte plus a small step (-2..2: nested, sharing
                           # exactly one byte, adjacent, one byte apart), boundary-dense where range merging and ordering decide
                           st.tuples(st.integers(0, 30), st.lists(st.tuples(st.integers(-2, 2), st.integers(0, 12)), min_size=2, max_size=5)).map(_chain)),
        # structure-aware length inflation of one component to a boundary-dense size
        "stretch": st.one_of(st.none(), st.none(), st.tuples(st.sampled_from(["host", "path", "query", "header-value", "header-name", "method", "userinfo"]),
                                                             st.sampled_from([255, 256, 1023, 1024, 1025, 4095, 4096, 8191, 8192, 8193, 12000, 16384, 20000])).map(list)),
    })
    # a syntactically clean GET whose only adversarial part is its Range header (the range-packing code runs only when the
    # proxy itself answers from a whole 200 response or a cached object)
    probe = st.fixed_dictionaries({
        "method": st.just("GET"), "form": st.just("absolute"), "version": st.sampled_from(["HTTP/1.1", "HTTP/1.0"]),
        "headers": st.lists(st.sampled_from(["Accept: */*", "If-Range: \"v1\"", "Connection: keep-alive"]), min_size=0, max_size=2),
        "body": st.just("none"), "body_len": st.just(0), "mut": st.just([]),
        "range": st.tuples(st.integers(0, 30), st.lists(st.tuples(st.integers(-2, 2), st.integers(0, 12)), min_size=2, max_size=5)).map(_chain),
        "stretch": st.none(),
    })
    resp = st.fixed_dictionaries({
        "status": st.sampled_from([200, 200, 200, 100, 101, 204, 206, 301, 304, 401, 407, 404, 416, 500, 999, 99, 600]),
        "version": st.sampled_from(["HTTP/1.1", "HTTP/1.1", "HTTP/1.0", "ICY", "HTTP/2.0"]),
        "headers": st.lists(st.sampled_from(RESP_HEADERS), min_size=0, max_size=6),
        "framing": st.sampled_from(["length", "chunked", "close"]),
        "body_len": st.sampled_from([0, 1, 100, 5000, 70000]),
        "interim": st.integers(0, 3),
        "mut": st.lists(mutation, min_size=0, max_size=4),
        "segments": st.lists(st.integers(1, 3000), min_size=0, max_size=5),
    })
    return st.fixed_dictionaries({
        # first make the first URL a cached object (clean 200), so that the adversarial request is answered from the store
        "precache": st.sampled_from([False, False, True]),
        "requests": st.lists(st.one_of(req, req, req, probe), min_size=1, max_size=4),
        "response": resp,
        "client_segments": st.lists(st.integers(1, 2000), min_size=0, max_size=5),
        "client_half_close": st.booleans(),
    })


def setup(ctx):
    return ProxyEnv(ctx, conf="request_header_max_size 24 KB\nreply_header_max_size 8 KB\nread_timeout 4 seconds\nrequest_timeout 4 seconds\n"
                              "connect_timeout 2 seconds\nclient_lifetime 30 seconds\npipeline_prefetch 3\n", cache_mem="16 MB")


def teardown(env):
    env.close()


def mutate(data, muts):
    data = bytearray(data)
    for op, pos, arg in muts:
        n = len(data)
        p = (n * pos) // 1000 if n else 0
        if op == "sub" and n:
            data[min(p, n - 1)] = arg
        elif op == "ins":
            data[p:p] = TOKENS[arg]
        elif op == "del":
            del data[p:p + arg]
        elif op == "dup":
            data[p:p] = data[p:p + arg]
        elif op == "trunc":
            del data[p:]
        elif op == "pad":
            data[p:p] = b"a" * arg
    return bytes(data)


def build_request(env, path, rq):
    hostport = "127.0.0.1:%d" % env.origin.port
    m = rq["method"]
    form = rq["form"]
    extra_headers = []
    stretch = rq.get("stretch")
    if stretch:
        comp, n = stretch
        if comp == "host":
            hostport = "h" * n + ":%d" % env.origin.port
        elif comp == "userinfo":
            hostport = "u" * n + "@" + hostport
        elif comp == "path":
            path = path + "/" + "p" * n
        elif comp == "query":
            path = path + "?q=" + "q" * n
        elif comp == "header-value":
            extra_headers.append("X-Long: " + "v" * n)
        elif comp == "header-name":
            extra_headers.append("X-" + "n" * n + ": v")
        elif comp == "method":
            m = "M" * n
    if m == "CONNECT" or form == "authority":
        target = hostport
    elif form == "origin":
        target = path
    elif form == "star":
        target = "*"
    else:
        target = "http://%s%s" % (hostport, path)
    if rq.get("range"):
        extra_headers.append("Range: bytes=" + ",".join("%d-%d" % (a, b) for a, b in rq["range"]))
    lines = ["%s %s %s" % (m, target, rq["version"]), "Host: " + hostport] + list(rq["headers"]) + extra_headers
    body = b""
    if rq["body"] == "length":
        body = b"b" * rq["body_len"]
        lines.append("Content-Length: %d" % len(body))
    elif rq["body"] == "chunked":
        payload = b"c" * rq["body_len"]
        lines.append("Transfer-Encoding: chunked")
        body = (b"%x\r\n%s\r\n" % (len(payload), payload) if payload else b"") + b"0\r\n\r\n"
    return ("\r\n".join(lines) + "\r\n\r\n").encode("latin-1") + body


def build_response(rs, path):
    from vlib.e2e import httpref
    body = httpref.keyed_stream(path, rs["body_len"])
    if rs["version"] == "ICY":
        sl = "ICY %d OK" % rs["status"]
    else:
        sl = "%s %d Reason" % (rs["version"], rs["status"])
    lines = [sl] + list(rs["headers"]) + ["Date: Tue, 22 Sep 2026 00:00:00 GMT"]
    if rs["framing"] == "length":
        lines.append("Content-Length: %d" % len(body))
        enc = body
    elif rs["framing"] == "chunked":
        lines.append("Transfer-Encoding: chunked")
        enc = b""
        for i in range(0, len(body), 4000):
            part = body[i:i + 4000]
            enc += b"%x\r\n%s\r\n" % (len(part), part)
        enc += b"0\r\n\r\n"
    else:
        enc = body
    pre = b"HTTP/1.1 100 Continue\r\n\r\n" * rs["interim"]
    return pre + ("\r\n".join(lines) + "\r\n\r\n").encode("latin-1") + enc


def execute(env, sc):
    r = Result()
    ns = env.ns()
    paths = ["/%s/%d" % (ns, i) for i in range(len(sc["requests"]))]
    rs = sc["response"]
    raw = mutate(build_response(rs, paths[0]), rs["mut"])
    beh = {"raw_head_b64": base64.b64encode(raw).decode(), "framing": "none", "segments": rs["segments"], "date": False,
           "close": rs["framing"] == "close" or bool(rs["mut"])}
    if sc.get("precache"):
        env.origin.script(paths[0], {"status": 200, "headers": [["Cache-Control", "max-age=3600"]], "body_tag": paths[0], "body_len": 5000})
        fetch(env, paths[0], timeout=15)
        r.label("precached")
    for p in paths:
        env.origin.script(p, beh)
    env.origin.default_behaviour = dict(beh)
    stream = b""
    mutated = bool(rs["mut"])
    for p, rq in zip(paths, sc["requests"]):
        stream += mutate(build_request(env, p, rq), rq["mut"])
        mutated = mutated or bool(rq["mut"])
    c = client.Conn(env.port, timeout=12)
    got = b""
    try:
        c.send(stream, sc["client_segments"])
        if sc["client_half_close"]:
            c.half_close()
        deadline = time.time() + 12
        # read until the proxy closes or goes quiet
        last = time.time()
        while time.time() < deadline and not c.eof:
            before = len(c.rbuf)
            c._fill(min(deadline, time.time() + 1.0))
            if len(c.rbuf) > before:
                last = time.time()
            elif time.time() - last > 2.5 and len(c.rbuf) > 0:
                break
        got = bytes(c.rbuf)
    finally:
        c.close()
    answered = got.startswith(b"HTTP/") or c.eof
    reached = any(env.origin.arrival_count(p) > 0 for p in paths) or got.startswith(b"HTTP/")
    if mutated and reached:
        r.nontrivial = True
    r.label("mutated" if mutated else "unmutated")
    r.label("answered" if got.startswith(b"HTTP/") else ("closed" if c.eof else "silent-at-deadline"))
    if not answered:
        r.inconclusive = "connection neither answered nor closed before the deadline"
    r.sub_evaluations = len(sc["requests"])
    # other transactions continue to be served
    env.origin.default_behaviour = {"status": 404, "reason": "Not Found", "body_b64": "", "framing": "length"}
    okpath = "/%s/ok" % ns
    env.origin.script(okpath, {"status": 200, "body_tag": okpath, "body_len": 10, "headers": [["Cache-Control", "no-store"]]})
    healthy = env.health(r)
    if healthy:
        good = False
        for attempt in range(3):
            m = fetch(env, okpath, timeout=15)
            if m is not None and m.status == 200 and m.complete:
                good = True
                break
            time.sleep(0.3)
        if not good:
            if env.squid.health_problems():
                env.health(r)
            else:
                r.fail("well-formed-transaction-not-served-after-adversarial-stream", "plain GET failed three times after the stream")
    return r
