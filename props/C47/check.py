"""C47 Helper replies reach the request that asked.

The harness plays the helper (vlib.e2e.helperstub through the relay binary) for
  * url_rewrite_program with concurrency 0 (3 children), 8 and 40 (one child each), and
  * an external_acl_type helper with concurrency 6 (one child),
and answers bursts of client requests in a generated order, with generated write fragmentation
(cuts inside the channel id, inside the URL, before the end-of-line), LF/CRLF line ends, duplicated
replies and replies for channels nobody asked on.  Every client request carries its own tag (URL path and
X-Client header); the answer the helper gives for a request is a function of that request's own URL only:
  rewrite  -> OK rewrite-url=<own r-path>      expected: origin sees the own r-path
  legacy   -> <own r-path URL>                 (old one-word reply format) same expectation
  err      -> ERR                              expected: origin sees the own, unchanged c-path
  redirect -> OK status=302 url=<own URL>      expected: 302 with the own Location, no origin arrival
  (external acl) OK user=u<i> / ERR            expected: forwarded with %un=u<i> / 403 and no arrival
Oracle: for every origin arrival the upstream URL is the one computed from that tag's own reply; a request
the helper has seen but not yet answered is never forwarded or answered; a client that gets a final response
gets the one that belongs to its tag.  Clients that get no response in time are inconclusive (counted).
"""
import hashlib
import os
import re
import threading
import time

from hypothesis import strategies as st

from vlib import native
from vlib.e2e import client, helperstub, origin as originmod, squidproc
from vlib.e2e_runner import Result

MODES = {
    # name: (kind, concurrency, children)
    "rw-c0": ("rw", 0, 3),
    "rw-c8": ("rw", 8, 1),
    "rw-c40": ("rw", 40, 1),
    "xacl-c6": ("xacl", 6, 1),
}
KNOWN_ID_SPLIT = "misapplied-reply-after-channel-id-split-across-reads"


def strategy(tp):
    nmax = int(tp.get("max_burst", 24))
    cut = st.one_of(st.tuples(st.just("id"), st.integers(1, 3)).map(list),         # after k bytes of the reply line (inside/at the end of the id)
                    st.tuples(st.just("drip"), st.integers(0, 4)).map(list),       # one byte per write for the id and the k bytes after it
                    st.tuples(st.just("abs"), st.integers(0, 80)).map(list),      # k bytes after "<id> "
                    st.tuples(st.just("end"), st.integers(0, 3)).map(list))       # k bytes before the end of the line (inside CRLF ...)
    reply = st.fixed_dictionaries({
        "kind": st.sampled_from(["rewrite", "rewrite", "rewrite", "legacy", "err", "redirect"]),
        "ok": st.booleans(),                                                        # verdict for the external acl mode
        "cuts": st.lists(cut, min_size=0, max_size=3),
        "pause": st.sampled_from([1, 3, 3, 10, 30]),
        "crlf": st.booleans(),
    })
    extra = st.fixed_dictionaries({
        "at": st.integers(0, nmax),               # before the at-th reply (clipped)
        "kind": st.sampled_from(["dup", "unknown", "unknown", "dup-changed"]),
        "delta": st.integers(1, 1000),
        "cuts": st.lists(cut, min_size=0, max_size=1),
    })
    return st.fixed_dictionaries({
        "mode": st.sampled_from(["rw-c0", "rw-c8", "rw-c8", "rw-c40", "rw-c40", "xacl-c6"]),
        "fresh": st.booleans(),
        "id_split": st.sampled_from([False, True, False, True]),   # allows cuts before the space that follows the channel id
        "replies": st.one_of(st.lists(reply, min_size=1, max_size=nmax), st.lists(reply, min_size=5, max_size=nmax), st.lists(reply, min_size=12, max_size=nmax)),
        "order": st.lists(st.integers(0, 1000), min_size=nmax, max_size=nmax),
        "extras": st.lists(extra, min_size=0, max_size=3),
        "hold_last": st.booleans(),
    })


# ---------------------------------------------------------------------------- environment
class Instance:
    def __init__(self, env, mode):
        kind, conc, children = MODES[mode]
        self.kind, self.conc, self.children = kind, conc, children
        self.stub = helperstub.HelperStub("C47-w%d" % env.ctx.worker, channels=conc > 0)
        if kind == "rw":
            conf = ("url_rewrite_program %s\nurl_rewrite_children %d startup=0 idle=1 concurrency=%d queue-size=500\n"
                    "url_rewrite_extras \"x\"\n" % (self.stub.program, children, conc))
            access = "http_access allow all"
        else:
            conf = ("external_acl_type verifx ttl=0 negative_ttl=0 children-max=%d children-startup=0 children-idle=1 concurrency=%d queue-size=500 %%URI %s\n"
                    "acl viax external verifx\n" % (children, conc, self.stub.program))
            access = "http_access allow viax\nhttp_access deny all"
        conf += "mime_table %s\n" % env.mime
        self.squid = squidproc.Squid("C47-w%d" % env.ctx.worker, conf=conf, access=access, clock=env.clock, cache_mem="8 MB")
        self.squid.start(timeout=120)
        self.dirty = False      # a request may still be pending inside Squid's helper session: restart the children first

    def destroy(self):
        try:
            self.squid.destroy()
        finally:
            self.stub.stop()


class Env:
    def __init__(self, ctx):
        native.build_all()
        self.ctx = ctx
        self.clock = originmod.Clock()
        self.origin = originmod.Origin(self.clock)
        self.instances = {}
        self.n = 0
        self.mime = os.path.join(squidproc.RUN, "C47-mime-%d.conf" % os.getpid())
        os.makedirs(squidproc.RUN, exist_ok=True)
        with open(self.mime, "w") as f:
            f.write("\\.png$ image/png silk/image.png - image +download\n")
        os.chmod(self.mime, 0o644)

    def ns(self):
        self.n += 1
        return "c47w%dp%dn%d" % (self.ctx.worker, os.getpid(), self.n)

    def instance(self, mode):
        inst = self.instances.get(mode)
        if inst is None:
            inst = self.instances[mode] = Instance(self, mode)
        return inst

    def drop(self, mode):
        inst = self.instances.pop(mode, None)
        if inst:
            inst.destroy()

    def close(self):
        for m in list(self.instances):
            self.drop(m)
        self.origin.stop()
        try:
            os.unlink(self.mime)
        except OSError:
            pass


def setup(ctx):
    return Env(ctx)


def teardown(env):
    env.close()


# ---------------------------------------------------------------------------- helpers
def _h(s):
    return hashlib.sha256(s.encode()).hexdigest()[:8]


def fragments(line, idlen, cuts, allow_id_split):
    """cut positions -> (segment sizes, first write ends before the space after the id?)"""
    pos = set()
    for kind, k in cuts:
        if kind == "drip":
            if idlen and allow_id_split:
                pos.update(range(1, min(len(line), idlen + 1 + k)))
            continue
        if kind == "id":
            p = k
            if idlen and p <= idlen and not allow_id_split:
                p = idlen + 1 + k
            elif not idlen:
                p = k
        elif kind == "abs":
            p = (idlen + 1 if idlen else 0) + k
        else:
            p = len(line) - k
        if 0 < p < len(line):
            pos.add(p)
    pts = sorted(pos)
    segs, last = [], 0
    for p in pts:
        segs.append(p - last)
        last = p
    return segs, (len([p for p in pts if p <= idlen]) if idlen else 0)


class Client(threading.Thread):
    def __init__(self, port, url, hostport, idx, deadline):
        super().__init__(daemon=True)
        self.port, self.url, self.hostport, self.idx, self.deadline = port, url, hostport, idx, deadline
        self.msg = None
        self.error = None
        self.done = threading.Event()

    def run(self):
        try:
            c = client.Conn(self.port, timeout=20)
            try:
                c.send(("GET %s HTTP/1.1\r\nHost: %s\r\nX-Client: %d\r\nConnection: close\r\n\r\n" % (self.url, self.hostport, self.idx)).encode())
                self.msg = c.read_response(b"GET", timeout=max(0.1, self.deadline - time.time()))
            finally:
                c.close()
        except OSError as e:
            self.error = repr(e)
        self.done.set()


def restart_children(inst, env, r):
    """End the helper children and make sure Squid has noticed (channel ids start again at 1)."""
    inst.stub.close_connections()
    inst.dirty = False
    for attempt in range(6):
        time.sleep(0.05 * (attempt + 1))
        before = inst.stub.position()
        tag = env.ns()
        cl = Client(inst.squid.ports[0], "http://127.0.0.1:%d/%s/warm" % (env.origin.port, tag), "127.0.0.1:%d" % env.origin.port, 0, time.time() + 8)
        cl.start()
        got = inst.stub.wait_requests(1, timeout=6, since=before)
        ok = False
        for q in got:
            if q.conn.alive:
                inst.stub.reply(q, b"ERR" if inst.kind == "rw" else b"OK")
                ok = True
        inst.stub.take()
        cl.done.wait(8)
        if ok and cl.msg is not None and not cl.msg.timed_out:
            return True
    return False


# ---------------------------------------------------------------------------- execution
def execute(env, sc):
    r = Result()
    mode = sc["mode"]
    try:
        inst = env.instance(mode)
    except RuntimeError as e:
        r.inconclusive = "proxy did not start: %s" % str(e)[:100]
        env.instances.pop(mode, None)
        return r
    try:
        _run(env, inst, sc, r)
    finally:
        probs = inst.squid.health_problems()
        for sig, detail in probs:
            r.fail("memory-safety/liveness:" + sig, detail)
        if probs:
            env.drop(mode)
    return r


def _run(env, inst, sc, r):
    stub, squid, origin = inst.stub, inst.squid, env.origin
    kind, conc = inst.kind, inst.conc
    ns = env.ns()
    n = len(sc["replies"])
    r.sub_evaluations = n
    r.label("mode-" + sc["mode"])
    allow_split = bool(sc["id_split"]) and conc > 0
    if conc > 0 and (sc["fresh"] or inst.dirty):
        if not restart_children(inst, env, r):
            r.inconclusive = "helper children did not come back after a restart"
            inst.dirty = True
            return
        r.label("fresh-helper")
    stub.take()
    hostport = "127.0.0.1:%d" % origin.port
    base = "http://" + hostport
    cpath = ["/%s/%d/c" % (ns, i) for i in range(n)]
    rpath = ["/%s/%d/r-%s" % (ns, i, _h(ns + str(i))) for i in range(n)]
    loc = ["http://redirected.example.test/%s/%d/%s" % (ns, i, _h("L" + ns + str(i))) for i in range(n)]
    for i in range(n):
        origin.script(cpath[i], {"status": 200, "headers": [["X-Tag", "c%d" % i], ["Cache-Control", "no-store"]], "body_b64": ""})
        origin.script(rpath[i], {"status": 200, "headers": [["X-Tag", "r%d" % i], ["Cache-Control", "no-store"]], "body_b64": ""})
    deadline = time.time() + 12
    clients = [Client(squid.ports[0], base + cpath[i], hostport, i, deadline) for i in range(n)]
    for c in clients:
        c.start()

    def arrivals_of(i):
        out = []
        for p in (cpath[i], rpath[i]):
            out += origin.arrivals_for(p)
        return out

    def all_arrivals():
        out = []
        for i in range(n):
            for p in (cpath[i], rpath[i]):
                out += [(p, a) for a in origin.arrivals_for(p)]
        return out

    # ---- the helper side
    seen = {}           # client index -> HelperRequest
    answered = {}       # client index -> reply kind
    suspect_split = [False]
    violations_before = len(r.violations)

    def absorb(reqs):
        for q in reqs:
            m = re.search(rb"/%s/(\d+)/c" % ns.encode(), q.payload)
            if m:
                seen[int(m.group(1))] = q

    def check_unanswered(where):
        # a request the helper has seen on a live connection and not answered must not have moved on
        for i, q in seen.items():
            if i in answered or not q.conn.alive:
                continue
            arr = [a for p, a in all_arrivals() if a.msg.get("x-client") == str(i).encode()]
            if arr or clients[i].done.is_set() and clients[i].msg is not None and clients[i].msg.status is not None:
                r.fail(KNOWN_ID_SPLIT if suspect_split[0] else "request-continued-before-its-own-helper-reply",
                       "%s: request %d (channel %r) was %s although the helper had not answered it; replies sent so far for clients %s" % (
                           where, i, q.channel, "forwarded to %r" % arr[0].msg.target if arr else "answered with %s" % clients[i].msg.status, sorted(answered)))

    capacity = max(1, conc) * inst.children
    absorb(stub.wait_requests(min(n, capacity), timeout=6))
    visible_at_start = len(seen)
    order_key = sc["order"]
    extras = sorted((dict(e, at=e["at"] % n) for e in sc["extras"]), key=lambda e: e["at"]) if conc > 0 else []
    step = 0
    fragmented = 0
    reordered = False
    last_seq = -1
    while len(answered) < n and time.time() < deadline - 2:
        pend = [i for i in seen if i not in answered]
        if not pend:
            got = stub.wait_requests(1, timeout=min(2.0, max(0.1, deadline - 2 - time.time())))
            if not got:
                break
            absorb(got)
            continue
        absorb(stub.take())
        pend = sorted((i for i in seen if i not in answered), key=lambda i: (order_key[i % len(order_key)], i))
        i = pend[0]
        q = seen[i]
        final = len(answered) == n - 1
        if final and sc["hold_last"] and n > 1:
            for c in clients:
                if c.idx != i:
                    c.done.wait(max(0.0, min(4.0, deadline - 3 - time.time())))
            check_unanswered("before the held-back last reply")
            r.label("held-last-reply")
        elif step:
            check_unanswered("before reply #%d" % step)
        if len(r.violations) > violations_before:
            break
        # extras scheduled before this reply (only while this request is still pending on the connection)
        while extras and extras[0]["at"] <= step:
            e = extras.pop(0)
            if not q.conn.alive or q.channel is None:
                continue
            if e["kind"] == "unknown":
                ch = q.channel + 1000 + e["delta"]
                text = (b"OK rewrite-url=" + (base + rpath[i]).encode()) if kind == "rw" else b"OK user=intruder"
                r.label("extra-unknown-channel")
            else:
                done = [j for j in answered if seen[j].conn is q.conn and seen[j].channel is not None]
                if not done:
                    continue
                j = done[e["delta"] % len(done)]
                ch = seen[j].channel
                if e["kind"] == "dup":
                    text = _reply_text(kind, sc["replies"][j], base, cpath, rpath, loc, j)
                else:
                    text = (b"OK rewrite-url=" + (base + "/%s/intruder" % ns).encode()) if kind == "rw" else b"OK user=intruder"
                r.label("extra-duplicate-reply")
            line = b"%d " % ch + text + b"\n"
            segs, _ = fragments(line, len(b"%d" % ch), e["cuts"], False)
            stub.raw(q.conn, line, segs, [3] * len(segs))
        spec = sc["replies"][i]
        text = _reply_text(kind, spec, base, cpath, rpath, loc, i)
        eol = b"\r\n" if spec["crlf"] else b"\n"
        idlen = len(b"%d" % q.channel) if q.channel is not None else 0
        line = (b"%d " % q.channel if q.channel is not None else b"") + text + eol
        segs, split_id = fragments(line, idlen, spec["cuts"], allow_split)
        if split_id:
            suspect_split[0] = True
            r.label("first-write-ends-before-the-space-after-the-channel-id")
            if split_id > 1:
                r.label("channel-id-needs-more-bytes-on-two-or-more-consecutive-reads")
        if segs:
            fragmented += 1
        if q.seq < last_seq:
            reordered = True
        last_seq = max(last_seq, q.seq)
        answered[i] = "ok" if (kind == "xacl" and spec["ok"]) else ("err" if kind == "xacl" else spec["kind"])
        stub.raw(q.conn, line, segs, [spec["pause"]] * len(segs))
        step += 1
    for c in clients:
        c.done.wait(max(0.0, deadline - time.time()))
    time.sleep(0.02)
    if suspect_split[0]:
        inst.dirty = True
    if visible_at_start >= 4 and reordered and fragmented:
        r.nontrivial = True
    if reordered:
        r.label("replies-reordered")
    if fragmented:
        r.label("replies-fragmented")
    r.label("in-flight>=4" if visible_at_start >= 4 else "in-flight<4")

    # ---- judge
    def bad(sig, detail):
        r.fail(KNOWN_ID_SPLIT if suspect_split[0] else sig, detail)

    timeouts = 0
    for i in range(n):
        c = clients[i]
        if i not in seen:
            r.label("request-never-reached-the-helper")
            inst.dirty = True
            continue
        q = seen[i]
        if not q.conn.alive and i not in answered:
            continue
        mine = [(p, a) for p, a in all_arrivals() if a.msg.get("x-client") == str(i).encode()]
        exp = answered.get(i)
        if exp is None:
            # never answered (deadline): must not have moved on -- checked like the held-back reply
            if mine:
                bad("request-continued-before-its-own-helper-reply", "request %d was forwarded to %r although the helper never answered it" % (i, mine[0][1].msg.target))
            inst.dirty = True
            continue
        want = {"rewrite": rpath[i], "legacy": rpath[i], "err": cpath[i], "ok": cpath[i], "redirect": None}[exp] if not (kind == "xacl" and exp == "err") else None
        for p, a in mine:
            if want is None:
                bad("request-forwarded-although-its-own-reply-said-otherwise", "request %d (own reply: %s) reached the origin as %r" % (i, exp, p))
            elif p != want:
                bad("upstream-url-is-not-the-one-from-the-own-reply", "request %d (own reply: %s) reached the origin as %r, expected %r" % (i, exp, p, want))
        for p in (cpath[i], rpath[i]):
            for a in origin.arrivals_for(p):
                xc = a.msg.get("x-client")
                if xc != str(i).encode():
                    bad("another-request-was-sent-to-this-requests-url", "client %r reached the origin as %r, which only request %d's reply can produce" % (xc, p, i))
        m = c.msg
        if m is None or m.timed_out or m.status is None:
            timeouts += 1
            inst.dirty = True
            continue
        if exp == "redirect":
            if m.status == 302 and m.get("location") != loc[i].encode():
                bad("redirect-location-is-not-the-one-from-the-own-reply", "request %d got Location %r, expected %r" % (i, m.get("location"), loc[i]))
            elif m.status != 302:
                r.label("redirect-reply-gave-status-%s" % m.status)
        elif kind == "xacl" and exp == "err":
            if m.status == 200:
                bad("request-allowed-although-its-own-reply-said-ERR", "request %d got 200" % i)
        else:
            tag = ("r%d" if exp in ("rewrite", "legacy") else "c%d") % i
            if m.status == 200 and m.get("x-tag") != tag.encode():
                bad("response-is-not-the-one-for-the-own-reply", "request %d (own reply %s) got X-Tag %r, expected %r" % (i, exp, m.get("x-tag"), tag))
            elif m.status != 200:
                r.label("status-%s-after-%s-reply" % (m.status, exp))
                if kind == "xacl" and m.status == 403 and not mine:
                    bad("request-denied-although-its-own-reply-said-OK", "request %d got 403" % i)
    if kind == "xacl" and not r.violations:
        # %un of the access-log line of a tag is the user named in its own reply
        time.sleep(0.05)
        for line in squid.access_log().splitlines():
            mm = re.search(r"/%s/(\d+)/c (\S+) " % re.escape(ns), line)
            if mm:
                i = int(mm.group(1))
                un = mm.group(2)
                if answered.get(i) == "ok" and un not in ("u%d" % i, "-"):
                    bad("logged-under-another-requests-user", "request %d logged with user %r" % (i, un))
                elif answered.get(i) == "err" and un != "-" and un != "u%d" % i:
                    bad("logged-under-another-requests-user", "denied request %d logged with user %r" % (i, un))
    if timeouts:
        r.label("client-timeouts")
        if suspect_split[0]:
            r.label("client-timeout-after-channel-id-split")
        elif not r.violations:
            r.inconclusive = "client timed out"


def _reply_text(kind, spec, base, cpath, rpath, loc, i):
    if kind == "xacl":
        return (b"OK user=u%d" % i) if spec["ok"] else b"ERR"
    k = spec["kind"]
    if k == "rewrite":
        return b"OK rewrite-url=" + (base + rpath[i]).encode()
    if k == "legacy":
        return (base + rpath[i]).encode()
    if k == "err":
        return b"ERR"
    return b"OK status=302 url=" + loc[i].encode()
