"""C46 Proxy authentication gates forwarding and never mixes identities.

Basic proxy authentication with the harness playing the auth helper (vlib.e2e.helperstub): the helper
answers OK exactly for the (user, password) pairs of a generated user table, after a generated latency per
pair (so answers overtake each other), on instances with non-concurrent (5 children) and concurrent
(1 child, 16 channels) helper protocols, credentialsttl 5 s and generated forward jumps of Squid's clock.
Generated histories: 1-4 client connections, each a sequence of requests (start offsets and gaps
generated) with no / right / wrong / case-changed / garbled credentials of 1-3 users.

Oracle (from the statement):
  * a tag reaches the origin  =>  its own Proxy-Authorization carries a (user, password) pair of the table
    (the only pairs the helper ever answers OK for; user names are fresh per scenario, so no cached verdict
    of an earlier scenario can apply);
  * every other request is answered 407 with a Proxy-Authenticate: Basic challenge;
  * the user field of the access.log line of a tag is the user named in the tag's own credentials (or -).
Timeouts are inconclusive.  A refused request with valid credentials is allowed (one-directional) and counted.
"""
import base64
import os
import re
import threading
import time
import urllib.parse

from hypothesis import strategies as st

from vlib import native
from vlib.e2e import client, helperstub, origin as originmod, squidproc
from vlib.e2e_runner import Result

MODES = {"c0": (0, 5), "c16": (16, 1)}
PASSWORDS = ["pw", "p:w:1", "p w%2", "Pw", "pw1"]
CRED_KINDS = ["right", "right", "right", "wrong", "wrong", "wrong2", "none", "upper-user", "badb64", "nocolon", "emptyuser", "emptypass", "huge", "bearer"]
KNOWN_RACE = "wrong-password-forwarded-after-ok-for-another-password-whose-lookup-was-in-flight-when-the-password-changed"
OFFSETS = [0, 0, 30, 100, 200, 300, 450]
LATENCIES = [0, 0, 20, 100, 250, 500]


def strategy(tp):
    req = st.fixed_dictionaries({
        "user": st.integers(0, 2),
        "cred": st.sampled_from(CRED_KINDS),
        "gap_ms": st.sampled_from(OFFSETS),          # before this request: after scenario start (first on a connection) / after the previous response
    })
    conn = st.lists(req, min_size=1, max_size=4)
    return st.fixed_dictionaries({
        "mode": st.sampled_from(["c0", "c16"]),
        "users": st.lists(st.sampled_from(PASSWORDS), min_size=1, max_size=3),       # right password of user k
        "conns": st.lists(conn, min_size=1, max_size=4),
        # helper latency per (user, kind of password): [right, wrong, wrong2, other]
        "latency": st.lists(st.lists(st.sampled_from(LATENCIES), min_size=4, max_size=4), min_size=3, max_size=3),
        "jumps": st.lists(st.fixed_dictionaries({"after_ms": st.sampled_from([50, 150, 350, 600]), "delta_s": st.sampled_from([3, 10])}), min_size=0, max_size=2),
    })


# ---------------------------------------------------------------------------- environment
class Instance:
    def __init__(self, env, mode):
        conc, children = MODES[mode]
        self.env = env
        self.lock = threading.Lock()
        self.table = {}          # (user bytes, password bytes) -> True: the helper answers OK
        self.delay = {}          # (user bytes, password bytes) -> seconds
        self.lookups = []        # dicts: user, password, asked, answered, verdict
        self.stub = helperstub.HelperStub("C46-w%d" % env.ctx.worker, channels=conc > 0, handler=self.on_lookup)
        conf = ("auth_param basic program %s\n"
                "auth_param basic children %d startup=%d idle=1 concurrency=%d queue-size=500\n"
                "auth_param basic casesensitive on\n"
                "auth_param basic credentialsttl 5 seconds\n"
                "auth_param basic realm verif\n"
                "acl authed proxy_auth REQUIRED\n"
                "mime_table %s\n" % (self.stub.program, children, children, conc, env.mime))
        self.clock = originmod.Clock()
        self.squid = squidproc.Squid("C46-w%d" % env.ctx.worker, conf=conf, access="http_access allow authed\nhttp_access deny all",
                                     clock=self.clock, cache_mem="8 MB")
        self.squid.start(timeout=120)
        self.offset = 0

    def on_lookup(self, q):
        toks = q.payload.split(b" ")
        user = urllib.parse.unquote_to_bytes(toks[0]) if toks else b""
        pw = urllib.parse.unquote_to_bytes(toks[1]) if len(toks) > 1 else b""
        with self.lock:
            ok = (user, pw) in self.table
            d = self.delay.get((user, pw), 0.0)
            rec = {"user": user, "password": pw, "asked": time.time(), "answered": None, "verdict": "OK" if ok else "ERR", "raw": q.payload}
            self.lookups.append(rec)

        def answer():
            rec["answered"] = time.time()
            self.stub.reply(q, b"OK" if ok else b"ERR")
        if d <= 0:
            answer()
        else:
            t = threading.Timer(d, answer)
            t.daemon = True
            t.start()
        return None

    def destroy(self):
        try:
            self.squid.destroy()
        finally:
            self.stub.stop()


class Env:
    def __init__(self, ctx):
        native.build_all()
        self.ctx = ctx
        self.origin = originmod.Origin(originmod.Clock())     # arrival times on the harness clock (never jumps)
        self.origin.default_behaviour = {"status": 200, "reason": "OK", "body_b64": "", "framing": "length", "headers": [["X-Origin", "yes"], ["Cache-Control", "no-store"]]}
        self.instances = {}
        self.n = 0
        self.mime = os.path.join(squidproc.RUN, "C46-mime-%d.conf" % os.getpid())
        os.makedirs(squidproc.RUN, exist_ok=True)
        with open(self.mime, "w") as f:
            f.write("\\.png$ image/png silk/image.png - image +download\n")
        os.chmod(self.mime, 0o644)

    def ns(self):
        self.n += 1
        return "c46w%dp%dn%d" % (self.ctx.worker, os.getpid(), self.n)

    def instance(self, mode):
        inst = self.instances.get(mode)
        if inst is None:
            inst = self.instances[mode] = Instance(self, mode)
        return inst

    def drop(self, mode):
        inst = self.instances.pop(mode, None)
        if inst:
            inst.destroy()

    def close(self):
        for m in list(self.instances):
            self.drop(m)
        self.origin.stop()
        try:
            os.unlink(self.mime)
        except OSError:
            pass


def setup(ctx):
    return Env(ctx)


def teardown(env):
    env.close()


# ---------------------------------------------------------------------------- credentials
def wrong_passwords(right):
    return [right + "x", (right[:-1] or "q") + "Z"]


def credentials(sc, ns, rq):
    """-> (Proxy-Authorization value or None, (user, password) the header names per RFC 7617 or None, latency slot)"""
    k = rq["user"] % len(sc["users"])
    user = "%s-u%d" % (ns, k)
    right = sc["users"][k]
    kind = rq["cred"]
    b64 = lambda s: "Basic " + base64.b64encode(s.encode()).decode()
    if kind == "right":
        return b64(user + ":" + right), (user, right), 0
    if kind == "wrong":
        return b64(user + ":" + wrong_passwords(right)[0]), (user, wrong_passwords(right)[0]), 1
    if kind == "wrong2":
        return b64(user + ":" + wrong_passwords(right)[1]), (user, wrong_passwords(right)[1]), 2
    if kind == "upper-user":
        return b64(user.upper() + ":" + right), (user.upper(), right), 3
    if kind == "none":
        return None, None, 3
    if kind == "badb64":
        return "Basic !!" + user + "**", None, 3
    if kind == "nocolon":
        return b64(user), None, 3
    if kind == "emptyuser":
        return b64(":" + right), ("", right), 3
    if kind == "emptypass":
        return b64(user + ":"), (user, ""), 3
    if kind == "huge":
        return b64(user + ":" + right + "y" * 2500), (user, right + "y" * 2500), 3
    return "Bearer " + user, None, 3


class ConnThread(threading.Thread):
    def __init__(self, port, plan, t0, hostport, deadline):
        super().__init__(daemon=True)
        self.port, self.plan, self.t0, self.hostport, self.deadline = port, plan, t0, hostport, deadline
        self.results = {}       # tag -> Message or None
        self.sent_at = {}
        self.error = None

    def run(self):
        c = None
        try:
            first = True
            for (tag, path, auth, gap) in self.plan:
                if first:
                    time.sleep(max(0.0, self.t0 + gap / 1000.0 - time.time()))
                else:
                    time.sleep(gap / 1000.0)
                first = False
                if time.time() > self.deadline:
                    return
                if c is None:
                    c = client.Conn(self.port, timeout=20)
                req = "GET http://%s%s HTTP/1.1\r\nHost: %s\r\n" % (self.hostport, path, self.hostport)
                if auth is not None:
                    req += "Proxy-Authorization: %s\r\n" % auth
                self.sent_at[tag] = time.time()
                c.send((req + "\r\n").encode("latin-1"))
                m = c.read_response(b"GET", timeout=max(0.1, self.deadline - time.time()))
                self.results[tag] = m
                if m is None or m.timed_out or m.status is None or not m.complete or (m.get("connection") or b"").lower() == b"close":
                    c.close()
                    c = None
                    if m is None or m.timed_out:
                        return
        except OSError as e:
            self.error = repr(e)
        finally:
            if c is not None:
                c.close()


# ---------------------------------------------------------------------------- execution
def execute(env, sc):
    r = Result()
    mode = sc["mode"]
    try:
        inst = env.instance(mode)
    except RuntimeError as e:
        r.inconclusive = "proxy did not start: %s" % str(e)[:100]
        env.instances.pop(mode, None)
        return r
    try:
        _run(env, inst, sc, r)
    finally:
        probs = inst.squid.health_problems()
        for sig, detail in probs:
            r.fail("memory-safety/liveness:" + sig, detail)
        if probs:
            env.drop(mode)
    return r


def _run(env, inst, sc, r):
    ns = env.ns()
    origin, squid = env.origin, inst.squid
    hostport = "127.0.0.1:%d" % origin.port
    r.label("mode-" + sc["mode"])
    # ---- the helper's truth for this scenario
    table, delay = {}, {}
    for k, right in enumerate(sc["users"]):
        user = "%s-u%d" % (ns, k)
        lat = sc["latency"][k]
        table[(user.encode(), right.encode())] = True
        delay[(user.encode(), right.encode())] = lat[0] / 1000.0
        w = wrong_passwords(right)
        delay[(user.encode(), w[0].encode())] = lat[1] / 1000.0
        delay[(user.encode(), w[1].encode())] = lat[2] / 1000.0
        delay[(user.upper().encode(), right.encode())] = lat[3] / 1000.0
    with inst.lock:
        inst.table = table
        inst.delay = delay
        first_lookup = len(inst.lookups)
    # ---- the plan
    reqs = {}            # tag -> dict(conn, idx, rq, auth, pair)
    plans = []
    n = 0
    for ci, conn in enumerate(sc["conns"]):
        plan = []
        for ri, rq in enumerate(conn):
            tag = "%s-c%d-r%d" % (ns, ci, ri)
            auth, pair, _slot = credentials(sc, ns, rq)
            path = "/%s" % tag
            plan.append((tag, path, auth, rq["gap_ms"]))
            reqs[tag] = {"conn": ci, "idx": ri, "rq": rq, "auth": auth, "pair": pair, "path": path}
            n += 1
        plans.append(plan)
    r.sub_evaluations = n
    t0 = time.time() + 0.05
    deadline = t0 + 12
    threads = [ConnThread(squid.ports[0], p, t0, hostport, deadline) for p in plans]
    for t in threads:
        t.start()
    for j in sorted(sc["jumps"], key=lambda j: j["after_ms"]):
        time.sleep(max(0.0, t0 + j["after_ms"] / 1000.0 - time.time()))
        inst.offset += j["delta_s"]
        squid.set_clock(inst.offset)
        r.label("clock-jump")
    for t in threads:
        t.join(max(0.1, deadline + 1 - time.time()))
    time.sleep(0.03)
    with inst.lock:
        lookups = list(inst.lookups[first_lookup:])
    # ---- non-triviality: two users interleaved on one connection, or right and wrong password of one user in flight together
    inter = any(len(set(q["user"] % len(sc["users"]) for q in conn if q["cred"] in ("right", "wrong", "wrong2"))) >= 2 for conn in sc["conns"])
    mixed = False
    for k in range(len(sc["users"])):
        kinds = set()
        conns_with = set()
        for ci, conn in enumerate(sc["conns"]):
            for q in conn:
                if q["user"] % len(sc["users"]) == k and q["cred"] in ("right", "wrong", "wrong2"):
                    kinds.add(q["cred"])
                    conns_with.add(ci)
        if "right" in kinds and len(kinds) >= 2 and len(conns_with) >= 2:
            mixed = True
    if inter:
        r.label("users-interleaved-on-one-connection")
    if mixed:
        r.label("right-and-wrong-password-of-one-user-on-different-connections")
    if inter or mixed:
        r.nontrivial = True
    # ---- judge
    log_lines = squid.access_log().splitlines()
    timeouts = 0
    everybody = set()
    for k in range(len(sc["users"])):
        everybody.add("%s-u%d" % (ns, k))
        everybody.add(("%s-u%d" % (ns, k)).upper())
    for tag, q in reqs.items():
        claimed = "%s-u%d" % (ns, q["rq"]["user"] % len(sc["users"]))
        th = threads[q["conn"]]
        arr = origin.arrivals_for(q["path"])
        pair = q["pair"]
        valid = pair is not None and (pair[0].encode(), pair[1].encode()) in table
        kind = q["rq"]["cred"]
        if arr:
            r.label("forwarded")
            if not valid:
                sig = "forwarded-without-credentials-the-helper-accepted:" + kind
                detail = "request %s (%s, credentials %r) reached the origin; the helper answers OK only for %s" % (
                    tag, kind, _short(pair), sorted((u.decode(), p.decode()) for u, p in table))
                if pair is not None and kind in ("wrong", "wrong2"):
                    # Narrow class of the recorded defect (DESIGN.md section 6 item 11): the helper was asked about this
                    # (user, wrong password) while its lookup of ANOTHER password of the same user was still in flight,
                    # that other lookup was then answered OK, and this request arrived after that OK; the helper never
                    # said OK for the wrong password itself.
                    t_arr = arr[0].time
                    u, p = pair[0].encode(), pair[1].encode()
                    own = [l for l in lookups if l["user"] == u and l["password"] == p]
                    never_ok = not any(l["verdict"] == "OK" for l in own)
                    hit = None
                    slack = 0.005
                    sent = {}            # (user, password) -> client-side send times of the requests carrying that pair
                    for tg, qq in reqs.items():
                        if qq["pair"] is not None and tg in threads[qq["conn"]].sent_at:
                            sent.setdefault((qq["pair"][0].encode(), qq["pair"][1].encode()), []).append(threads[qq["conn"]].sent_at[tg])
                    for l1 in lookups:
                        if l1["user"] == u and l1["password"] != p and l1["verdict"] == "OK" and l1["answered"] is not None and l1["answered"] <= t_arr:
                            started = min(sent.get((u, l1["password"]), [l1["asked"]]))      # the lookup cannot have started before its first request was sent
                            for ts in sent.get((u, p), []):
                                if started - slack <= ts <= l1["answered"] + slack:
                                    hit = (l1, ts, started)
                    if hit and never_ok:
                        l1, ts, started = hit
                        sig = KNOWN_RACE
                        pend = [l for l in own if l["asked"] <= t_arr and (l["answered"] is None or l["answered"] > t_arr)]
                        detail += ("; a request with this wrong password was sent %.0f ms after the first request with password %r of the same user, the helper answered OK for that "
                                   "password %.0f ms later, and the wrong-password request reached the origin %.0f ms after that OK (helper lookups of the wrong password so far: %d, unanswered at the arrival: %d)" % (
                                       (ts - started) * 1000, l1["password"].decode(), (l1["answered"] - ts) * 1000, (t_arr - l1["answered"]) * 1000, len([l for l in own if l["asked"] <= t_arr]), len(pend)))
                r.fail(sig, detail)
        m = th.results.get(tag)
        if m is None or m.timed_out or m.status is None:
            if tag in th.sent_at:
                timeouts += 1
            else:
                r.label("not-sent")
            continue
        if not arr:
            if valid:
                r.label("valid-credentials-refused")
            else:
                r.label("refused:" + kind)
            if m.status != 407 or not any(v.lower().startswith(b"basic") for v in m.get_all("proxy-authenticate")):
                if valid and m.status != 407:
                    r.label("valid-credentials-status-%s" % m.status)
                elif not valid:
                    r.fail("refused-request-not-answered-with-407-challenge:" + kind, "request %s (%s): status %s, Proxy-Authenticate %r, X-Squid-Error %r" % (
                        tag, kind, m.status, m.get_all("proxy-authenticate"), m.get("x-squid-error")))
        elif m.status == 200 and m.get("x-origin") != b"yes":
            r.fail("forwarded-request-not-answered-by-origin", tag)
        # ---- access.log identity
        for line in log_lines:
            mm = re.search(r" http://%s%s (\S+) " % (re.escape(hostport), re.escape(q["path"])), line)
            if mm:
                un = urllib.parse.unquote(mm.group(1))
                # the identity a request may be logged under: the user its own header names (for credentials
                # without a colon the whole text is the user name); judged against the other identities of this history
                own = pair[0] if pair is not None else (claimed if kind == "nocolon" else None)
                if un != "-" and un != own and un in everybody:
                    r.fail("logged-under-another-identity", "request %s (credentials %r) is logged with user %r: %s" % (tag, _short(pair), un, line[:200]))
    if timeouts:
        r.label("client-timeouts")
        if not r.violations:
            r.inconclusive = "client timed out"
    if lookups:
        r.label("helper-asked")
    if any(l["answered"] is not None and any(o["asked"] > l["asked"] and o["answered"] is not None and o["answered"] < l["answered"] for o in lookups) for l in lookups):
        r.label("helper-answers-overtook")


def _short(pair):
    if pair is None:
        return None
    return (pair[0], pair[1] if len(pair[1]) < 40 else pair[1][:20] + "...(%d bytes)" % len(pair[1]))
