// C59 Timed events fire in order and never after cancellation.
// Domain : sequences of schedule(tag, delay in {0, equal, distinct, fractional}, weight in {0,1}, optional
//          re-schedule from inside the handler), cancel(tag), cancel-all(handler), find(tag) and
//          "advance the clock by d, then checkEvents() + drain the AsyncCallQueue until nothing is due" on
//          one EventScheduler (the way src/tests/testEvent.cc drives it; current_dtime is set by the harness).
// Oracle : model = list of pending events kept stable-sorted by due time (due = time of scheduling + delay).
//          Every handler invocation must be the model's first pending event, and that event must be due;
//          after a drain no due event may be left; a cancelled event never fires; after every cancel,
//          find() must still see every other scheduled event (and no longer the cancelled one).
//
// Caller preconditions / choices (counted by label when a generated command is skipped):
//  * cancel(func, arg) with a non-null arg is only issued for an event that is scheduled
//    (EventScheduler::cancel() calls debug_trap() otherwise) and only when that (func,arg) pair is
//    scheduled exactly once (which of two identical registrations goes away is left open);
//  * events are scheduled with cbdata=false (plain pointers), like testEvent does;
//  * delay-0 events get the due time "immediately"; how they order against events that are already overdue
//    is left open by the statement, so the clock never advances without a drain and a handler re-schedules
//    with delay 0 only when no overdue event is waiting.
#include "squid.h"
#include "base/AsyncCallQueue.h"
#include "event.h"
#include "mem/forward.h"
#include "time/gadgets.h"

#include "verif_pbt.h"
#include "vp_seq.h"

extern "C" const char *__asan_default_options() { return "quarantine_size_mb=16:malloc_context_size=6"; }

static const int NTags = 6;   // (handler, argument) pairs
static const int NFuncs = 3;  // distinct handler functions; tag t uses handler t % NFuncs

struct Cmd {
    std::string op; // sched cancel cancelAll find run
    int tag = 0;
    long long delayMs = 0; // sched: delay; run: clock advance (milliseconds, so that the text form is exact)
    int weight = 0;
    long long resched = -1; // sched: >= 0: the handler schedules the same tag again with this delay (ms)
};
struct Case { std::vector<Cmd> cmds; };

static std::string show(const Case &c)
{
    vp::Writer w;
    for (const auto &m : c.cmds)
        w.s(m.op, std::to_string(m.tag) + " " + std::to_string(m.delayMs) + " " + std::to_string(m.weight) + " " + std::to_string(m.resched));
    return w.str();
}
static Case parse(const std::string &t)
{
    vp::Reader r(t);
    Case c;
    for (const auto &kv : r.ordered()) {
        if (kv.first == "prop") continue;
        std::istringstream is(kv.second);
        Cmd m;
        m.op = kv.first;
        is >> m.tag >> m.delayMs >> m.weight >> m.resched;
        c.cmds.push_back(m);
    }
    return c;
}

static long long delayOf(vp::Dice &d)
{
    switch (d.weighted({3, 4, 2, 2})) {
    case 0: return 0;
    case 1: return d.pick<long long>({1000, 1000, 2000, 2000, 3000});       // equal due times are common
    case 2: return d.pick<long long>({100, 250, 300, 500, 700, 1500, 2500}); // fractional seconds
    default: return d.range(1, 5000);
    }
}

static Case decode(vp::Dice &d)
{
    Case c;
    while (d.more() && c.cmds.size() < 40) {
        Cmd m;
        switch (d.weighted({10, 3, 1, 2, 5})) {
        case 0:
            m.op = "sched"; m.tag = static_cast<int>(d.range(0, NTags - 1)); m.delayMs = delayOf(d);
            m.weight = d.chance(1, 3) ? 1 : 0;
            m.resched = d.chance(1, 6) ? delayOf(d) : -1;
            break;
        case 1: m.op = "cancel"; m.tag = static_cast<int>(d.range(0, NTags - 1)); break;
        case 2: m.op = "cancelAll"; m.tag = static_cast<int>(d.range(0, NFuncs - 1)); break;
        case 3: m.op = "find"; m.tag = static_cast<int>(d.range(0, NTags - 1)); break;
        default: m.op = "run"; m.delayMs = d.pick<long long>({0, 100, 500, 1000, 1000, 2000, 2500, 700, 10000}); break;
        }
        c.cmds.push_back(m);
    }
    return c;
}

// ------------------------------------------------------------------ world shared with the handlers

namespace {
struct Pending { int tag; double due; int weight; long long resched; bool zeroDelay; };

struct World;
struct Slot { World *world; int tag; };

struct World {
    EventScheduler sched;
    std::vector<Pending> model; // stable-sorted by due
    Slot slots[NTags];
    double now = 1000.0;
    int fired = 0;
    bool flushing = false; // final flush: handlers stop re-scheduling so that the queue runs empty
    int equalDuePairs = 0;
    double lastDue = -1;
    bool lastDueValid = false;
    std::string failSig, failDetail;

    void fail(const std::string &sig, const std::string &detail) { if (failSig.empty()) { failSig = sig; failDetail = detail; } }
    int pendingOf(int tag) const { int n = 0; for (const auto &p : model) n += p.tag == tag; return n; }
    void insert(const Pending &p)
    {
        // after the last event with the same or an earlier due time
        size_t i = model.size();
        while (i > 0 && model[i - 1].due > p.due) --i;
        model.insert(model.begin() + i, p);
    }
    void schedule(int tag, long long delayMs, int weight, long long resched);
    void onFire(int tag);
};

template <int F> void Handler(void *data)
{
    Slot *s = static_cast<Slot *>(data);
    if (s->tag % NFuncs != F) s->world->fail("event:handler-got-foreign-argument", "handler " + std::to_string(F) + " tag " + std::to_string(s->tag));
    s->world->onFire(s->tag);
}
static EVH *const Handlers[NFuncs] = {Handler<0>, Handler<1>, Handler<2>};
static const char *const Names[NTags] = {"ev0", "ev1", "ev2", "ev3", "ev4", "ev5"};

void World::schedule(int tag, long long delayMs, int weight, long long resched)
{
    const double when = delayMs / 1000.0;
    sched.schedule(Names[tag], Handlers[tag % NFuncs], &slots[tag], when, weight, false);
    Pending p;
    p.tag = tag;
    p.zeroDelay = !(when > 0.0);
    p.due = p.zeroDelay ? 0.0 : now + when; // "immediately" sorts before everything that is not yet due
    p.weight = weight;
    p.resched = resched;
    insert(p);
}

void World::onFire(int tag)
{
    ++fired;
    if (model.empty() || pendingOf(tag) == 0) {
        fail("event:cancelled-or-unscheduled-event-fired", "tag " + std::to_string(tag) + " fired with no such event scheduled");
        return;
    }
    const Pending front = model.front();
    if (front.tag != tag) {
        // which rule is broken?
        size_t i = 0;
        while (i < model.size() && model[i].tag != tag) ++i;
        const bool sameDue = model[i].due == front.due;
        fail(sameDue ? "event:equal-due-times-fired-out-of-scheduling-order" : "event:fired-out-of-due-time-order",
             "tag " + std::to_string(tag) + " (due " + std::to_string(model[i].due) + ") fired before tag " + std::to_string(front.tag) + " (due " + std::to_string(front.due) + ")");
        model.erase(model.begin() + i);
        return;
    }
    if (front.due > now) {
        fail("event:fired-before-due-time", "tag " + std::to_string(tag) + " due " + std::to_string(front.due) + " fired at " + std::to_string(now));
    }
    if (lastDueValid && lastDue == front.due && !front.zeroDelay) ++equalDuePairs;
    lastDue = front.due; lastDueValid = true;
    model.erase(model.begin());
    if (front.resched >= 0 && !flushing) {
        // delay 0 vs already overdue events: order left open -> only when none is waiting
        bool overdueWaiting = false;
        for (const auto &p : model) overdueWaiting |= !p.zeroDelay && p.due <= now;
        if (front.resched > 0 || !overdueWaiting) schedule(tag, front.resched, front.weight, -1);
    }
}
} // namespace

static vp::Verdict check(const Case &c, vp::Ctx &ctx)
{
    current_dtime = 1000.0; // reset the globals every case
    squid_curtime = 1000;
    World w;
    for (int i = 0; i < NTags; ++i) { w.slots[i].world = &w; w.slots[i].tag = i; }
    std::set<std::string> labels;
    bool cancelWithOthers = false;
    int step = 0;

    auto findAgrees = [&](const std::string &where) -> std::string {
        for (int t = 0; t < NTags; ++t) {
            const bool got = w.sched.find(Handlers[t % NFuncs], &w.slots[t]);
            if (got != (w.pendingOf(t) > 0))
                return where + ": tag " + std::to_string(t) + (got ? " still scheduled although cancelled/fired" : " no longer scheduled although it was neither cancelled nor fired");
        }
        return std::string();
    };

    auto drain = [&](const std::string &where) -> vp::Verdict {
        w.lastDueValid = false;
        for (int guard = 0; guard < 500; ++guard) {
            const int before = w.fired;
            const int r = w.sched.checkEvents(0);
            AsyncCallQueue::Instance().fire();
            if (!w.failSig.empty()) return vp::fail(w.failSig, where + ": " + w.failDetail);
            if (w.fired == before && r != 0) {
                // nothing was dispatched: nothing may be due
                for (const auto &p : w.model)
                    if (p.zeroDelay || p.due <= w.now) return vp::fail("event:due-event-not-fired", where + ": tag " + std::to_string(p.tag) + " due " + std::to_string(p.due) + " now " + std::to_string(w.now));
                if ((r == AsyncEngine::EVENT_IDLE) != w.model.empty())
                    return vp::fail("event:idle-answer-disagrees-with-pending-events", where + " checkEvents=" + std::to_string(r) + " pending=" + std::to_string(w.model.size()));
                return vp::pass();
            }
        }
        return vp::fail("event:drain-does-not-terminate", where);
    };

    for (const auto &cmd : c.cmds) {
        ++step;
        const std::string where = cmd.op + " step " + std::to_string(step);
        const int tag = ((cmd.tag % NTags) + NTags) % NTags;
        if (cmd.op == "sched") {
            w.schedule(tag, std::max<long long>(0, cmd.delayMs), cmd.weight ? 1 : 0, cmd.resched);
            labels.insert(cmd.delayMs <= 0 ? "sched:delay-0" : "sched:timed");
            if (cmd.weight) labels.insert("sched:heavy");
            if (cmd.resched >= 0) labels.insert("sched:handler-reschedules");
            if (w.pendingOf(tag) > 1) labels.insert("sched:same-pair-twice");
        } else if (cmd.op == "cancel") {
            const int n = w.pendingOf(tag);
            if (n == 0) { labels.insert("cancel:skipped-not-scheduled"); continue; }
            if (n > 1) { labels.insert("cancel:skipped-ambiguous-duplicate"); continue; }
            w.sched.cancel(Handlers[tag % NFuncs], &w.slots[tag]);
            for (size_t i = 0; i < w.model.size(); ++i) if (w.model[i].tag == tag) { w.model.erase(w.model.begin() + i); break; }
            labels.insert("cancel:one");
            if (!w.model.empty()) { cancelWithOthers = true; labels.insert("cancel:others-pending"); }
            const std::string bad = findAgrees(where);
            if (!bad.empty()) return vp::fail("event:cancel-disturbed-the-schedule", bad);
        } else if (cmd.op == "cancelAll") {
            const int f = tag % NFuncs;
            int n = 0;
            for (size_t i = w.model.size(); i-- > 0;) if (w.model[i].tag % NFuncs == f) { w.model.erase(w.model.begin() + i); ++n; }
            w.sched.cancel(Handlers[f], nullptr);
            labels.insert(n > 1 ? "cancelAll:several" : n == 1 ? "cancelAll:one" : "cancelAll:none");
            if (n && !w.model.empty()) cancelWithOthers = true;
            // classify: an event of the cancelled handler that is still there, or damage to other events?
            for (int t = 0; t < NTags; ++t)
                if (t % NFuncs == f && w.sched.find(Handlers[f], &w.slots[t]))
                    return vp::fail("event:cancel-all-leaves-matching-event-scheduled", where + ": tag " + std::to_string(t) + " of the cancelled handler is still scheduled (" + std::to_string(n) + " were scheduled)");
            const std::string bad = findAgrees(where);
            if (!bad.empty()) return vp::fail("event:cancel-disturbed-the-schedule", bad);
        } else if (cmd.op == "find") {
            const std::string bad = findAgrees(where);
            if (!bad.empty()) return vp::fail("event:find-disagrees-with-schedule", bad);
        } else if (cmd.op == "run") {
            w.now += std::max<long long>(0, cmd.delayMs) / 1000.0;
            current_dtime = w.now;
            squid_curtime = static_cast<time_t>(w.now);
            const vp::Verdict v = drain(where);
            if (!v.ok) return v;
            labels.insert("run");
        }
    }
    // flush: everything still scheduled fires, in order
    w.now += 100000.0;
    w.flushing = true;
    current_dtime = w.now;
    const vp::Verdict v = drain("final flush");
    if (!v.ok) return v;
    if (!w.model.empty()) return vp::fail("event:due-event-not-fired", "final flush left " + std::to_string(w.model.size()) + " events");
    current_dtime = 0;
    squid_curtime = 0;
    for (const auto &l : labels) ctx.label(l);
    if (w.equalDuePairs) ctx.label("equal-due-pair-fired");
    if (w.fired >= 3) ctx.label("three-or-more-fired");
    if (w.equalDuePairs || cancelWithOthers) ctx.nontrivial();
    return vp::pass();
}

static void registerAll()
{
    vp::guardExit();
    Mem::Init();
    vp::add<Case>("event_queue_model", vp::fromEntropy<Case>(decode, 1.5), check, show, parse, 1.0, vp::fuzzFromEntropy<Case>(decode));
}

VP_MAIN(registerAll)
