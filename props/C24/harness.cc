// C24 Chunked decoding is exact and rejects malformed framing.
// Domain : bodies 0..70 KB, valid chunkings (hex case, leading zeros, extensions with BWS, quoted strings,
//          trailers), mutated encodings (0x, non-hex, >63 bit sizes, CRLF damage, bad extensions, wrong
//          sizes, byte noise, truncation), random input segmentation, output buffers with little space.
// Driving: exactly as the callers do (src/http.cc HttpStateData::decodeAndWriteReplyBody: fresh MemBuf per
//          call; src/client_side.cc ConnStateData::handleChunkedRequestBody / ICAP ModXact::parseBody:
//          one 64 KB BodyPipe buffer that a consumer drains between calls):
//              inBuf += segment; done = parser.parse(inBuf); inBuf = parser.remaining();
// Oracle : a reference decoder written from RFC 9112 section 7.1 (chunk-size = 1*HEXDIG, chunk-ext with
//          BWS, token / quoted-string values, trailer-section) classifies every delivered prefix as
//          COMPLETE(body, consumed) | INCOMPLETE(body so far) | MALFORMED(listed reason) | UNJUDGED
//          (syntax the statement leaves open: Squid's documented whitespace tolerances, odd trailers).
#include "squid.h"
#include "base/TextException.h"
#include "http/one/TeChunkedParser.h"
#include "MemBuf.h"
#include "parser/Tokenizer.h"
#include "sbuf/SBuf.h"
#include "SquidConfig.h"

#include "verif_pbt.h"

#include <climits>

// the big (64 KB) buffers of this harness would otherwise keep ASan's 256 MB quarantine churning
extern "C" const char *__asan_default_options() { return "quarantine_size_mb=32"; }

// ------------------------------------------------------------------ reference decoder

static bool isHexC(unsigned char c) { return (c >= '0' && c <= '9') || (c >= 'a' && c <= 'f') || (c >= 'A' && c <= 'F'); }
static bool isTchar(unsigned char c)
{
    if ((c >= '0' && c <= '9') || (c >= 'a' && c <= 'z') || (c >= 'A' && c <= 'Z')) return true;
    return c && strchr("!#$%&'*+-.^_`|~", c) != nullptr;
}
static bool isQdtext(unsigned char c) { return c == '\t' || c == ' ' || c == 0x21 || (c >= 0x23 && c <= 0x5B) || (c >= 0x5D && c <= 0x7E) || c >= 0x80; }
static bool isQpairChar(unsigned char c) { return c == '\t' || c == ' ' || (c >= 0x21 && c <= 0x7E) || c >= 0x80; }
static bool isFieldChar(unsigned char c) { return c == '\t' || c == ' ' || (c >= 0x21 && c <= 0x7E) || c >= 0x80; }

enum RefKind { R_COMPLETE, R_INCOMPLETE, R_MALFORMED, R_UNJUDGED };

struct RefResult {
    RefKind kind = R_INCOMPLETE;
    std::string body;       ///< decoded bytes up to pos
    size_t pos = 0;         ///< COMPLETE: encoded length; MALFORMED/UNJUDGED: offending offset
    const char *why = "";
    int dataChunks = 0;     ///< completed non-last chunks
    bool bigChunk = false;  ///< saw a chunk >= 64 KB
    bool sawQuoted = false, sawExt = false, sawTrailer = false, sawLeadingZeros = false;
    std::vector<std::pair<size_t, size_t>> meta; ///< [start,end) of size lines (digits..LF) and data CRLFs
};

/// Decodes `in` as far as it goes.  INCOMPLETE is returned only when some continuation is a valid encoding.
static RefResult refDecode(const std::string &in, const bool relaxed)
{
    RefResult r;
    size_t i = 0;
    const size_t n = in.size();
    auto stop = [&](RefKind k, const char *why) -> RefResult & { r.kind = k; r.pos = i; r.why = why; return r; };
    // whitespace that only a tolerant parser takes (RFC 9112 section 3: VT, FF, bare CR)
    auto tolerantWs = [&](const char *why) -> RefResult & { return relaxed ? stop(R_UNJUDGED, "relaxed-whitespace-in-chunk-ext") : stop(R_MALFORMED, why); };

    // CR where a chunk-ext-name or chunk-ext-val has to start: "CRLF" means the name/value is missing; a bare
    // CR is whitespace for a tolerant parser only
    auto crWhereTextMustStart = [&](const char *why) -> RefResult & {
        if (i + 1 < n && in[i + 1] == '\n') return stop(R_MALFORMED, why);
        return tolerantWs(why);
    };

    for (;;) {
        // chunk-size = 1*HEXDIG
        const size_t lineStart = i;
        if (i >= n) return stop(R_INCOMPLETE, "");
        if (!isHexC(in[i])) return stop(R_MALFORMED, "size-not-hex");
        unsigned __int128 v = 0;
        bool over = false;
        while (i < n && isHexC(in[i])) {
            const unsigned char c = in[i];
            v = v * 16 + (c <= '9' ? c - '0' : (c | 0x20) - 'a' + 10);
            if (v > static_cast<unsigned __int128>(INT64_MAX)) { over = true; v = static_cast<unsigned __int128>(INT64_MAX) + 1; }
            ++i;
        }
        if (over) { i = lineStart; return stop(R_MALFORMED, "size-over-63-bits"); }
        if (i - lineStart > 1 && in[lineStart] == '0' && v != 0) r.sawLeadingZeros = true;
        if (i >= n) return stop(R_INCOMPLETE, "");
        if (in[i] == 'x' || in[i] == 'X')
            return stop(R_MALFORMED, (i - lineStart == 1 && in[lineStart] == '0') ? "size-0x-prefix" : "size-not-hex");

        // [chunk-ext] CRLF ; chunk-ext = *( BWS ";" BWS chunk-ext-name [ BWS "=" BWS chunk-ext-val ] )
        bool canEq = false;
        for (;;) {
            bool sawBws = false;
            while (i < n && (in[i] == ' ' || in[i] == '\t')) { ++i; sawBws = true; }
            if (i >= n) return stop(R_INCOMPLETE, "");
            const unsigned char c = in[i];
            // BWS is only allowed before ";" and around "=".  Squid's Bug 4492 tolerance (SP between chunk-size
            // and CRLF) is outside the RFC grammar: left open, whatever follows the CR
            if (c == '\r' && sawBws) return stop(R_UNJUDGED, "bws-before-crlf");
            if (c == '\r') {
                if (i + 1 >= n) return stop(R_INCOMPLETE, "");
                if (in[i + 1] != '\n') return tolerantWs("line-bare-cr");
                i += 2;
                break;
            }
            if (c == '\n') return stop(R_MALFORMED, "line-lf-only");
            if (c == 0x0B || c == 0x0C) return tolerantWs("ext-garbage");
            if (c == ';') {
                r.sawExt = true;
                ++i;
                while (i < n && (in[i] == ' ' || in[i] == '\t')) ++i;
                if (i >= n) return stop(R_INCOMPLETE, "");
                if (in[i] == 0x0B || in[i] == 0x0C) return tolerantWs("ext-bad-name");
                if (in[i] == '\r') return crWhereTextMustStart("ext-bad-name");
                if (!isTchar(in[i])) return stop(R_MALFORMED, "ext-bad-name");
                while (i < n && isTchar(in[i])) ++i;
                if (i >= n) return stop(R_INCOMPLETE, "");
                canEq = true;
                continue;
            }
            if (c == '=' && canEq) {
                canEq = false;
                ++i;
                while (i < n && (in[i] == ' ' || in[i] == '\t')) ++i;
                if (i >= n) return stop(R_INCOMPLETE, "");
                if (in[i] == 0x0B || in[i] == 0x0C) return tolerantWs("ext-bad-value");
                if (in[i] == '\r') return crWhereTextMustStart("ext-bad-value");
                if (in[i] == '"') {
                    r.sawQuoted = true;
                    ++i;
                    for (;;) {
                        if (i >= n) return stop(R_INCOMPLETE, "");
                        const unsigned char q = in[i];
                        if (q == '"') { ++i; break; }
                        if (q == '\\') {
                            if (i + 1 >= n) return stop(R_INCOMPLETE, "");
                            if (!isQpairChar(in[i + 1])) return stop(R_MALFORMED, "ext-bad-quoted-pair");
                            i += 2;
                        } else if (isQdtext(q)) {
                            ++i;
                        } else
                            return stop(R_MALFORMED, "ext-bad-qdtext");
                    }
                } else {
                    if (!isTchar(in[i])) return stop(R_MALFORMED, "ext-bad-value");
                    while (i < n && isTchar(in[i])) ++i;
                    if (i >= n) return stop(R_INCOMPLETE, "");
                }
                continue;
            }
            return stop(R_MALFORMED, "ext-garbage");
        }
        r.meta.emplace_back(lineStart, i);

        if (v == 0) {
            // trailer-section = *( field-line CRLF ), then CRLF.  Anything unusual in trailers is left open.
            bool first = true;
            for (;;) {
                if (i >= n) return stop(R_INCOMPLETE, "");
                if (in[i] == '\r') {
                    if (i + 1 >= n) return stop(R_INCOMPLETE, "");
                    if (in[i + 1] != '\n') return stop(R_UNJUDGED, "trailer-odd");
                    i += 2;
                    return stop(R_COMPLETE, "");
                }
                if (in[i] == ' ' || in[i] == '\t') {
                    if (first) return stop(R_UNJUDGED, "trailer-odd");
                    // obs-fold continuation line
                } else {
                    if (!isTchar(in[i])) return stop(R_UNJUDGED, "trailer-odd");
                    while (i < n && isTchar(in[i])) ++i;
                    if (i >= n) return stop(R_INCOMPLETE, "");
                    if (in[i] != ':') return stop(R_UNJUDGED, "trailer-odd");
                    ++i;
                }
                r.sawTrailer = true;
                first = false;
                while (i < n && isFieldChar(in[i])) ++i;
                if (i >= n) return stop(R_INCOMPLETE, "");
                if (in[i] != '\r') return stop(R_UNJUDGED, "trailer-odd");
                if (i + 1 >= n) return stop(R_INCOMPLETE, "");
                if (in[i + 1] != '\n') return stop(R_UNJUDGED, "trailer-odd");
                i += 2;
            }
        }

        // chunk-data CRLF
        const uint64_t size = static_cast<uint64_t>(v);
        if (size >= 65536) r.bigChunk = true;
        if (n - i < size) {
            r.body.append(in, i, n - i);
            i = n;
            return stop(R_INCOMPLETE, "");
        }
        r.body.append(in, i, size);
        i += size;
        const size_t crlfStart = i;
        if (i >= n) return stop(R_INCOMPLETE, "");
        if (in[i] != '\r') return stop(R_MALFORMED, "data-not-followed-by-crlf");
        if (i + 1 >= n) return stop(R_INCOMPLETE, "");
        if (in[i + 1] != '\n') return stop(R_MALFORMED, "data-not-followed-by-crlf");
        i += 2;
        r.meta.emplace_back(crlfStart, i);
        ++r.dataChunks;
    }
}

// ------------------------------------------------------------------ case

struct Case {
    int relaxed = 0;
    int driver = 0;            ///< 0: http.cc (fresh MemBuf per call); 1: BodyPipe (one 64 KB buffer, consumer drains)
    int pipeCap = 65536;       ///< driver 1: max capacity of the pipe buffer (BodyPipe::MaxCapacity = 64 KB)
    int prefill = 0;           ///< driver 1: bytes already waiting in the pipe buffer (0..pipeCap-2)
    int kind = 0;              ///< 0: valid by construction; 1: mutated; 2: raw bytes (fuzzer)
    long long encLen = 0;      ///< kind 0: length of the encoding at the start of input
    int bytewise = 0;          ///< deliver one byte per segment
    std::string input;         ///< the encoding followed by whatever comes next on the connection
    std::string body;          ///< kind 0: the encoded body
    std::vector<long long> splits; ///< segment lengths (the last segment takes the rest)
    std::vector<long long> drains; ///< consumer behaviour: bytes taken from the pipe after each call (-1 = all)
};

static std::string show(const Case &c)
{
    vp::Writer w;
    w.i("relaxed", c.relaxed).i("driver", c.driver).i("pipeCap", c.pipeCap).i("prefill", c.prefill).i("kind", c.kind).i("encLen", c.encLen).i("bytewise", c.bytewise);
    w.s("input", c.input);
    if (c.kind == 0) w.s("body", c.body);
    for (auto s : c.splits) w.i("split", s);
    for (auto d : c.drains) w.i("drain", d);
    return w.str();
}

static Case parse(const std::string &t)
{
    vp::Reader r(t);
    Case c;
    c.relaxed = r.i("relaxed"); c.driver = r.i("driver"); c.prefill = r.i("prefill"); if (r.has("pipeCap")) c.pipeCap = r.i("pipeCap"); c.kind = r.i("kind");
    c.encLen = r.i("encLen"); c.bytewise = r.i("bytewise");
    c.input = r.s("input"); c.body = r.s("body");
    for (size_t k = 0; k < r.count("split"); ++k) c.splits.push_back(r.i("split", k));
    for (size_t k = 0; k < r.count("drain"); ++k) c.drains.push_back(r.i("drain", k));
    return c;
}

// ------------------------------------------------------------------ the check

static bool startsWith(const std::string &s, const std::string &p) { return s.size() >= p.size() && s.compare(0, p.size(), p) == 0; }

static const int PipeCapacity = 64 * 1024; // BodyPipe::MaxCapacity

static vp::Verdict check(const Case &c, vp::Ctx &ctx)
{
    Config.onoff.relaxed_header_parser = c.relaxed;

    const std::string &in = c.input;
    const RefResult full = refDecode(in, c.relaxed != 0);

    // segment boundaries
    std::vector<size_t> cuts; // cumulative delivered counts
    if (c.bytewise && in.size() <= 4096) {
        for (size_t k = 1; k <= in.size(); ++k) cuts.push_back(k);
    } else {
        size_t at = 0;
        for (auto s : c.splits) {
            if (s < 0) continue;
            at = std::min(in.size(), at + static_cast<size_t>(s));
            cuts.push_back(at);
            if (at == in.size()) break;
        }
        if (cuts.empty() || cuts.back() != in.size()) cuts.push_back(in.size());
    }

    bool splitInMeta = false;
    for (const size_t cut : cuts)
        for (const auto &m : full.meta)
            if (cut > m.first && cut < m.second) splitInMeta = true;

    // labels on the whole stream
    switch (full.kind) {
    case R_COMPLETE: ctx.label("ref:complete"); break;
    case R_INCOMPLETE: ctx.label("ref:incomplete"); break;
    case R_MALFORMED: ctx.label(std::string("ref:malformed:") + full.why); ctx.label("ref:malformed"); break;
    case R_UNJUDGED: ctx.label(std::string("ref:unjudged:") + full.why); ctx.excluded(std::string("left open: ") + full.why); break;
    }
    ctx.label(c.kind == 0 ? "kind:valid" : c.kind == 1 ? "kind:mutated" : "kind:raw");
    if (splitInMeta) ctx.label("split-inside-size-line-or-crlf");
    if (full.dataChunks >= 3) ctx.label("chunks>=3");
    if (full.bigChunk) ctx.label("chunk>=64K");
    if (full.sawQuoted) ctx.label("ext-quoted-string");
    if (full.sawExt) ctx.label("ext");
    if (full.sawTrailer) ctx.label("trailers");
    if (full.sawLeadingZeros) ctx.label("size-leading-zeros");
    if (c.relaxed) ctx.label("relaxed");
    ctx.label(c.driver ? "driver:bodypipe" : "driver:http");

    if (c.kind == 0) {
        // the generator's own knowledge must agree with the reference decoder (harness self-check)
        if (full.kind != R_COMPLETE || full.pos != static_cast<size_t>(c.encLen) || full.body != c.body)
            return vp::fail("harness:reference-disagrees-with-encoder", std::string("ref kind ") + std::to_string(full.kind) + " why " + full.why + " pos " + std::to_string(full.pos));
    }

    Http1::TeChunkedParser parser;
    MemBuf pipe;
    long long junkLeft = 0, junkSeen = 0; // earlier output still waiting at the front of the pipe / already taken
    bool junkDamaged = false;
    auto junkAt = [](long long k) { return static_cast<char>('A' + k % 23); };
    if (c.driver == 1) {
        const int cap = std::max(2, std::min(c.pipeCap, PipeCapacity));
        pipe.init(std::min(2 * 1024, cap), cap); // BodyPipe::BodyPipe: init(2 KB, 64 KB)
        const int pre = std::max(0, std::min(c.prefill, cap - 2));
        if (pre) {
            char *sp = pipe.space(pre);
            for (int k = 0; k < pre; ++k) sp[k] = junkAt(k);
            pipe.appended(pre);
        }
        junkLeft = pre;
    }
    std::string collected; // the decoded bytes the consumer got
    auto drainPipe = [&](long long want) {
        const long long have = pipe.contentSize();
        const long long k = want < 0 ? have : std::min(want, have);
        if (k <= 0) return;
        const long long j = std::min(k, junkLeft);
        for (long long x = 0; x < j; ++x) if (pipe.content()[x] != junkAt(junkSeen + x)) junkDamaged = true;
        junkSeen += j;
        junkLeft -= j;
        collected.append(pipe.content() + j, static_cast<size_t>(k - j));
        pipe.consume(static_cast<mb_size_t>(k));
    };

    SBuf inBuf;
    size_t delivered = 0;
    size_t drainIdx = 0;
    int stalls = 0;
    bool done = false, threw = false;
    std::string what;
    vp::Verdict verdict = vp::pass();
    bool failed = false;
    auto failWith = [&](const std::string &sig, const std::string &detail) { if (!failed) { failed = true; verdict = vp::fail(sig, detail); } };

    for (size_t seg = 0; seg < cuts.size() && !done && !threw && !failed; ++seg) {
        const size_t upto = cuts[seg];
        if (upto > delivered) inBuf.append(in.data() + delivered, upto - delivered);
        delivered = upto;
        const std::string D = in.substr(0, delivered);
        const RefResult ref = delivered == in.size() ? full : refDecode(D, c.relaxed != 0);

        int spins = 0;
        for (;;) {
            if (c.driver == 1 && inBuf.isEmpty()) break; // handleChunkedRequestBody: nothing to do
            const size_t beforeLen = inBuf.length();
            bool parsed = false, needData = false, needSpace = false, outEmpty = false;
            try {
                if (c.driver == 0) {
                    MemBuf decoded;
                    decoded.init();
                    parser.setPayloadBuffer(&decoded);
                    parsed = parser.parse(inBuf);
                    inBuf = parser.remaining();
                    collected.append(decoded.content(), decoded.contentSize());
                    needData = parser.needsMoreData();
                    needSpace = beforeLen && parser.needsMoreSpace();
                    outEmpty = !decoded.hasContent();
                } else {
                    parser.setPayloadBuffer(&pipe);
                    parsed = parser.parse(inBuf);
                    inBuf = parser.remaining();
                    needData = parser.needsMoreData();
                    needSpace = parser.needsMoreSpace();
                    outEmpty = !pipe.hasContent();
                }
            } catch (const Parser::InsufficientInput &) {
                threw = true;
                what = "InsufficientInput";
            } catch (const std::exception &e) {
                threw = true;
                what = e.what();
            }
            if (threw) break;

            if (inBuf.length() > beforeLen) {
                failWith("remaining-is-not-a-suffix-of-the-input", "before " + std::to_string(beforeLen) + " after " + std::to_string(inBuf.length()));
                break;
            }
            if (parsed) { done = true; break; }
            if (beforeLen && !needData && !needSpace) { failWith("parse-false-but-needs-neither-data-nor-space", ""); break; }
            if (needSpace && outEmpty) { failWith("needs-space-with-empty-output-buffer", ""); break; }
            if (c.driver == 0) {
                if (needSpace) { failWith("needs-space-with-2GB-buffer", ""); }
                break;
            }
            if (!needSpace) {
                // the consumer may take something while we wait for more input
                const long long d = c.drains.empty() ? -1 : c.drains[drainIdx++ % c.drains.size()];
                drainPipe(d);
                break;
            }
            // output stall: wait for the consumer, then call again with the same input
            ++stalls;
            ++spins;
            if (stalls > 3000) break; // a huge body through a tiny buffer: not worth the time (counted below)
            long long d = c.drains.empty() ? -1 : c.drains[drainIdx++ % c.drains.size()];
            if (d == 0) d = 1;
            if (spins > 24) d = -1; // bound the work per segment
            drainPipe(d);
        }
        if (failed) break;
        if (stalls > 3000) { ctx.excluded("more than 3000 output stalls: case abandoned"); return vp::pass(); }

        if (!threw && (inBuf.length() > delivered || memcmp(inBuf.rawContent(), in.data() + (delivered - inBuf.length()), inBuf.length()) != 0)) {
            failWith("remaining-is-not-a-suffix-of-the-input", "after " + std::to_string(delivered) + " bytes");
            break;
        }
        const size_t consumed = delivered - inBuf.length();
        // decoded so far (driver 1: without the bytes that were waiting in the pipe before)
        std::string out = collected;
        if (c.driver == 1) {
            if (pipe.contentSize() < junkLeft) junkDamaged = true;
            else out.append(pipe.content() + junkLeft, static_cast<size_t>(pipe.contentSize() - junkLeft));
            if (done || threw || seg + 1 == cuts.size())
                for (long long x = 0; x < junkLeft && !junkDamaged; ++x) if (pipe.content()[x] != junkAt(junkSeen + x)) junkDamaged = true;
            if (junkDamaged) { failWith("earlier-output-buffer-content-damaged", ""); break; }
        }

        switch (ref.kind) {
        case R_INCOMPLETE:
            if (threw) failWith(what == "InsufficientInput" ? "valid-prefix:InsufficientInput-escaped-parse" : "valid-prefix-rejected", "exception '" + what + "' after " + std::to_string(delivered) + " bytes");
            else if (done) failWith("done-before-end-of-encoding", "after " + std::to_string(delivered) + " bytes");
            else if (!startsWith(ref.body, out)) failWith("output-is-not-a-prefix-of-the-body", "at " + std::to_string(delivered));
            break;
        case R_COMPLETE:
            if (threw) failWith("valid-encoding-rejected", "exception '" + what + "'");
            else if (!done) failWith("not-done-at-end-of-valid-encoding", "delivered " + std::to_string(delivered) + " consumed " + std::to_string(consumed));
            else if (consumed != ref.pos) failWith("wrong-consumed-length", "consumed " + std::to_string(consumed) + " want " + std::to_string(ref.pos));
            else if (out != ref.body) failWith("decoded-body-differs", "got " + std::to_string(out.size()) + " bytes, want " + std::to_string(ref.body.size()));
            break;
        case R_MALFORMED:
            if (done) failWith(std::string("malformed-accepted:") + ref.why, "at offset " + std::to_string(ref.pos));
            else if (!startsWith(ref.body, out)) failWith("output-is-not-a-prefix-of-the-body", std::string("before malformation ") + ref.why);
            else if (!threw && delivered >= ref.pos + 4) failWith(std::string("malformed-not-rejected:") + ref.why, "at offset " + std::to_string(ref.pos) + ", " + std::to_string(delivered - ref.pos) + " bytes seen since");
            else if (!threw && seg + 1 == cuts.size()) ctx.label("malformation-at-very-end-not-yet-rejected");
            break;
        case R_UNJUDGED:
            if (!startsWith(ref.body, out) && !startsWith(out, ref.body)) failWith("output-diverges-from-reference-before-open-syntax", ref.why);
            break;
        }
    }
    if (failed) return verdict;

    if (stalls) ctx.label("output-stall");
    if (threw) ctx.label("squid:rejected"); else if (done) ctx.label("squid:done"); else ctx.label("squid:needs-more");
    const bool interestingValid = full.kind == R_COMPLETE && full.dataChunks >= 3 && splitInMeta && stalls > 0;
    const bool interestingBad = (full.kind == R_MALFORMED || full.kind == R_INCOMPLETE) && full.dataChunks >= 1 && c.kind != 0;
    if (interestingValid) ctx.label("nontrivial:valid-3chunks-metasplit-stall");
    if (interestingBad) ctx.label("nontrivial:bad-after-good-chunk");
    if (interestingValid || interestingBad) ctx.nontrivial();
    return vp::pass();
}

// ------------------------------------------------------------------ generators

namespace {

const std::string TcharAlphabet = "abcXYZ019-_.!#$%&'*+^`|~";

std::string genBws()
{
    return *rc::gen::weightedElement<std::string>({{6, ""}, {2, " "}, {1, "\t"}, {1, " \t "}});
}

std::string genToken(int maxLen)
{
    const int n = *vp::range<int>(1, maxLen);
    return *rc::gen::container<std::string>(static_cast<size_t>(n), rc::gen::elementOf(TcharAlphabet));
}

std::string genQuoted()
{
    std::string s = "\"";
    const int n = *vp::range<int>(0, 6);
    for (int k = 0; k < n; ++k) {
        const int what = *vp::range<int>(0, 9);
        if (what <= 4) s += *rc::gen::elementOf(std::string("abc ;=,\t()/:<>@[]{}?!#~\x80\xff"));
        else if (what == 5) s += "\\\"";
        else if (what == 6) s += "\\\\";
        else if (what == 7) { s += '\\'; s += *rc::gen::elementOf(std::string("a \t;\x80~!")); }
        else s += *rc::gen::elementOf(std::string("0123456789xX"));
    }
    s += '"';
    return s;
}

std::string genExtList()
{
    std::string s;
    const int n = *rc::gen::weightedElement<int>({{6, 0}, {3, 1}, {2, 2}, {1, 3}});
    for (int k = 0; k < n; ++k) {
        s += genBws();
        s += ';';
        s += genBws();
        s += genToken(5);
        const int v = *vp::range<int>(0, 2);
        if (v) {
            s += genBws();
            s += '=';
            s += genBws();
            s += (v == 1) ? genToken(6) : genQuoted();
        }
    }
    return s;
}

std::string renderHex(uint64_t v, int style, unsigned styleBits)
{
    std::string s;
    if (v == 0) s = "0";
    while (v) {
        const int d = static_cast<int>(v & 15);
        char ch = static_cast<char>(d < 10 ? '0' + d : 'a' + d - 10);
        if (d >= 10 && (style == 1 || (style == 2 && (styleBits & 1)))) ch = static_cast<char>(ch - 32);
        styleBits >>= 1;
        s.insert(s.begin(), ch);
        v >>= 4;
    }
    return s;
}

std::string genData(size_t n, int alphabet)
{
    static const std::string syntaxy = "\r\n\r\n00123456789abcdefABCDEFxX;=\" \t:";
    if (n > 16) {
        // deterministic expansion of two generated parameters; sprinkled with chunk syntax
        const int salt = *vp::range<int>(0, 250);
        const int step = *rc::gen::element(1, 3, 7, 13);
        std::string s(n, '\0');
        for (size_t k = 0; k < n; ++k) s[k] = alphabet == 0 ? syntaxy[(k * step + salt) % syntaxy.size()] : static_cast<char>((k * step + salt) & 0xff);
        static const char mark[] = "\r\n0\r\n\r\n";
        for (size_t k = 97 + salt; k + 8 < n; k += 4099) memcpy(&s[k], mark, 7);
        return s;
    }
    if (alphabet == 0) return *rc::gen::container<std::string>(n, rc::gen::elementOf(syntaxy));
    return *rc::gen::container<std::string>(n, rc::gen::map(rc::gen::resize(100, rc::gen::inRange<int>(0, 256)), [](int v) { return static_cast<char>(v); }));
}

struct Part { std::string digits, ext, data; bool last = false; std::string lineEnd = "\r\n", dataEnd = "\r\n"; };

std::string join(const std::vector<Part> &parts, std::vector<size_t> *hot = nullptr)
{
    std::string s;
    for (const auto &p : parts) {
        const size_t a = s.size();
        s += p.digits; s += p.ext; s += p.lineEnd;
        if (hot) for (size_t k = a; k <= s.size(); ++k) hot->push_back(k);
        s += p.data; // for the last chunk: the trailer fields
        const size_t b = s.size();
        s += p.dataEnd;
        if (hot) for (size_t k = b; k <= s.size(); ++k) hot->push_back(k);
    }
    return s;
}

std::vector<Part> genParts(std::string &body)
{
    std::vector<Part> parts;
    const int nChunks = *rc::gen::weightedElement<int>({{1, 0}, {2, 1}, {2, 2}, {4, 3}, {3, 4}, {2, 6}, {1, 9}});
    const int alphabet = *vp::range<int>(0, 1);
    int bigAt = -1;
    if (nChunks && *vp::range<int>(0, 39) == 0) bigAt = *vp::range<int>(0, nChunks - 1);
    for (int k = 0; k < nChunks; ++k) {
        size_t size;
        if (k == bigAt) size = *rc::gen::element<size_t>(size_t(65535), size_t(65536), size_t(65537), size_t(70000));
        else size = *rc::gen::weightedElement<size_t>({{4, 1}, {2, 2}, {2, 9}, {1, 10}, {1, 15}, {1, 16}, {1, 17}, {1, 255}, {1, 256}, {2, static_cast<size_t>(*vp::range<int>(3, 40))}, {1, static_cast<size_t>(*vp::range<int>(41, 600))}, {1, static_cast<size_t>(*vp::range<int>(2000, 5000)) * (*vp::range<int>(0, 9) == 0)}});
        if (size == 0) size = 1;
        Part p;
        p.data = genData(size, alphabet);
        const int zeros = *rc::gen::weightedElement<int>({{14, 0}, {3, 1}, {2, 3}, {1, 20}});
        p.digits = std::string(zeros, '0') + renderHex(size, *vp::range<int>(0, 2), static_cast<unsigned>(*vp::range<int>(0, 255)));
        p.ext = genExtList();
        body += p.data;
        parts.push_back(p);
    }
    Part last;
    last.last = true;
    last.digits = std::string(*rc::gen::weightedElement<int>({{12, 1}, {2, 2}, {1, 3}, {1, 18}}), '0');
    last.ext = genExtList();
    const int nTrailers = *rc::gen::weightedElement<int>({{6, 0}, {2, 1}, {1, 2}});
    for (int k = 0; k < nTrailers; ++k) {
        last.data += genToken(8);
        last.data += ':';
        last.data += *rc::gen::element(std::string(" "), std::string(""), std::string("\t"));
        last.data += *rc::gen::container<std::string>(static_cast<size_t>(*vp::range<int>(0, 8)), rc::gen::elementOf(std::string("abc 0;=\"\t,:\x80/")));
        if (*vp::range<int>(0, 5) == 0) last.data += "\r\n folded";
        last.data += "\r\n";
    }
    parts.push_back(last);
    return parts;
}

void mutate(std::vector<Part> &parts, std::string &flat, bool &isFlat)
{
    const int k = *vp::range<int>(0, static_cast<int>(parts.size()) - 1);
    Part &p = parts[k];
    const int op = *vp::range<int>(0, 10);
    switch (op) {
    case 0: // 0x prefix
        p.digits = *rc::gen::element(std::string("0x"), std::string("0X")) + p.digits;
        break;
    case 1: { // non-hex character in the size
        const size_t at = static_cast<size_t>(*vp::range<int>(0, static_cast<int>(p.digits.size())));
        const char ch = *rc::gen::elementOf(std::string("gGxX-+ \t:z\x80@/`") + std::string(1, '\0'));
        if (at < p.digits.size() && *vp::range<int>(0, 1)) p.digits[at] = ch;
        else p.digits.insert(std::min(at, p.digits.size()), 1, ch);
        break;
    }
    case 2: // no size at all
        p.digits.clear();
        break;
    case 3: { // sizes at and above 2^63
        const std::string big = *rc::gen::element(std::string("8000000000000000"), std::string("7FFFFFFFFFFFFFFF"), std::string("7fffffffffffffff0"),
                                                  std::string("FFFFFFFFFFFFFFFF"), std::string("10000000000000000"), std::string("fffffffffffffffff"),
                                                  std::string("8000000000000001"), std::string("123456789abcdef01"), std::string("ffffffffffffffffffffffffffffffff"));
        p.digits = std::string(*rc::gen::element(0, 0, 1, 5), '0') + big;
        break;
    }
    case 4: { // CRLF damage
        std::string &e = (*vp::range<int>(0, 1) || p.last) ? p.lineEnd : p.dataEnd;
        e = *rc::gen::element(std::string("\n"), std::string("\r"), std::string(""), std::string("\n\r"), std::string("\r\r\n"), std::string("\r\n\n"), std::string(" \r\n"), std::string("\r \n"));
        break;
    }
    case 5: { // broken extension syntax
        static const std::vector<std::string> bad = {
            ";", ";=v", ";;a", ";a=", ";a=\"x", ";a=\"x\"y", ";a=b c", ";a b", std::string(";a=\"\x01\""), std::string(";a=\"\\\x01\""), ";a=\"\r\n\"", "; =b", ";a=b=c",
            ";\"q\"", ";a=\x7f", ";(", ";a=(", ";a,b", ";a=\"b\"\"c\"", ";a=\"\\", " a", ";a=b;", ";a\x0b;b", ";a\r;b", ";\x0c" "a", ";a=\r\"b\"", ";a = \x0b" "b", std::string(";a=\"\0\"", 6), ";a=\"\x7f\"", ";a=b\"c\""};
        const std::string b = *rc::gen::elementOf(bad);
        if (*vp::range<int>(0, 1)) p.ext += b; else p.ext = b + p.ext;
        break;
    }
    case 6: { // declared size differs from the data length
        if (p.last) { p.digits = "1"; break; }
        const long long delta = *rc::gen::element(-1, 1, 2, -2, 16);
        const long long v = std::max<long long>(0, static_cast<long long>(p.data.size()) + delta);
        p.digits = renderHex(static_cast<uint64_t>(v), 0, 0);
        break;
    }
    case 7: case 8: { // byte noise in the flat encoding
        flat = join(parts);
        isFlat = true;
        if (flat.empty()) break;
        const size_t at = static_cast<size_t>(*vp::range<int>(0, static_cast<int>(std::min<size_t>(flat.size(), 400)) - 1));
        const int how = *vp::range<int>(0, 2);
        const char ch = *rc::gen::elementOf(std::string("\r\n;=\" 0x9afG\t\\\x0b\x80") + std::string(1, '\0'));
        if (how == 0) flat[at] = ch;
        else if (how == 1) flat.insert(at, 1, ch);
        else flat.erase(at, 1);
        break;
    }
    case 9: { // truncation
        flat = join(parts);
        isFlat = true;
        if (flat.empty()) break;
        std::vector<size_t> hot;
        join(parts, &hot);
        const size_t at = *vp::range<int>(0, 2) ? hot[static_cast<size_t>(*vp::range<int>(0, static_cast<int>(hot.size()) - 1))] : static_cast<size_t>(*vp::range<int>(0, static_cast<int>(flat.size()) - 1));
        flat.resize(std::min(at, flat.size()));
        break;
    }
    default: { // drop the last chunk or the final CRLF
        if (*vp::range<int>(0, 1)) parts.pop_back(); else parts.back().dataEnd.clear();
        break;
    }
    }
}

} // namespace

static rc::Gen<Case> genCase(const bool mutated)
{
    using namespace rc;
    return gen::exec([mutated]() {
        Case c;
        c.relaxed = *vp::range<int>(0, 1);
        c.driver = *gen::weightedElement<int>({{1, 0}, {2, 1}});
        std::string body;
        std::vector<Part> parts = genParts(body);
        std::string enc;
        if (mutated) {
            c.kind = 1;
            bool isFlat = false;
            mutate(parts, enc, isFlat);
            if (!isFlat) enc = join(parts);
        } else {
            c.kind = 0;
            enc = join(parts);
            c.body = body;
            c.encLen = static_cast<long long>(enc.size());
        }
        std::vector<size_t> hot;
        join(parts, &hot);
        const std::string tail = *gen::weightedElement<std::string>({{4, ""}, {1, "\r\n"}, {1, "0\r\n\r\n"}, {1, "GET / HTTP/1.1\r\nHost: a\r\n\r\n"}, {1, "5\r\nhello\r\n"}, {1, "X"}, {1, "HTTP/1.1 200 OK\r\n"}});
        c.input = enc + tail;
        if (mutated && tail.size() < 4 && *vp::range<int>(0, 3)) c.input += "\r\n\r\n"; // let late malformations be seen

        // output space: how full the pipe is when the body starts
        if (c.driver == 1) {
            int room = *gen::weightedElement<int>({{3, 1}, {2, 2}, {2, 3}, {1, 5}, {1, 17}, {1, 100}, {1, 2047}, {1, 2048}, {1, 5000}, {3, PipeCapacity - 1}});
            if (body.size() > 3000 && room < 2047) room = 5000;
            // mostly a pipe whose capacity is just what is left (same MemBuf arithmetic, cheap); sometimes the real
            // 64 KB BodyPipe buffer holding earlier output that the consumer has not taken yet
            if (*vp::range<int>(0, 11) == 0 || room == PipeCapacity - 1) { c.pipeCap = PipeCapacity; c.prefill = PipeCapacity - 1 - room; }
            else { const int pre = *gen::element(0, 0, 1, 7); c.pipeCap = room + 1 + pre; c.prefill = pre; }
            const int nd = *vp::range<int>(1, 4);
            for (int k = 0; k < nd; ++k) c.drains.push_back(*gen::weightedElement<long long>({{3, 1}, {2, 2}, {1, 3}, {1, 7}, {1, 64}, {1, 1000}, {1, 0}, {3, -1}}));
        }

        // input segmentation
        const size_t n = c.input.size();
        const int mode = *gen::weightedElement<int>({{1, 0}, {5, 1}, {2, 2}});
        if (mode == 0 || n == 0) {
            // one segment
        } else if (mode == 2 && n <= 300) {
            c.bytewise = 1;
        } else {
            const int ncut = *vp::range<int>(1, 5);
            std::vector<size_t> cutAt;
            for (int k = 0; k < ncut; ++k) {
                size_t at;
                if (!hot.empty() && *vp::range<int>(0, 9) < 7) at = hot[static_cast<size_t>(*vp::range<int>(0, static_cast<int>(hot.size()) - 1))];
                else at = static_cast<size_t>(*vp::range<int>(0, static_cast<int>(n)));
                cutAt.push_back(std::min(at, n));
            }
            std::sort(cutAt.begin(), cutAt.end());
            size_t prev = 0;
            for (const size_t at : cutAt) { c.splits.push_back(static_cast<long long>(at - prev)); prev = at; }
        }
        return c;
    });
}

#ifdef VP_FUZZ
static Case fuzzCase(FuzzedDataProvider &fdp)
{
    Case c;
    c.kind = 2;
    const unsigned b0 = fdp.ConsumeIntegral<uint8_t>();
    c.relaxed = b0 & 1;
    c.driver = (b0 >> 1) & 1;
    c.bytewise = (b0 >> 2) & 1;
    static const int rooms[] = {1, 2, 3, 5, 17, 100, 2048, PipeCapacity - 1};
    c.pipeCap = rooms[(b0 >> 3) & 7] + 1;
    c.prefill = 0;
    const unsigned b1 = fdp.ConsumeIntegral<uint8_t>();
    const int ns = b1 & 3;
    for (int k = 0; k < ns; ++k) c.splits.push_back(fdp.ConsumeIntegral<uint8_t>());
    static const long long drainSet[] = {-1, 1, 2, 7};
    c.drains.push_back(drainSet[(b1 >> 2) & 3]);
    c.drains.push_back(drainSet[(b1 >> 4) & 3]);
    c.input = fdp.ConsumeRemainingBytesAsString();
    return c;
}
#else
static std::function<Case(FuzzedDataProvider &)> fuzzCase = nullptr;
#endif

static void registerAll()
{
    vp::add<Case>("valid_roundtrip", genCase(false), check, show, parse, 1.0);
    vp::add<Case>("mutated_encoding", genCase(true), check, show, parse, 1.0, fuzzCase);
}

VP_MAIN(registerAll)
