"""C13 Vary: a stored variant is served only to matching requests; Vary: * is never served from cache."""
from hypothesis import strategies as st

from vlib.e2e import httpref
from vlib.e2e.cachekit import fetch_url, usable
from vlib.e2e.env import ProxyEnv
from vlib.e2e_runner import Result

# request header fields a response may nominate.  multi: repeated field lines are generated only for list-valued / unknown fields
# (a repeated singleton field such as User-Agent is a malformed request whose meaning the statement leaves open)
POOL = [("Accept-Encoding", True), ("Accept-Language", True), ("X-Key", True), ("X-Other", True), ("User-Agent", False), ("Cookie", False)]
NAMES = [n for n, _ in POOL]
MULTI = dict(POOL)

ATOMS = ["a", "b", "gzip", "en", "1", "2", "k=v", " ", ",", ", ", "\"", "=", "%", "%22", "%2C", "%20", "%25", ";q=0.5", "\t", "\xe9", "\xff", "\x80",
         "x-key", "x-other", "accept-encoding", "=\"", "\", ", "\", x-other=\"", "\", x-key=\"", "\", accept-language=\"", "*", "\\", "&", "+", "'", "(", "/", ":"]


def _case(name, mode):
    if mode == "lower":
        return name.lower()
    if mode == "upper":
        return name.upper()
    if mode == "mixed":
        return "".join(c.upper() if i % 2 else c.lower() for i, c in enumerate(name))
    return name


def _sep_of(name):
    """the text that separates two nominated values inside an unescaped variant key (collision hunting)"""
    return "\", %s=\"" % name.lower()


@st.composite
def _scenario(draw):
    line = st.lists(st.sampled_from(ATOMS), min_size=0, max_size=4).map("".join)

    def value_for(name):
        # None = field absent; else a list of field lines
        if MULTI[name]:
            return st.one_of(st.none(), st.lists(line, min_size=1, max_size=3))
        return st.one_of(st.none(), st.lists(line, min_size=1, max_size=1))

    def vary_list():
        items = st.lists(st.tuples(st.sampled_from(NAMES + ["X-Never-Sent"]), st.sampled_from(["asis", "lower", "upper", "mixed"])), min_size=1, max_size=3)
        return st.fixed_dictionaries({"items": items.map(lambda l: [list(t) for t in l]), "star": st.sampled_from(["no"] * 7 + ["only", "first", "last"]),
                                      "sep": st.sampled_from([", ", ",", " , ", ",,"]), "split": st.booleans()})

    vary = draw(vary_list())
    vary2 = draw(st.one_of(st.none(), st.none(), st.none(), st.none(), vary_list()))
    nominated = [n for n, _ in vary["items"] if n in MULTI]
    first = {n: draw(value_for(n)) for n in NAMES}
    attack = draw(st.booleans()) and len(nominated) >= 2 and nominated[0].lower() != nominated[1].lower() and vary["star"] == "no"
    reqs = []
    if attack:
        # shape the first request so that an unescaped key could be cut at a different place: h1 = p SEP q, h2 = r  vs  h1 = p, h2 = q SEP r
        h1, h2 = nominated[0], nominated[1]
        p, q, rr = draw(line), draw(line), draw(line)
        first[h1] = [p + _sep_of(h2) + q]
        first[h2] = [rr]
        second = dict(first)
        second[h1] = [p]
        second[h2] = [q + _sep_of(h2) + rr]
        reqs = [{"op": "first", "values": first}, {"op": "resplit-attack", "values": second}]
    else:
        reqs = [{"op": "first", "values": first}]
    n_more = draw(st.integers(1, 3))
    for _ in range(n_more):
        prev = dict(reqs[draw(st.integers(0, len(reqs) - 1))]["values"])
        op = draw(st.sampled_from(["same", "same", "edit-atom", "edit-atom", "toggle-absent", "split-line", "merge-lines", "ows", "case", "fresh", "other-header", "escape-spelling", "escape-spelling"]))
        target = draw(st.sampled_from(nominated)) if nominated else draw(st.sampled_from(NAMES))
        cur = prev.get(target)
        if op == "edit-atom":
            lines = list(cur) if cur else [""]
            i = draw(st.integers(0, len(lines) - 1))
            how = draw(st.sampled_from(["append", "prepend", "replace", "chop"]))
            a = draw(st.sampled_from(ATOMS))
            if how == "append":
                lines[i] = lines[i] + a
            elif how == "prepend":
                lines[i] = a + lines[i]
            elif how == "replace":
                lines[i] = a
            else:
                lines[i] = lines[i][:-1]
            prev[target] = lines
        elif op == "toggle-absent":
            prev[target] = None if cur is not None else [draw(line)]
        elif op == "split-line" and cur and MULTI[target]:
            lines = list(cur)
            i = draw(st.integers(0, len(lines) - 1))
            if "," in lines[i]:
                k = lines[i].index(",")
                lines[i:i + 1] = [lines[i][:k], lines[i][k + 1:]]
            prev[target] = lines
        elif op == "merge-lines" and cur and len(cur) > 1:
            j = draw(st.sampled_from([", ", ",", " ,"]))
            prev[target] = [j.join(cur)]
        elif op == "ows" and cur:
            prev[target] = [draw(st.sampled_from([" ", "\t", "  "])) + l + draw(st.sampled_from(["", " ", "\t "])) for l in cur]
        elif op == "case" and cur:
            prev[target] = ["".join(c.swapcase() if c.isascii() else c for c in l) for l in cur]
        elif op == "escape-spelling":
            # a different value that differs only in how one byte is spelled: literally or as %XX (collision hunting against
            # whatever escaping the variant key uses); an empty value gets a literal "%20" vs " " pair
            lines = list(cur) if cur else [" x"]
            i = draw(st.integers(0, len(lines) - 1))
            l = lines[i] or " x"
            k = draw(st.integers(0, len(l) - 1))
            if l[k] == "%" and len(l) >= k + 3 and all(c in "0123456789abcdefABCDEF" for c in l[k + 1:k + 3]):
                l = l[:k] + chr(int(l[k + 1:k + 3], 16)) + l[k + 3:] if int(l[k + 1:k + 3], 16) >= 0x20 else l[:k] + "%25" + l[k + 1:]
            else:
                l = l[:k] + "%%%02X" % ord(l[k]) + l[k + 1:] if ord(l[k]) < 0x80 else l + "%20"
            if cur is None or not cur:
                prev[target] = [" x"]
                reqs.append({"op": "escape-spelling-base", "values": dict(prev)})
            lines[i] = l
            prev[target] = lines
        elif op == "fresh":
            prev = {n: draw(value_for(n)) for n in NAMES}
        elif op == "other-header":
            others = [n for n in NAMES if n not in nominated]
            if others:
                o = draw(st.sampled_from(others))
                prev[o] = draw(value_for(o))
        reqs.append({"op": op, "values": prev})
    return {"vary": vary, "vary2": vary2, "requests": reqs, "body_len": draw(st.sampled_from([10, 3000])), "name_case": draw(st.sampled_from(["asis", "lower", "upper"]))}


def strategy(tp):
    return _scenario()


def setup(ctx):
    return ProxyEnv(ctx, cache_mem="64 MB")


def teardown(env):
    env.close()


def _vary_lines(v):
    names = [_case(n, c) for n, c in v["items"]]
    if v["star"] == "only":
        names = ["*"]
    elif v["star"] == "first":
        names = ["*"] + names
    elif v["star"] == "last":
        names = names + ["*"]
    if v["split"] and len(names) > 1:
        return [names[0], v["sep"].join(names[1:])]
    return [v["sep"].join(names)]


def _nominated(v):
    """-> None for '*', else the set of lower-cased nominated field names"""
    if v["star"] != "no":
        return None
    return sorted(set(n.lower() for n, _ in v["items"]))


def _norm(lines):
    """Coarsest matching the statement/RFC 9111 4.1 allows: combine field lines, drop whitespace around list commas and empty
    elements; absent == empty (the statement does not separate them)."""
    if not lines:
        return ""
    joined = ",".join(lines)
    parts = [p.strip(" \t") for p in joined.split(",")]
    return ",".join(p for p in parts if p)


def _selected(values, names):
    by_lower = {n.lower(): values.get(n) for n in NAMES}
    return {n: _norm(by_lower.get(n)) for n in names}


def execute(env, sc):
    r = Result()
    path = "/" + env.ns()
    url = env.url(path)
    varies = [sc["vary"]] + ([sc["vary2"]] if sc["vary2"] else [])

    def vary_of(idx):
        return varies[min(idx, len(varies) - 1)]

    def beh(arr):
        v = vary_of(arr.index)
        hs = [["Cache-Control", "max-age=3600"], ["X-Version", str(arr.index)]] + [["Vary", l] for l in _vary_lines(v)]
        return {"status": 200, "headers": hs, "body_tag": "%s#%d" % (path, arr.index), "body_len": sc["body_len"]}

    env.origin.script(path, beh)
    sent = []      # per origin arrival: the client request values that caused it
    r.sub_evaluations = 0
    hits = 0
    for i, rq in enumerate(sc["requests"]):
        hdrs = []
        for n in NAMES:
            for l in (rq["values"].get(n) or []):
                hdrs.append((_case(n, sc["name_case"]), l))
        before = env.origin.arrival_count(path)
        m = fetch_url(env, url, hdrs)
        if not usable(m, r):
            break
        after = env.origin.arrival_count(path)
        if m.status != 200 or m.has("x-squid-error"):
            r.label("request-not-served:%s" % m.status)
            break
        if after > before + 1:
            r.inconclusive = "more than one origin arrival for one request"
            break
        if after == before + 1:
            sent.append(rq["values"])
            r.label("miss:" + rq["op"])
            continue
        # ---- answered without contacting the origin
        r.sub_evaluations += 1
        hits += 1
        r.label("hit:" + rq["op"])
        if not m.complete:
            r.label("hit-incomplete")
            continue
        try:
            j = int(m.get("x-version", b"-1"))
        except ValueError:
            j = -1
        if not (0 <= j < len(sent)) or m.body != httpref.keyed_stream("%s#%d" % (path, j), sc["body_len"]):
            r.fail("hit-is-no-stored-variant", "request %d answered without an origin arrival; X-Version=%r, body matches no version the origin sent" % (i, m.get("x-version")))
            continue
        vj = vary_of(j)
        names = _nominated(vj)
        if names is None:
            r.fail("vary-star-served-from-cache", "request %d was answered from cache with origin response %d which carried Vary %r" % (i, j, _vary_lines(vj)))
            continue
        want, have = _selected(sent[j], names), _selected(rq["values"], names)
        if want == have:
            continue
        if {k: v.lower() for k, v in want.items()} == {k: v.lower() for k, v in have.items()}:
            r.label("open:values-differ-in-letter-case-only")      # field-specific normalisation may fold case: accepted both ways
            continue
        diff = [k for k in names if want[k] != have[k]]
        r.fail("variant-served-to-non-matching-request",
               "request %d (%s) got the variant stored for origin arrival %d without an origin arrival; Vary %r; differing nominated fields %r: stored-for %r, this request %r" % (
                   i, rq["op"], j, _vary_lines(vj), diff, {k: want[k] for k in diff}, {k: have[k] for k in diff}))
    # Vary: * on every stored version => every request must have reached the origin (checked above through the body's version)
    if all(_nominated(v) is None for v in varies):
        r.label("vary-star-only")
        if hits == 0 and len(sent) >= 2:
            r.nontrivial = True
    ops = [q["op"] for q in sc["requests"][1:]]
    if any(o in ("edit-atom", "toggle-absent", "resplit-attack", "case", "split-line") for o in ops) and len(sent) >= 1 and _nominated(sc["vary"]) is not None:
        r.nontrivial = True
    r.sub_evaluations = max(1, r.sub_evaluations)
    env.health(r)
    return r
